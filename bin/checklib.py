import sys, os, json, time, subprocess, re, fcntl, hashlib, glob

ROOT = os.path.dirname(os.path.dirname(os.path.abspath(__file__)))
LEAN = os.path.join(ROOT, "lean")
HARNESS = os.path.join(ROOT, "harness")
# The registered commands always run against /repo.  VERIF_REPO (self-validation only) points the
# translator and a private copy of the harness at another checkout, e.g. a scratch worktree
# carrying a seeded change, so that /repo itself need not be touched while other work uses it.
REPO = os.environ.get("VERIF_REPO", "/repo")
DRIVER = os.path.join(LEAN, ".lake", "build", "bin", "driver")
WORK = os.path.join(ROOT, "work")
REPLAYS = os.path.join(ROOT, "replays")
EVID = os.environ.get("VERIF_EVID", os.path.join(ROOT, "evidence"))
ALLOWED_AXIOMS = {"propext", "Classical.choice", "Quot.sound"}
FORBIDDEN = re.compile(r"\b(sorry|admit|native_decide|bv_decide|implemented_by|unsafe)\b|^\s*axiom\s|maxHeartbeats\s+0\b", re.M)

ENV = dict(os.environ)
ENV["CARGO_NET_OFFLINE"] = "true"
ENV["CARGO_TERM_COLOR"] = "never"

TRUSTED_BASE = [
    "Lean 4.33.0 kernel (leanchecker re-check in the thorough tier)",
    "axioms allowed in property theorems: propext, Classical.choice, Quot.sound (audited by #print axioms on every run)",
    "hand-written Lean models TcVerif/Model/*.lean; their agreement with /repo's working tree is TESTED by the correspondence leg of this run, not proved",
    "Lean compiler (the driver executes the compiled model definitions)",
    "Rust harness, its generators, canonicalisation and the translator of constants (verif/translate)",
]

# ------------------------------------------------------------------------------------------------
# projections: what part of an answer line a property's correspondence looks at
# ------------------------------------------------------------------------------------------------

def _head(line):
    return line.split("|")[0].split()

def proj_allowed(op, line):
    if op.startswith(("rl ", "rle ")):
        return " ".join(_head(line)[:2])
    if op.startswith(("snew", "atrace")):
        return line
    return None

def _ttls(line):
    out = []
    if "|" in line:
        for o in line.split("|", 1)[1].split(";"):
            t = o.split()
            if t and t[0] == "cas":
                out.append(t[4])
            elif t and t[0] == "setnx":
                out.append(t[3])
    return out

def proj_fields(op, line):
    if op.startswith(("rl ", "rle ")):
        return " ".join(_head(line)) + " ttl=" + ",".join(_ttls(line))
    if op.startswith("snew"):
        return line
    return None

def proj_resp(op, line):
    if op.startswith(("rl ", "rle ")):
        return " ".join(_head(line))
    if op.startswith("snew"):
        return line
    return None

def proj_resp_trace(op, line):
    if op.startswith("ssnap"):
        return None
    return line

def _skip_frame(b, i, depth=0):
    """index after the RESP frame starting at b[i], or None if incomplete / not a frame"""
    if i >= len(b) or depth > 200:
        return None
    t = b[i:i + 1]
    j = b.find(b"\r\n", i)
    if j < 0:
        return None
    if t in (b"+", b"-", b":"):
        return j + 2
    try:
        n = int(b[i + 1:j])
    except ValueError:
        return None
    if t == b"$":
        if n < 0:
            return j + 2
        return j + 2 + n + 2 if j + 2 + n + 2 <= len(b) else None
    if t == b"*":
        k = j + 2
        for _ in range(max(n, 0)):
            k = _skip_frame(b, k, depth + 1)
            if k is None:
                return None
        return k
    return None

def _canon_reply_stream(hx):
    """a connection's reply bytes with the TEXT of top-level error replies blanked (`-ERR ...` -> `-*`):
    no property fixes the wording of an error message, only that it is one well-formed error frame"""
    if hx == "-" or len(hx) % 2:
        return hx
    try:
        b = bytes.fromhex(hx)
    except ValueError:
        return hx
    out, i = b"", 0
    while i < len(b):
        k = _skip_frame(b, i)
        if k is None:
            out += b[i:]
            break
        out += b"-*\r\n" if b[i:i + 1] == b"-" else b[i:k]
        i = k
    return out.hex()

_ERRVAL = re.compile(r"\bE(?:(?:[0-9a-f]{2})+|-)")

def proj_server(op, line):
    """server-level lines: error reply TEXTS and the reason a connection was closed (told apart only by the
    server's log wording) are not observables of any property - compare the kind of reply and open / eof / closed"""
    if op.startswith(("rplan", "rfinish")):
        return _ERRVAL.sub("E*", line)
    if op.startswith("rconn"):
        t = line.split(" ")
        if len(t) == 2:
            st = "closed" if t[1] in ("quit", "error", "overflow") else t[1]
            return _canon_reply_stream(t[0]) + " " + st
    return line

def proj_full(op, line):
    return line

def proj_lifetime(op, line):
    if op.startswith(("rl ", "rle ")):
        return " ".join(_head(line)[:2]) + " ttl=" + ",".join(_ttls(line))
    if op.startswith("ssnap"):
        i = line.find("entries=")
        return line[i:] if i >= 0 else line
    return line

# ------------------------------------------------------------------------------------------------
# property table
# ------------------------------------------------------------------------------------------------
# runs: (crate, mode, {tier: n}); oracle tags listed in `tags` are this property's O-leg findings
PROPS = {
    "C01": dict(runs=[("core", "hist", dict(quick=1500, thorough=40000))], proj=proj_allowed, tags=["C01"],
                rule="multi-key monotone histories on a random store configuration; gaps drawn from the refill/expiry/cleanup boundary set; all O(n^2) windows of every fixed-limits key summed; non-trivial = the history has both admitted and denied requests; distinct = hash of configuration + request lines"),
    "C02": dict(runs=[("core", "hist", dict(quick=1500, thorough=40000)), ("server", "actor", dict(quick=60, thorough=600)), ("core", "popul", dict(quick=0, thorough=8)), ("server", "wire", dict(quick=40, thorough=400))], proj=proj_allowed, tags=["C02"],
                # the server's actor must hand the limits to the library unchanged for every store kind: its traces are
                # replayed through the model and on a fresh library limiter
                # ... and a transport must hand the request over unchanged (a probe of quantity 0 that arrives as 1 starves the key)
                tags_by_mode={"actor": ["C09"], "popul": ["C08"], "wire": ["C12"]},
                rule="popul: up to 1.1 million simultaneously live keys per store (a never-seen key must be admitted whatever the population); same histories as C01; every decision compared with an exact integer token bucket (capacity burst, one token per emission interval); non-trivial = both admitted and denied requests present"),
    "C03": dict(runs=[("core", "hist", dict(quick=1000, thorough=20000)), ("core", "probe", dict(quick=800, thorough=12000)), ("core", "popul", dict(quick=0, thorough=8))], proj=proj_fields, tags=["C03"],
                tags_by_mode={"popul": ["C02"]},
                rule="hist: every response's fields against the bucket (remaining exact, retry_after exact, reset_after >= refill time, reset_after = lifetime asked of the store); probe: sampled responses probed from a re-executed copy of their state (remaining / remaining+1, retry_after / retry_after-1ns, after reset_after = never-seen key)"),
    "C04": dict(runs=[("core", "insert", dict(quick=1500, thorough=30000)), ("server", "wire", dict(quick=40, thorough=400))], proj=proj_resp_trace, tags=["C04"],
                # zero-quantity and rejected requests must stay without effect when they arrive through a transport: the wire mode
                # sends quantity 0 / invalid limits over HTTP, gRPC and RESP and compares the request the library saw and the
                # budget afterwards with what was sent (its discrepancies carry the tag C12)
                tags_by_mode={"wire": ["C12"]},
                rule="base history vs the same history with denied / zero-quantity / invalid requests inserted at random positions and times (also under other limits); every base response must be unchanged; rejected requests must issue no store operation and create no entry"),
    "C05": dict(runs=[("core", "iso", dict(quick=400, thorough=6000)), ("server", "wire", dict(quick=40, thorough=400))], proj=proj_resp, tags=["C05"],
                # keys must reach the limiter byte for byte: near-identical and long shared-prefix key families over HTTP, gRPC and RESP
                tags_by_mode={"wire": ["C09", "C12"]},
                profiles=["release", "stdhash"],
                rule="interleaved multi-key history (keys: empty, NUL, Unicode, 64 KiB, one-byte differences; 20-70% noise keys so the table grows and every cleanup trigger fires) vs the solo run of each key on a fresh limiter"),
    "C06": dict(runs=[("core", "storeops", dict(quick=600, thorough=3000)), ("core", "hist", dict(quick=300, thorough=5000)), ("core", "popul", dict(quick=0, thorough=8))], proj=proj_full, tags=["C06"],
                # a store operation that panics is not the behaviour of a map
                tags_by_mode={"storeops": ["C08"], "hist": ["C08"], "popul": ["C02", "C03", "C08"]},
                # hashing is the one thing the `ahash` feature changes: the store modes also run against the library built without it
                profiles=["release", "stdhash"],
                rule="raw get/set-if-absent/compare-and-swap sequences on the three real stores in random (also degenerate) configurations, times straddling every cleanup trigger; snapshot of entries and scheduling state compared with the model after every operation; answers compared with an independent abstract expiring map"),
    "C07": dict(runs=[("core", "hist", dict(quick=800, thorough=15000)), ("core", "reclaim", dict(quick=150, thorough=3000)), ("core", "popul", dict(quick=0, thorough=8))], proj=proj_lifetime, tags=["C07"],
                rule="hist: lifetime of every store write within [E, 2*B*E]; reclaim: unbounded stream of fresh keys with a bounded active set on cleanup-enabled stores, after every guaranteed cleanup point (interval elapsed / operation budget) no held entry is expired and the entry count is within the active set; probabilistic store (half of its sessions start from the state after 10^9..10^12 writes, a few writes before count*multiplier passes a multiple of 2^64): no entry is expired-and-held over N consecutive write operations"),
    "C08": dict(runs=[("core", "lattice", dict(quick=0, thorough=1)), ("core", "hist", dict(quick=2000, thorough=20000)), ("core", "popul", dict(quick=0, thorough=8), ["release"])], proj=proj_resp, tags=["C08"],
                rule="hist: multi-key histories on every store configuration (incl. min_interval > max_interval, zero intervals, modulus 0/1), with hot keys whose writes land on expired-but-unswept entries dozens of times between two cleanups - any panic is a violation; lattice: boundary lattice {MIN,-1,0,1,2,2^31-1,2^31,2^32-1,2^32,2^32+1,2^53-1,2^53+1,2^63/1e9 -+1,MAX-1,MAX}^4 (thorough: 24^4) x 4 timestamps 1970..2200 x fresh/pre-populated x 3 stores, plus random points; harness built with overflow checks on (debug profile) and off (release)",
                profiles=["release", "dev"]),
    "C17": dict(runs=[("core", "regress", dict(quick=600, thorough=10000))], proj=proj_allowed, tags=["C17"],
                # "no call panics or errors" under any timestamp order
                tags_by_mode={"regress": ["C08"]},
                rule="histories with arbitrary timestamp order (jitter, multi-second steps back, oscillation) on stores with aggressive cleanup; no error/panic; window bound with measured J; budget probes at an earlier timestamp vs the latest one by re-execution"),
    "C18": dict(runs=[("core", "rate", dict(quick=600000, thorough=20000000)), ("core", "hist", dict(quick=400, thorough=8000))], proj=proj_full, tags=["C18"],
                # the rate the LIMITER realises: histories whose requests alternate between limits that differ in one field
                # (count off by one / doubled / by a multiple of 2^32, period swapped between the standard ones) and carry
                # rejected requests in between; every decision against the exact-quotient token bucket
                tags_by_mode={"hist": ["C01", "C02", "C03"]},
                rule="hist: limiter-level histories (sibling limits, see C01/C02) against the exact-quotient bucket; rate: (count, period) boundary lattice, divisors and near-divisors of period*1e9, random points in and outside D; unit constructors at boundaries and random n in 1..2^32-1; non-trivial = point inside D"),
    "C09": dict(runs=[("server", "actor", dict(quick=300, thorough=6000)), ("server", "wire", dict(quick=40, thorough=600)), ("server", "binary", dict(quick=60, thorough=120))], proj=proj_server, tags=["C09"],
                rule="actor: the real actor loop (unspawned, hook) and real RateLimiterHandle::throttle futures polled by a hand-rolled deterministic scheduler - exhaustive enumeration of schedules for small configurations, random schedules for larger; every trace replayed through the Lean LTS validator with the GCRA model as limiter; wire: one in-process server with HTTP + gRPC + RESP on loopback sockets sharing one actor, traces validated (loose enq order)"),
    "C10": dict(modules=["C10", "C10Resp"], runs=[("server", "actor", dict(quick=300, thorough=6000)), ("server", "conn", dict(quick=60, thorough=500)), ("server", "wire", dict(quick=40, thorough=400))], proj=proj_server, tags=["C10"],
                rule="actor: schedules with queue capacity down to 1 and cancellation of pending requests at every poll boundary (before enqueue / after enqueue / after the reply was produced); conn: pipelined RESP streams over real TCP cut into random chunkings, PING tags identify reply order"),
    "C11": dict(runs=[("server", "actor", dict(quick=200, thorough=4000)), ("server", "wire", dict(quick=40, thorough=600)), ("server", "conn", dict(quick=60, thorough=500)), ("server", "binary", dict(quick=60, thorough=120))], proj=proj_server, tags=["C11"],
                # a connection that stops answering well-formed commands after fragmented / malformed traffic is a C11 failure too
                tags_by_mode={"conn": ["C10", "C13"], "resp": ["C13"]},
                rule="hostile prefixes (i64 boundary lattice as requests on every transport, malformed frames, abrupt closes, oversize buffers) followed by a probe request on a new connection whose answer is compared with the model"),
    "C12": dict(runs=[("server", "cmd", dict(quick=400, thorough=10000)), ("server", "wire", dict(quick=40, thorough=600)), ("server", "binary", dict(quick=60, thorough=120)), ("server", "actor", dict(quick=100, thorough=2000)), ("server", "conn", dict(quick=60, thorough=500))], proj=proj_server, tags=["C12"],
                # the actor traces carry the wire-level response (seconds); replaying the proc log on a fresh library limiter checks the conversion
                tags_by_mode={"actor": ["C09"], "conn": ["C10", "C13"]},
                rule="cmd: RESP commands (bulk vs :int arguments, any name case, arity 4..7, non-numeric / overflow arguments) through the real per-command handler with a real actor, the request the actor saw and the reply compared with the model's plan/finish; wire: each logical request routed to a random protocol/encoding over loopback sockets, wire answer compared field by field with what the actor log says the library decided"),
    "C13": dict(runs=[("server", "resp", dict(quick=900, thorough=200000)), ("server", "conn", dict(quick=60, thorough=500)), ("server", "binary", dict(quick=20, thorough=60))], proj=proj_server, tags=["C13"],
                # deeply nested frames against the real process (release AND unoptimised build): a decoder that dies takes the process with it
                tags_by_mode={"binary": ["C11"]},
                rule="resp: ALL byte strings up to length 5 (thorough 6) over the 13-symbol protocol alphabet + grammar-generated frames with mutations and hostile headers through the real RespParser vs the model; prefix-stability / bounds / depth-restored asserted on the real parser; conn: real TCP, same stream under several chunkings incl. 1-byte chunks"),
    "C14": dict(runs=[("server", "resp", dict(quick=900, thorough=99999)), ("server", "cmd", dict(quick=400, thorough=10000)), ("server", "conn", dict(quick=60, thorough=500))], proj=proj_server, tags=["C14"],
                # the reply stream of a real connection must stay in step with the command stream
                tags_by_mode={"conn": ["C10", "C13"], "resp": ["C13"]},
                rule="resp: recursively generated values (all five kinds, CR/LF inside bulk strings, i64 extremes, depth up to 128) through the real serializer and parser; cmd: every reply of the real command handler serialised and parsed back as exactly one frame (command names with CR/LF, quotes, non-ASCII)"),
    "C15": dict(runs=[("server", "metrics", dict(quick=300, thorough=6000)), ("server", "cmd", dict(quick=400, thorough=10000)), ("server", "wire", dict(quick=40, thorough=600)), ("server", "binary", dict(quick=60, thorough=120))], proj=proj_server, tags=["C15"],
                rule="metrics: random event lists vs the model's counters; 8 OS threads hammering one Metrics, identities at barriers; cmd/wire: which counter each real command moved, /metrics scraped and parsed at quiescent points and compared with what clients saw"),
    "C16": dict(runs=[("server", "metrics", dict(quick=300, thorough=6000)), ("server", "wire", dict(quick=40, thorough=300)), ("server", "binary", dict(quick=60, thorough=120))], proj=proj_server, tags=["C16"],
                # the tracker behind the real transports / the real binary (incl. debug logging): a tracker that stops recording is a C16 failure
                tags_by_mode={"wire": ["C11", "C15"], "binary": ["C11", "C15"]},
                rule="adversarial denial streams (unbounded distinct keys, late heavy hitters, ties, 255/256/257-byte keys, quotes/backslashes/controls/non-ASCII) on sizes 1..100 (+0, 20000 for the clamp); the table before/after EVERY update and every report checked by the model's relational validators (any tie-breaking accepted); escaped labels compared byte for byte; export parsed back line by line"),
}

# ------------------------------------------------------------------------------------------------

def log(*a):
    print(*a, flush=True)

def sh(cmd, cwd=None, timeout=None, env=None):
    p = subprocess.run(cmd, cwd=cwd, env=env or ENV, stdout=subprocess.PIPE, stderr=subprocess.STDOUT, text=True, timeout=timeout)
    return p.returncode, p.stdout

class Lock:
    def __init__(self, name):
        os.makedirs(WORK, exist_ok=True)
        self.path = os.path.join(WORK, name + LOCK_SUFFIX + ".lock")
    def __enter__(self):
        self.f = open(self.path, "w")
        fcntl.flock(self.f, fcntl.LOCK_EX)
    def __exit__(self, *a):
        fcntl.flock(self.f, fcntl.LOCK_UN)
        self.f.close()

def save_replay(pid, kind, header, lines):
    os.makedirs(REPLAYS, exist_ok=True)
    body = "\n".join(lines) + "\n"
    h = hashlib.sha1((pid + kind + body).encode()).hexdigest()[:10]
    path = os.path.join(REPLAYS, f"{pid}-{kind}-{h}.txt")
    with open(path, "w") as f:
        f.write(f"# property={pid} kind={kind}\n")
        for k, v in header.items():
            f.write(f"# {k}: {v}\n")
        f.write(body)
    return path

# ------------------------------------------------------------------------------------------------
# leg P
# ------------------------------------------------------------------------------------------------

def theorem_names(pid):
    """theorem names of every Props module that belongs to the property (Props/<pid>.lean plus extras)"""
    mods = PROPS.get(pid, {}).get("modules", [pid])
    names, srcs = [], []
    for m in mods:
        path = os.path.join(LEAN, "TcVerif", "Props", f"{m}.lean")
        if not os.path.exists(path):
            return None, []
        src = open(path).read()
        srcs.append(src)
        src_nc = re.sub(r"/-.*?-/", "", src, flags=re.S)
        src_nc = re.sub(r"--.*", "", src_nc)
        stack = []
        for line in src_nc.splitlines():
            mm = re.match(r"^namespace\s+([A-Za-z0-9_.]+)", line)
            if mm:
                stack.append(mm.group(1))
                continue
            mm = re.match(r"^end\s+([A-Za-z0-9_.]+)\s*$", line)
            if mm and stack and stack[-1] == mm.group(1):
                stack.pop()
                continue
            mm = re.match(r"^(?:private\s+)?theorem\s+([A-Za-z0-9_'.]+)", line)
            if mm and not line.startswith("private"):
                names.append(".".join(stack + [mm.group(1)]))
    return "\n".join(srcs), names

def grep_forbidden():
    bad = []
    for path in glob.glob(os.path.join(LEAN, "**", "*.lean"), recursive=True):
        if "/.lake/" in path:
            continue
        src = open(path).read()
        src_nc = re.sub(r"/-.*?-/", "", src, flags=re.S)
        src_nc = re.sub(r"--.*", "", src_nc)
        for m in FORBIDDEN.finditer(src_nc):
            bad.append(f"{os.path.relpath(path, LEAN)}: {m.group(0).strip()}")
        if "/Model/" in path and re.search(r"^\s*partial\s+def", src_nc, flags=re.M):
            bad.append(f"{os.path.relpath(path, LEAN)}: partial def in a model file")
    return bad

def leg_p(pid, tier):
    """returns dict(ok, obligations, discharged, failing, detail, checker_cmd)"""
    res = dict(ok=False, obligations=0, discharged=0, failing=None, detail="", checker_cmd="")
    src, names = theorem_names(pid)
    if src is None:
        res["detail"] = f"no theorem file for {pid}"
        res["failing"] = f"TcVerif.Props.{pid} (missing)"
        return res
    res["obligations"] = len(names)
    mods = [f"TcVerif.Props.{m}" for m in PROPS.get(pid, {}).get("modules", [pid])]
    mod = " ".join(mods)
    res["checker_cmd"] = f"cd lean && lake build {mod} && lake env lean <audit: #print axioms of {len(names)} theorems>"
    with Lock("lake"):
        rc, out = sh(["lake", "build"] + mods, cwd=LEAN, timeout=3000)
    if rc != 0:
        errs = [l for l in out.splitlines() if "error" in l]
        res["detail"] = "lake build failed:\n" + "\n".join(errs[:20])
        m = re.search(r"error: (\S+\.lean):(\d+)", out)
        res["failing"] = f"{mod}" + (f" at {m.group(1)}:{m.group(2)}" if m else "")
        return res
    bad = grep_forbidden()
    if bad:
        res["detail"] = "forbidden constructs: " + "; ".join(bad[:10])
        res["failing"] = "source audit"
        return res
    audit_dir = os.path.join(WORK, "audit")
    os.makedirs(audit_dir, exist_ok=True)
    apath = os.path.join(audit_dir, f"Audit{pid}.lean")
    with open(apath, "w") as f:
        for m in mods:
            f.write(f"import {m}\n")

        for n in names:
            f.write(f"#print axioms {n}\n")
    rc, out = sh(["lake", "env", "lean", apath], cwd=LEAN, timeout=1200)
    if rc != 0:
        res["detail"] = "axiom audit failed to run:\n" + out[:2000]
        res["failing"] = "axiom audit"
        return res
    ok = 0
    used = set()
    text = out.replace("\n ", " ").replace("\n  ", " ")
    for n in names:
        m = re.search(r"'(?:[A-Za-z0-9_]+\.)*" + re.escape(n) + r"' (does not depend on any axioms|depends on axioms: \[([^\]]*)\])", text)
        if not m:
            res["detail"] += f"no audit line for {n}\n"
            continue
        axs = set(a.strip() for a in (m.group(2) or "").split(",") if a.strip())
        if axs - ALLOWED_AXIOMS:
            res["detail"] += f"{n} depends on {sorted(axs - ALLOWED_AXIOMS)}\n"
            res["failing"] = n
            continue
        used |= axs
        ok += 1
    res["discharged"] = ok
    res["axioms_used"] = sorted(used)
    res["theorems"] = names
    if tier == "thorough" and ok == len(names):
        with Lock("lake"):
            rc, out = sh(["lake", "env", "leanchecker"] + mods, cwd=LEAN, timeout=3000)
        res["leanchecker"] = "ok" if rc == 0 else out[-500:]
        if rc != 0:
            res["detail"] += "leanchecker rejected the module\n"
            res["failing"] = f"{mod} (leanchecker)"
            return res
    res["ok"] = ok == len(names) and len(names) > 0
    if not res["ok"] and not res["failing"]:
        res["failing"] = f"{mod} (audit)"
    return res

# ------------------------------------------------------------------------------------------------
# builds
# ------------------------------------------------------------------------------------------------

TRANSLATOR_BROKEN = None
LOCK_SUFFIX = ""   # self-validation runs against another checkout get private locks, model copy and status file
TRANSLATOR_STATUS = {}
NEED_BINARY = False

def alt_harness():
    """private copy of the harness whose path dependencies point at VERIF_REPO"""
    global HARNESS
    if REPO == "/repo":
        return
    alt = os.path.join(WORK, "altharness-" + hashlib.sha1(REPO.encode()).hexdigest()[:8])
    os.makedirs(alt, exist_ok=True)
    sh(["rsync", "-a", "--delete", "--exclude", "target", "--exclude", "target-stdhash", os.path.join(ROOT, "harness") + "/", alt + "/"])
    for root, _, files in os.walk(alt):
        if "/target" in root:
            continue
        for f in files:
            if f == "Cargo.toml":
                pth = os.path.join(root, f)
                txt = open(pth).read()
                new = txt.replace('path = "/repo/', f'path = "{REPO}/')
                if new != txt:
                    open(pth, "w").write(new)
    HARNESS = alt
    # ... and a private copy of the Lean project (Gen/Consts.lean is regenerated from that checkout),
    # so that self-validation runs against different checkouts can go on side by side
    global LEAN, DRIVER, LOCK_SUFFIX
    tag = hashlib.sha1(REPO.encode()).hexdigest()[:8]
    altlean = os.path.join(WORK, "altlean-" + tag)
    os.makedirs(altlean, exist_ok=True)
    sh(["rsync", "-a", "--delete", "--exclude", "Gen/Consts.lean", os.path.join(ROOT, "lean") + "/", altlean + "/"])
    LEAN = altlean
    DRIVER = os.path.join(LEAN, ".lake", "build", "bin", "driver")
    LOCK_SUFFIX = "-" + tag
    ENV["VERIF_LEAN_DIR"] = altlean
    ENV["VERIF_TRANSLATOR_STATUS"] = os.path.join(WORK, f"translator_status-{tag}.json")
    os.environ["VERIF_LEAN_DIR"] = altlean
    os.environ["VERIF_TRANSLATOR_STATUS"] = ENV["VERIF_TRANSLATOR_STATUS"]

def build_all(profiles=("release",)):
    """translator + driver + harness; returns (ok, detail)"""
    alt_harness()
    with Lock("lake"):
        rc, out = sh([sys.executable, os.path.join(ROOT, "translate", "translate.py")], cwd=ROOT, timeout=600)
        if rc != 0:
            # the tie "constants/tables of the model = those of the source" is broken; keep the last
            # generated Consts.lean so that the other legs can still look for a failing input
            global TRANSLATOR_BROKEN
            TRANSLATOR_BROKEN = "translator could not regenerate constants / tables from the source: " + out.strip()[-600:]
        global TRANSLATOR_STATUS
        try:
            TRANSLATOR_STATUS = json.load(open(os.environ.get("VERIF_TRANSLATOR_STATUS", os.path.join(WORK, "translator_status.json"))))
        except Exception:
            TRANSLATOR_STATUS = {}
        rc, out = sh(["lake", "build", "driver"], cwd=LEAN, timeout=3000)
        if rc != 0:
            return False, "lake build driver failed:\n" + "\n".join(l for l in out.splitlines() if "error" in l)[:3000]
    with Lock("cargo"):
        if NEED_BINARY:
            tdir = os.path.join(WORK, "repo-target" + ("" if REPO == "/repo" else "-" + hashlib.sha1(REPO.encode()).hexdigest()[:8]))
            rc, out = sh(["cargo", "build", "--offline", "--release", "-q", "-p", "throttlecrab-server", "--bin", "throttlecrab-server",
                          "--manifest-path", os.path.join(REPO, "Cargo.toml"), "--target-dir", tdir], timeout=3000)
            if rc != 0:
                return False, "cargo build of the server binary from the working tree failed:\n" + out[-3000:]
            ENV["TCV_SERVER_BIN"] = os.path.join(tdir, "release", "throttlecrab-server")
            # ... and an unoptimised build (what `cargo run` / `cargo test` use): stack use per recursion level, debug
            # assertions and overflow checks differ; one extra instance of the binary mode runs against it
            rc, out = sh(["cargo", "build", "--offline", "-q", "-p", "throttlecrab-server", "--bin", "throttlecrab-server",
                          "--manifest-path", os.path.join(REPO, "Cargo.toml"), "--target-dir", tdir], timeout=3000)
            if rc != 0:
                return False, "cargo build (debug) of the server binary from the working tree failed:\n" + out[-3000:]
            ENV["TCV_SERVER_BIN_DEBUG"] = os.path.join(tdir, "debug", "throttlecrab-server")
        for prof in profiles:
            if prof == "stdhash":
                # the library without its default `ahash` feature (std HashMap / SipHash): tcv-core alone, own target dir
                cmd = ["cargo", "build", "--offline", "-q", "--release", "-p", "tcv-core", "--no-default-features",
                       "--target-dir", os.path.join(HARNESS, "target-stdhash")]
            else:
                cmd = ["cargo", "build", "--offline", "-q"] + (["--release"] if prof == "release" else [])
            rc, out = sh(cmd, cwd=HARNESS, timeout=3000)
            if rc != 0:
                return False, f"cargo build ({prof}) of the harness against /repo failed:\n" + out[-3000:]
    return True, ""

def harness_bin(crate, prof):
    if prof == "stdhash":
        return os.path.join(HARNESS, "target-stdhash", "release", f"tcv-{crate}")
    return os.path.join(HARNESS, "target", "release" if prof == "release" else "debug", f"tcv-{crate}")

# ------------------------------------------------------------------------------------------------
# legs M and O
# ------------------------------------------------------------------------------------------------

def parse_viol(path):
    out = []
    if not os.path.exists(path):
        return out
    cur = None
    for line in open(path, errors="replace"):
        line = line.rstrip("\n")
        if line.startswith("VIOL "):
            tag, what = line[5:].split(" ", 1)
            cur = dict(tag=tag, what=what, replay=[])
        elif line == "END":
            if cur:
                out.append(cur)
            cur = None
        elif cur is not None:
            cur["replay"].append(line[2:] if line.startswith("  ") else line)
    return out

def run_mode(pid, crate, mode, n, seed, prof, wdir, proj):
    """returns dict(lines, compared, mismatches[list], viols[list], stats)"""
    os.makedirs(wdir, exist_ok=True)
    t0 = time.time()
    rc, out = sh([harness_bin(crate, prof), mode, "--seed", str(seed), "--n", str(n), "--out", wdir], timeout=7000)
    r = dict(mode=mode, seed=seed, n=n, profile=prof, lines=0, compared=0, mismatches=[], viols=[], stats={}, harness_rc=rc, wall_harness=round(time.time() - t0, 2))
    if rc != 0:
        r["harness_error"] = out[-2000:]
        return r
    ops_p, imp_p, mod_p = (os.path.join(wdir, f"{mode}.{x}") for x in ("ops", "imp", "mod"))
    t1 = time.time()
    with open(ops_p) as fi, open(mod_p, "w") as fo:
        p = subprocess.run([DRIVER], stdin=fi, stdout=fo, stderr=subprocess.PIPE, env=ENV)
    r["wall_driver"] = round(time.time() - t1, 2)
    if p.returncode != 0:
        r["driver_error"] = p.stderr.decode(errors="replace")[-1000:]
    # streaming compare (the line files can be gigabytes in the thorough tier)
    last_new_ctx = []      # lines since the last `snew`-like line (bounded)
    nmis = 0
    i = -1
    from itertools import zip_longest
    with open(ops_p, errors="replace") as fo, open(imp_p, errors="replace") as fi, open(mod_p, errors="replace") as fm:
        for i, (op, im, mo) in enumerate(zip_longest(fo, fi, fm)):
            if op is None:
                i -= 1
                break
            op = op.rstrip("\n")
            im = im.rstrip("\n") if im is not None else "<missing>"
            mo = mo.rstrip("\n") if mo is not None else "<missing>"
            if op.startswith(("snew", "bnew", "cnew", "reset")):
                last_new_ctx = []
            if len(last_new_ctx) < 400:
                last_new_ctx.append(f"{op}    # impl: {im}")
            a = proj(op, im)
            if a is None:
                continue
            b = proj(op, mo)
            r["compared"] += 1
            if a != b:
                nmis += 1
                if len(r["mismatches"]) < 3:
                    ctx = list(last_new_ctx)
                    if not ctx or not ctx[-1].startswith(op):
                        ctx.append(f"{op}    # impl: {im}")
                    ctx.append(f"# MODEL answers the last line with: {mo}")
                    ctx.append(f"# compared under projection: impl={a!r} model={b!r}")
                    r["mismatches"].append(dict(index=i, op=op[:2000], impl=a[:2000], model=b[:2000], context=ctx))
    r["lines"] = i + 1
    r["n_mismatches"] = nmis
    # scratch hygiene: the line files can be hundreds of MB; keep them only when they are needed to debug
    if nmis == 0:
        for pth in (ops_p, imp_p, mod_p):
            try:
                os.remove(pth)
            except OSError:
                pass
    r["viols"] = parse_viol(os.path.join(wdir, f"{mode}.viol"))
    try:
        r["stats"] = json.load(open(os.path.join(wdir, f"{mode}.stats.json")))
    except Exception:
        r["stats"] = {}
    return r

def load_known():
    path = os.path.join(ROOT, "KNOWN_FINDINGS.jsonl")
    ks = []
    if os.path.exists(path):
        for l in open(path):
            l = l.strip()
            if l:
                ks.append(json.loads(l))
    return ks

# ------------------------------------------------------------------------------------------------

def write_evidence(pid, tier, seed, cov, wall, nviol, assumptions):
    os.makedirs(EVID, exist_ok=True)
    ev = dict(property_id=pid, tier=tier, seed=seed, level="proof", coverage=cov, assumptions=assumptions, wall_s=round(wall, 2), violations=nviol)
    with open(os.path.join(EVID, f"{pid}.json"), "w") as f:
        json.dump(ev, f, indent=1)

def main(argv):
    if len(argv) < 2:
        print(__doc__ if __doc__ else "usage: check <Cxx> quick|thorough [--replay FILE]")
        return 2
    pid = argv[0]
    if argv[1] == "--replay":
        return replay(pid, argv[2])
    tier = argv[1]
    if tier not in ("quick", "thorough"):
        tier = os.environ.get("VERIF_TIER", "quick")
    if "--replay" in argv:
        return replay(pid, argv[argv.index("--replay") + 1])
    seed = int(os.environ.get("VERIF_SEED", "1") or 1)
    if pid not in PROPS:
        print(f"unknown property {pid}")
        return 2
    return run_core(pid, tier, seed)

SERVER_PROPS = set()

def run_core(pid, tier, seed):
    t0 = time.time()
    spec = PROPS[pid]
    profiles = spec.get("profiles", ["release"])
    wdir = os.path.join(WORK, f"{pid}-{tier}")
    if REPO != "/repo":
        wdir += "-alt-" + hashlib.sha1(REPO.encode()).hexdigest()[:8]
    import shutil
    shutil.rmtree(wdir, ignore_errors=True)
    log(f"[{pid}] tier={tier} seed={seed}")
    global NEED_BINARY
    NEED_BINARY = any(run[1] == "binary" for run in spec["runs"])
    ok, detail = build_all(profiles)
    violations = []   # (replay_path, suffix)
    known_lines = []
    cov = dict(obligations=0, discharged=0, checker_cmd="", trusted_base=TRUSTED_BASE, evaluations=0, distinct_nontrivial=0,
               rule=spec["rule"], samples=[], legs={})
    if not ok:
        path = save_replay(pid, "build-failure", {"what": "the framework could not be rebuilt against /repo's working tree"}, detail.splitlines())
        log(detail)
        print(f"VIOLATION property={pid} replay={path} no-failing-input-found")
        cov["explanation"] = "build failed"
        cov["evaluations"] = 1
        cov["distinct_nontrivial"] = 0
        write_evidence(pid, tier, seed, cov, time.time() - t0, 1, [])
        return 1
    # ---- P
    p = leg_p(pid, tier)
    if TRANSLATOR_BROKEN:
        p["ok"] = False
        p["failing"] = "translator tie (Gen/Consts.lean could not be regenerated)"
        p["detail"] = TRANSLATOR_BROKEN + "\n" + p.get("detail", "")
    cov["obligations"] = p["obligations"]
    cov["discharged"] = p["discharged"]
    cov["checker_cmd"] = p["checker_cmd"]
    cov["legs"]["P"] = {k: p.get(k) for k in ("ok", "theorems", "axioms_used", "failing", "leanchecker")}
    # static tie of constants / tables: which items the translator located in the current source
    ts = TRANSLATOR_STATUS
    cov["legs"]["P"]["translator"] = dict(located=len(ts.get("located", [])), located_by_value=ts.get("located_by_value", {}),
                                          not_located=ts.get("not_located", {}))
    for k, v in ts.get("located_by_value", {}).items():
        log(f"[{pid}] NOTE translator: {k}: {v}")
    for k, v in ts.get("not_located", {}).items():
        log(f"[{pid}] NOTE translator: {k} not located in the restructured source ({v}); last known content used, its tie rests on the correspondence legs of this run")
    log(f"[{pid}] P: {'ok' if p['ok'] else 'BROKEN'} {p['discharged']}/{p['obligations']} theorems; axioms {p.get('axioms_used')}")
    if not p["ok"]:
        log(p["detail"])
    # ---- M, O
    runs = []
    for prof in profiles:
        for run in spec["runs"]:
            (crate, mode, ns) = run[:3]
            if len(run) > 3 and prof not in run[3]:
                continue          # this run is restricted to some build profiles
            if prof == "stdhash" and crate != "core":
                continue          # the std-hasher build exists for the library-level harness only
            r = run_mode(pid, crate, mode, ns[tier], seed, prof, os.path.join(wdir, prof), spec["proj"])
            runs.append(r)
            log(f"[{pid}] M/O {mode}[{prof}] n={ns[tier]}: {r['lines']} lines, {r['compared']} compared, {r.get('n_mismatches', 0)} model mismatches, "
                f"{sum(1 for v in r['viols'] if v['tag'] in spec['tags'] + spec.get('tags_by_mode', {}).get(r['mode'], []))} impl violations ({r['wall_harness']}s + {r.get('wall_driver', 0)}s)")
            if r["harness_rc"] != 0:
                log(r.get("harness_error", ""))
    m_broken = any(r.get("n_mismatches", 0) > 0 or r["harness_rc"] != 0 or "driver_error" in r for r in runs)
    def tags_for(r):
        return spec["tags"] + spec.get("tags_by_mode", {}).get(r["mode"], [])
    o_viols = [v for r in runs for v in r["viols"] if v["tag"] in tags_for(r)]
    known = [v for r in runs for v in r["viols"] if v["tag"].startswith("KNOWN-")]
    # ---- intensify O when P or M is broken and no concrete input yet
    if (not p["ok"] or m_broken) and not o_viols:
        log(f"[{pid}] proof or correspondence broken: searching the implementation for a failing input")
        for extra in range(1, 3):
            for run in spec["runs"]:
                (crate, mode, ns) = run[:3]
                r = run_mode(pid, crate, mode, ns[tier], seed + 1000 * extra, profiles[0], os.path.join(wdir, f"search{extra}"), spec["proj"])
                runs.append(r)
                o_viols += [v for v in r["viols"] if v["tag"] in tags_for(r)]
            if o_viols:
                break
    # ---- verdict
    kn = load_known()
    for v in known:
        sig = v["tag"][len("KNOWN-"):]
        listed = [k for k in kn if k.get("status") == "known" and k.get("signature") == sig and k.get("property") == pid]
        if listed:
            line = f"KNOWN-FINDING: property={pid} {listed[0].get('what', sig)}"
            if line not in known_lines:
                known_lines.append(line)
        elif any(k.get("status") == "known" and k.get("signature") == sig for k in kn):
            pass      # a listed finding of ANOTHER property, met by a mode this check shares with that property's check
        else:
            o_viols.append(dict(tag=pid, what=f"[{sig}] " + v["what"], replay=v["replay"]))
    if o_viols:
        v = o_viols[0]
        path = save_replay(pid, "impl-violation", {"what": v["what"], "seed": seed, "how-to-rerun": f"bin/check {pid} --replay <this file>"}, v["replay"])
        violations.append((path, ""))
        for v2 in o_viols[:5]:
            log(f"[{pid}] O: {v2['what']}")
    elif not p["ok"]:
        path = save_replay(pid, "proof-failure", {"failing": p["failing"], "what": "proof obligation no longer checks; no failing input found on the implementation"}, p["detail"].splitlines())
        violations.append((path, " no-failing-input-found"))
    elif m_broken:
        r = next(r for r in runs if r.get("n_mismatches", 0) > 0 or r["harness_rc"] != 0 or "driver_error" in r)
        if r.get("mismatches"):
            mm = r["mismatches"][0]
            lines = mm["context"]
            hdr = {"failing": f"correspondence {r['mode']} (model vs implementation), line {mm['index']}", "seed": r["seed"],
                   "what": "model and implementation disagree; no input found on which the implementation breaks the property itself"}
        else:
            lines = (r.get("harness_error") or r.get("driver_error") or "").splitlines()
            hdr = {"failing": f"correspondence {r['mode']}: harness/driver did not run"}
        path = save_replay(pid, "model-mismatch", hdr, lines)
        violations.append((path, " no-failing-input-found"))
    # ---- evidence
    for r in runs:
        cov["evaluations"] += r["compared"]
        st = r.get("stats", {})
        cov["distinct_nontrivial"] += st.get("distinct", 0)
        for s in st.get("samples", []):
            if len(cov["samples"]) < 8:
                cov["samples"].append(s)
        cov["legs"].setdefault("M", []).append(dict(mode=r["mode"], profile=r["profile"], seed=r["seed"], n=r["n"], lines=r["lines"], compared=r["compared"],
                                                    mismatches=r.get("n_mismatches", 0), histogram=st.get("stats", {})))
    cov["legs"]["O"] = dict(impl_violations=len(o_viols), known_findings=known_lines)
    if not cov["samples"]:
        cov["samples"] = ["(no sample recorded)"]
    write_evidence(pid, tier, seed, cov, time.time() - t0, len(violations),
                   ["IEEE-754 binary64 semantics of the hardware", "SystemTime/Duration as unbounded integer nanoseconds within 1970..2200", "hashbrown/ahash behave as a finite map"])
    for l in known_lines:
        print(l)
    if violations:
        for path, suffix in violations[:1]:
            print(f"VIOLATION property={pid} replay={path}{suffix}")
        return 1
    log(f"[{pid}] held on everything explored ({round(time.time() - t0, 1)}s)")
    return 0

def replay(pid, path):
    ok, detail = build_all(("release",))
    if not ok:
        print(detail)
        return 2
    crate = "server" if any(c == "server" for (c, _, _) in PROPS.get(pid, {}).get("runs", [])) else "core"
    rc, out = sh([harness_bin(crate, "release"), "replay", "--file", path], timeout=600)
    print(out)
    return 1 if "impl-violation" in out else 0
