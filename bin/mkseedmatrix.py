#!/usr/bin/env python3
"""Rewrites the seeded-change table of DESIGN.md (between the SEED-MATRIX markers) from seeded/*/{meta,result}.json."""
import json, os, glob
ROOT = os.path.dirname(os.path.dirname(os.path.abspath(__file__)))
rows = []
stats = dict(total=0, concrete=0, noinput=0, missed=0)
for d in sorted(glob.glob(os.path.join(ROOT, "seeded", "*"))):
    name = os.path.basename(d)
    meta = json.load(open(os.path.join(d, "meta.json")))
    rp = os.path.join(d, "result.json")
    res = json.load(open(rp)) if os.path.exists(rp) else {}
    verdicts = []
    best = None
    for p, v in res.get("results", {}).items():
        if v["violation"]:
            verdicts.append(f"`{p}`: " + ("concrete input" if v["concrete"] else "no-failing-input-found"))
            best = "concrete" if v["concrete"] or best == "concrete" else (best or "noinput")
        else:
            verdicts.append(f"`{p}`: not reported")
    stats["total"] += 1
    stats["concrete" if best == "concrete" else "noinput" if best == "noinput" else "missed"] += 1
    def clip(t, n):
        t = (t or "").replace("|", "/").replace("\n", " ")
        return t if len(t) <= n else t[: n - 3] + "..."
    rows.append(f"| {name} | {clip(meta.get('summary'), 200)} | {clip(meta.get('needs_to_manifest'), 170)} | {'; '.join(verdicts) or '?'} |")
table = ("| seeded change | what it does | what it needs to manifest | reported by (quick check) |\n|---|---|---|---|\n" + "\n".join(rows) +
         f"\n\nTotals: {stats['total']} seeded changes; {stats['concrete']} reported with a concrete failing input, "
         f"{stats['noinput']} reported as no-failing-input-found, {stats['missed']} not reported.\n")
p = os.path.join(ROOT, "DESIGN.md")
s = open(p).read()
a = s.index("<!-- SEED-MATRIX-BEGIN -->") + len("<!-- SEED-MATRIX-BEGIN -->\n")
b = s.index("<!-- SEED-MATRIX-END -->")
open(p, "w").write(s[:a] + table + s[b:])
print(stats)
