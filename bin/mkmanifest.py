#!/usr/bin/env python3
"""Writes /verif/MANIFEST.json from the table below (single place to register a property)."""
import json, os

ROOT = os.path.dirname(os.path.dirname(os.path.abspath(__file__)))
ALL = [f"C{i:02d}" for i in range(1, 19)]

COMMON_NOTE = ("Trusted: Lean 4.33 kernel; axioms propext/Classical.choice/Quot.sound only (audited by #print axioms each run); "
               "the hand-written Lean model, tied to /repo's working tree by the differential correspondence leg of this same check "
               "(Rust harness linking the real crates, compiled Lean driver, outputs diffed) and by the translator of constants; "
               "time as unbounded integer nanoseconds within 1970..2200; hashbrown as a finite map.")

CLAIMED = {
    "C06": dict(
        text="Proof (Lean 4): each of the three stores, in every configuration and scheduling state and for every value of the table-pressure oracle, "
             "refines the abstract expiring map for all operation sequences with non-decreasing timestamps (C06_refines_abstract_map and per-kind corollaries); "
             "the abstract map's get/set-if-absent/compare-and-swap semantics are characterised; cleanup is invisible; limiter responses are identical for any two stores. "
             "The model is tied to the code at state level (snapshot of entries and every scheduling field after every operation).",
        design="§5 C06", technique="Lean 4 refinement proof (simulation invariant by induction over operation sequences) + state-level differential correspondence",
        note=COMMON_NOTE + " TTLs/intervals so large that SystemTime + Duration overflows are outside the model."),
}

NOT_YET = "check under construction in this session (model + theorems + correspondence not yet registered)"

def main():
    checks = []
    for pid in ALL:
        if pid not in CLAIMED:
            continue
        c = CLAIMED[pid]
        checks.append(dict(
            property_id=pid,
            quick_cmd=f"bin/check {pid} quick",
            thorough_cmd=f"bin/check {pid} thorough",
            evidence_file=f"/verif/evidence/{pid}.json",
            replay_cmd_template=f"bin/check {pid} --replay {{path}}",
            engine="lean-model+harness",
            level_claimed=dict(category="proof", text=c["text"], design_ref=c["design"]),
            level_note=c["note"],
            technique=c["technique"],
        ))
    man = dict(
        version=1,
        setup_cmd="bin/setup",
        hooks=dict(
            guard="cargo feature `verif` (throttlecrab/verif; throttlecrab-server/verif enables it)",
            enable="harness crates depend on /repo/throttlecrab and /repo/throttlecrab-server by path with features = [\"verif\"]",
            baseline_off_cmd="cd /repo && cargo test --workspace --no-fail-fast --offline",
            source_commits=json.load(open(os.path.join(ROOT, "hooks.json")))["source_commits"],
            add_only=True,
        ),
        engines=[
            dict(name="lean-model", path="lean/", serves_properties=ALL, kind_free_text="Lean 4 models, lemmas, property theorems, compiled line-protocol driver"),
            dict(name="core-harness", path="harness/core", serves_properties=["C01", "C02", "C03", "C04", "C05", "C06", "C07", "C08", "C17", "C18"], kind_free_text="Rust harness linking /repo/throttlecrab (feature verif): case generation, execution of the real code, property oracles"),
            dict(name="translator", path="translate/translate.py", serves_properties=ALL, kind_free_text="regenerates lean/TcVerif/Gen/Consts.lean (constants, tables) from /repo's sources on every run"),
        ],
        checks=checks,
        notes="All checks: bin/check <id> quick|thorough. Known findings: KNOWN_FINDINGS.jsonl. Design: DESIGN.md.",
        not_applicable=[dict(property_id=p, reason=NOT_YET) for p in ALL if p not in CLAIMED],
    )
    with open(os.path.join(ROOT, "MANIFEST.json"), "w") as f:
        json.dump(man, f, indent=1)
    print("MANIFEST.json:", len(checks), "checks,", len(man["not_applicable"]), "not claimed")

if __name__ == "__main__":
    main()
