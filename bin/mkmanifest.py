#!/usr/bin/env python3
"""Writes /verif/MANIFEST.json from the table below (single place to register a property)."""
import json, os

ROOT = os.path.dirname(os.path.dirname(os.path.abspath(__file__)))
ALL = [f"C{i:02d}" for i in range(1, 19)]

COMMON_NOTE = ("Trusted: Lean 4.33 kernel; axioms propext/Classical.choice/Quot.sound only (audited by #print axioms each run); "
               "the hand-written Lean model, tied to /repo's working tree by the differential correspondence leg of this same check "
               "(Rust harness linking the real crates, compiled Lean driver, outputs diffed) and by the translator of constants; "
               "time as unbounded integer nanoseconds within 1970..2200; hashbrown as a finite map.")

CLAIMED = {
    "C06": dict(
        text="Proof (Lean 4): each of the three stores, in every configuration and scheduling state and for every value of the table-pressure oracle, "
             "refines the abstract expiring map for all operation sequences with non-decreasing timestamps (C06_refines_abstract_map and per-kind corollaries); "
             "the abstract map's get/set-if-absent/compare-and-swap semantics are characterised; cleanup is invisible; limiter responses are identical for any two stores. "
             "The model is tied to the code at state level (snapshot of entries and every scheduling field after every operation).",
        design="§5 C06", technique="Lean 4 refinement proof (simulation invariant by induction over operation sequences) + state-level differential correspondence",
        note=COMMON_NOTE + " TTLs/intervals so large that SystemTime + Duration overflows are outside the model."),
}

CLAIMED["C01"] = dict(
    text="Proof (Lean 4): for every multi-key history with non-decreasing timestamps, every store kind/configuration/cleanup schedule, every key with fixed limits in D and every window [t1,t2], "
         "admitted quantity <= max_burst + (t2-t1)/E (C01_window_bound; credit form C01_window_bound_credit; idle corollary). Chain: concrete store -> abstract expiring map (C06) -> the key's cell (C05) -> ideal token bucket (simulation, BucketSim) -> potential-function bound on the bucket (BucketWindow). "
         "The bit-precise limiter model is tied to the code by differential runs on boundary-dense histories; the O leg sums all O(n^2) windows on the real code.",
    design="§5 C01", technique="Lean 4 proof: refinement chain to an ideal token bucket + potential-function induction; differential correspondence",
    note=COMMON_NOTE + " Domain D as in the property (burst,count,period >= 1, E >= 1 ns, burst*E <= 2^60 ns, time 1970..2100). E is the value the code computes (parameter `ei`); that it is floor(period/count) is C18.")
CLAIMED["C02"] = dict(
    text="Proof (Lean 4): at every step of every history (any quantities incl. 0 and > burst), decision and remaining tokens of a fixed-limits key equal those of the ideal token bucket started full (C02_refines_bucket), on every store; corollaries read off the bucket: fresh / rested key admits up to burst, no starvation (finite wait <= B*E), denial only when the bucket is short. "
         "The O leg compares the real code with an independent exact-integer bucket step by step; a population leg keeps up to 1.1 million keys live at once per store (a never-seen key must still be admitted) and a wire leg checks that the transports hand requests to the limiter unchanged.",
    design="§5 C02", technique="Lean 4 refinement proof (simulation relation GCRA cell <-> token bucket, induction over histories); differential correspondence",
    note=COMMON_NOTE + " Domain D as in C01.")
CLAIMED["C05"] = dict(
    text="Proof (Lean 4): for every multi-key history with non-decreasing timestamps (other keys' requests arbitrary, valid or not), every store and every key k, the responses for k equal those of k's own sub-history run alone on any store (C05_key_isolation), via projection of the abstract map onto k's cell. Keys are opaque strings compared for equality. "
         "The M/O legs run interleaved vs solo histories on the real stores with thousands of keys (empty, NUL, Unicode, 64 KiB, one-byte differences, near-identical twins) so growth, rehash and every cleanup trigger fire - in two builds of the library (with and without its default ahash feature), with the store moved to another address while it holds entries; a wire leg sends near-identical and long shared-prefix key families over HTTP, gRPC and RESP.",
    design="§5 C05", technique="Lean 4 proof: projection/simulation onto a single-key cell, induction over histories; solo-vs-interleaved differential runs",
    note=COMMON_NOTE + " Global monotonicity of timestamps is a hypothesis (without it a sweep triggered by another key is observable: that is C17's subject).")

CLAIMED["C03"] = dict(
    text="Proof (Lean 4), for every response produced from every reachable state of a fixed-limits key in D (reachability: C03_reachable; a probe appended to any multi-key history on any store is one more step on the key's cell: C03_probe_is_cell_step): "
         "limit = max_burst, 0 <= remaining <= limit, retry_after = 0 iff admitted (C03_limit_remaining_retry); remaining exact - at the same instant q tokens are admitted iff q <= remaining (C03_remaining_exact, _admitted_next_denied); "
         "a denied request of quantity <= burst is admitted exactly retry_after later and denied 1 ns earlier, also across expiry (C03_retry_honoured); reset_after >= time to regain the full burst (C03_reset_ge_refill); every write carries ttl = reset_after (C03_reset_eq_lifetime); after reset_after the key answers as never seen (C03_reset_then_fresh). "
         "O leg: the same probes executed on the real code by re-executing the prefix on a fresh limiter; at population checkpoints up to 1.1 million live keys the key admitted last must be exhausted (its state was stored).",
    design="§5 C03", technique="Lean 4 proof (per-step facts over the bucket simulation invariant) + differential correspondence + re-execution probes",
    note=COMMON_NOTE + " Domain D; probes at now + retry_after must stay <= 2100-01-01.")
CLAIMED["C04"] = dict(
    text="Proof (Lean 4): on every store model (any kind/config/scheduling state), for ARBITRARY requests (any keys, any limits per request, valid or not) and any timestamp order: a request answered with an error, a denial, or carrying quantity 0 leaves the whole store state literally unchanged and issues no write (C04_no_effect_state); "
         "hence deleting it from any history changes no other response (C04_deleting_changes_nothing); rejected requests issue no store operation at all, for any Store implementation (C04_error_no_state). "
         "O leg: base history vs history with inserted no-effect requests on the real code, plus entry counts through the snapshot hook; the wire mode sends zero-quantity and invalid requests over HTTP, gRPC and RESP and checks that the library saw exactly what was sent.",
    design="§5 C04", technique="Lean 4 proof (state-equality lemma + history surgery) + insertion differential runs",
    note=COMMON_NOTE + " Uses C08_no_internal (a write after a get at the same instant succeeds on the built-in stores).")
CLAIMED["C07"] = dict(
    text="Proof (Lean 4): lifetime - every write of an admitted request in D asks for E <= ttl <= 2*B*E (C07_ttl_bounds), denied/zero-quantity requests write nothing, and once the lifetime has passed the key answers exactly as never seen (C07_forgetting_unobservable); "
         "reclamation - sweep postcondition; each store's guaranteed cleanup point sweeps (periodic: now >= next_cleanup; adaptive: now >= next_cleanup or operation budget; probabilistic: the N-th write at EVERY operation count (C07_guaranteed_trigger_probabilistic; 128-bit product since fix a6d9ac7), hence a cleanup among any N consecutive writes (C07_probabilistic_every_window), exactly every N-th for N coprime to the multiplier (C07_probabilistic_trigger_exact)), after which every held entry is unexpired, keys are distinct and the entry count is at most the size of the active set (C07_reclaimed_*, C07_entries_bounded_by_active), stated over an arbitrary operation history as C07_bounded_over_history. "
         "Partial in one respect: the probabilistic trigger after the 64-bit product wraps (~6.9e9 writes) is not proved (theorem named _partial). O leg: unbounded fresh-key streams on the real stores, entry set inspected through the hook after every guaranteed point.",
    design="§5 C07", technique="Lean 4 proof (lifetime arithmetic on D; per-store trigger lemmas) + state-level differential correspondence",
    note=COMMON_NOTE + " The pre-fix 64-bit wrapping trigger is kept as Prob.firesWrapped with the kernel-evaluated gap witness C07_wrapped_trigger_gap (finding F8, fixed); the harness runs probabilistic stores from the state after 10^9..10^12 writes (hook verif_set_operations_count); the counting step (entries <= |active set|) is C07_entries_bounded_by_active. The u64 operation counter is modelled as an unbounded natural number.")
CLAIMED["C08"] = dict(
    text="Proof (Lean 4) over the bit-precise model for ALL i64 limits/quantity, every emission interval 0 <= E < 2^64 (universally quantified: no float reasoning), every stored value, timestamps 1970..2200: error classification with no store access (C08_errors), limit = burst, 0 <= remaining <= burst, retry = 0 iff admitted, all durations in range (C08_decision_fields), fresh key admits q <= burst incl. every saturation case (C08_fresh_admits), never an internal error with the built-in stores (C08_no_internal, _history), and the explicit arithmetic side-conditions of every panic site (C08_panic_sites). "
         "M/O: boundary lattice 16^4 (thorough 24^4) x timestamps x fresh/pre-populated x 3 stores, plus multi-key histories on every store configuration (hot keys that overwrite expired-but-unswept entries dozens of times between cleanups), harness built with overflow checks on and off, every call under catch_unwind; a panic in any mode of the core harness is reported as a C08 violation.",
    design="§5 C08", technique="Lean 4 proof over saturating-i64 model (case analysis on each clamp) + exhaustive boundary-lattice differential runs in debug and release",
    note=COMMON_NOTE + " 'No panic' = the model is total AND C08_panic_sites discharges each Rust panic site (sub, div, casts, SystemTime+Duration); that the listed sites are all the sites is by reading rate_limit (no unsafe, no indexing).")
CLAIMED["C18"] = dict(
    text="Proof (Lean 4) over a soft-float (binary64, round-to-nearest-even) replica of from_count_and_period: for 1 <= period <= 9e6 and 1 <= count <= period*1e9 the interval is exactly floor(period*1e9/count) (C18_floor; bracket, rate-not-below, excess < 1/E corollaries); unit constructors agree with the general one for every n in 1..2^32-1 (C18_unit_constructors); non-positive arguments give the blocking rate (C18_nonpositive_blocking). "
         "M: Rate::period() vs the soft-float model on a boundary lattice, divisors/near-divisors and random points in and outside D; O: the double inequality in u128 on the real code; limiter-level histories with sibling limits (limits that differ in one field, by one, doubled or by a multiple of 2^32) against the exact-quotient bucket.",
    design="§5 C18", technique="Lean 4 proof about a soft-float model (rounding lemma rneDiv_shift_floor) + differential runs against the hardware floats",
    note=COMMON_NOTE + " IEEE-754 conformance of the hardware/LLVM is trusted; the soft-float model is validated only by the differential runs.")

CLAIMED["C17"] = dict(
    text="Proof (Lean 4) for ARBITRARY timestamp order: every valid request is answered with a result, never an internal error, on every built-in store (C17_no_error); from any state a request stamped t <= T is offered no more budget than the same request stamped T (C17_regressed_sees_no_more); on a store that never physically removes entries the window bound holds even without +J (C17_window_bound_partial). "
         "The full window clause max_burst + (t2-t1+J)/E is FALSE on stores that sweep: the negation is proved from a concrete witness (C17_window_bound_J_false), the witness is replayed on the real code on every run, and the defect is a listed known finding (KNOWN_FINDINGS.jsonl, signature: violation disappears on a never-sweeping store). Any other violation is reported.",
    design="§5 C17, §6-F4", technique="Lean 4 proof (monotone-TAT potential argument for any order; kernel-evaluated counter-example for the false clause) + differential correspondence on non-monotone histories + re-execution probes",
    note=COMMON_NOTE + " Known finding: sweep + clock regression mints budget; not repaired (needs global clock or Store-trait change).")

PART = " PARTIAL in this respect: tokio (mpsc bounded FIFO, oneshot, task scheduling), TCP and the OS are ASSUMED to implement the transition rules of the model; exhaustive enumeration of real schedules for small configurations and socket-level runs validate that assumption, they do not prove it."
CLAIMED["C09"] = dict(
    text="Proof (Lean 4) over a labelled transition system of the actor pipeline (any number of clients, any programs, any queue capacity >= 1, any limiter): in every reachable state the limiter state and all computed responses are the sequential fold of the limiter over the proc log (C09_sequential), every ret delivers the response computed at that request's proc (C09_delivery), the proc order extends program order and real-time precedence (C09_order) - hence linearizable with the proc log as witness (C09_linearizable); N same-instant unit requests on a fresh key admit exactly min(N,B), proved for the GCRA instance (C09_burst_gcra). "
         "Tie: the REAL actor loop (hook: unspawned future) and real throttle() futures polled by a deterministic scheduler - exhaustive schedules for small configurations, random for larger - every recorded trace must be accepted by the Lean LTS validator with the GCRA model recomputing each response; plus one in-process server with HTTP+gRPC+RESP on loopback sockets." + PART,
    design="§5 C09", technique="Lean 4 invariant proofs over an LTS (history variables) + trace validation of the real actor under a controlled scheduler",
    note=COMMON_NOTE + PART)
CLAIMED["C10"] = dict(
    text="Proof (Lean 4): exactly-once (C10_exactly_once), back-pressure without loss (C10_backpressure), FIFO (C10_fifo), no deadlock with a strictly decreasing measure and complete final states (C10_no_deadlock, _total), cancellation before/after enqueue does not disturb the proc log or other clients (C10_cancel_noninterference); RESP connection: for every chunking the bytes written are the replies to the frames of the whole stream, in order, up to QUIT/error/overflow (C10_resp_one_reply_per_command, C10_resp_prefix). "
         "Tie: scheduler-driven traces with capacity down to 1 and cancellation at every poll boundary validated by the Lean LTS; real TCP connections fed pipelines under several chunkings compared with the connection model byte for byte; slow readers, exact-size bursts, one connection reused for hundreds of commands with error replies in between and pipelines of up to 4000 commands checked by position against the real server." + PART,
    design="§5 C10", technique="Lean 4 LTS invariants + termination measure; connection-loop induction over chunkings; trace validation and socket-level differential runs",
    note=COMMON_NOTE + PART)
CLAIMED["C11"] = dict(
    text="Proof (Lean 4): if the limiter step is total the actor never dies and fail/actorPanic never occur (C11_actor_never_dies) - totality of the real limiter for all i64 inputs is C08; after any reachable state a probe gets exactly the sequential answer (C11_probe_correct, C11_probe_fresh_key via C05); the hypothesis is necessary (C11_poison_without_totality: the pinned tree's panic is exactly that run); RESP decode errors / overflow end only that connection's model (C13). "
         "Tie: hostile prefixes (i64 lattice on every transport, malformed frames, abrupt closes, oversize buffers) then a probe on a new connection, against the real server." + PART,
    design="§5 C11", technique="Lean 4 proof (LTS + C08 totality + C05 isolation) + hostile-prefix/probe runs against the real server",
    note=COMMON_NOTE + PART)
CLAIMED["C12"] = dict(
    text="Proof (Lean 4) about the mapping model: durations on the wire are the library's truncated to whole seconds (C12_seconds_floor), omitted quantity = 1 on HTTP and RESP, RESP :int and bulk-decimal arguments denote the same request, reply layout [allowed,limit,remaining,reset_after,retry_after], gRPC int32 round-trip and field numbers, same logical request -> same library request -> same answer on all three transports, malformed / wrong-arity / non-numeric RESP requests send nothing to the limiter. "
         "The mapping TABLES (field order of the RESP reply, gRPC/HTTP struct literals, defaults, proto numbers, as_secs) are regenerated from the Rust sources on every run and tied by decide-checked theorems (C12_tie_*), so a swapped field or changed default breaks a proof obligation. M/O: real command handler with a real actor; loopback sockets with each request routed to a random protocol/encoding, compared field by field with what the actor log says the library decided. JSON/protobuf/HTTP decoding (serde, prost, axum, tonic) is trusted.",
    design="§5 C12", technique="Lean 4 proof over a mapping model + source-regenerated tables tied by decide + socket-level differential runs",
    note=COMMON_NOTE + " serde/prost/axum/tonic decoding trusted; gRPC durations >= 2^31 s are outside the int32 domain.")
CLAIMED["C13"] = dict(
    text="Proof (Lean 4) for EVERY byte list: consumed within 1..len and index safety, size/nesting limits enforced, parser depth restored, an ok/error outcome is stable under every extension of the buffer, every strict prefix of a complete frame is 'need more data' (C13_prefix_stable_*, C13_strict_prefix_incomplete), chunking invariance of the connection loop when no run overflows plus exact overflow conditions (C13_chunking_invariant, C13_no_overflow, C13_long_frame_overflows), buffer cap 65536 (C13_buffer_cap). "
         "M/O: ALL byte strings up to length 4 (thorough 5) over the 13-symbol protocol alphabet + generated frames with mutations through the real RespParser vs the model; real TCP connections under several chunkings. Observation (not a violation of the property as quantified): frames of 64513..65536 bytes overflow or not depending on where reads fall.",
    design="§5 C13", technique="Lean 4 proof by structural induction on nesting fuel and element count; exhaustive small-string differential runs against the real parser",
    note=COMMON_NOTE + " Allocation behaviour (Vec::with_capacity for declared sizes) is not modelled; the socket loop's reads are assumed to deliver the chunks the model is given.")
CLAIMED["C14"] = dict(
    text="Proof (Lean 4): for every well-formed value (valid UTF-8, simple strings/errors without CR LF, sizes and depth within limits) and every suffix, decode(encode v ++ x) = (v, |encode v|) (C14_roundtrip); every decoded value is well-formed (C14_parsed_wellformed); every reply the command layer produces for a decoded command - any name, any arguments, any upper-casing result, any limiter answer - is well-formed, hence exactly one frame (C14_reply_single_frame, _parsed, C14_respond_single_frame). "
         "M/O: recursively generated values through the real serializer/parser; every reply of the real handler serialised and parsed back.",
    design="§5 C14", technique="Lean 4 proof (round-trip by structural induction; well-formedness preservation of the command layer) + differential runs",
    note=COMMON_NOTE + " to_uppercase() is an oracle input (theorems quantify over every result string); limiter error texts are assumed valid UTF-8 without CR LF (they are fixed ASCII).")
CLAIMED["C15"] = dict(
    text="Proof (Lean 4): for every set of record events and EVERY interleaving of their atomic increments, at every quiescent state total = http+grpc+redis = allowed+denied+errors (C15_identities via the accounting invariant C15_accounting), counters never decrease, denied/allowed/errors equal the numbers of events of that kind (C15_denied_exact); the RESP handler records 'denied' exactly for a THROTTLE that was sent and answered allowed=false, its three early returns record nothing (C15_resp_classification, C15_resp_uncounted); HTTP/gRPC handlers record the decision's own allowed flag or an error (C15_http_grpc_classification, call sites tied to the source by C15_tie_http_grpc_calls); export carries the counter values; the increment lists are tied to the table regenerated from metrics.rs (C15_table_tie). "
         "M/O: event lists vs the model, 8 OS threads on one Metrics with identities at barriers, which counter each real RESP command moved, /metrics scraped over HTTP and compared with what clients saw." + " PARTIAL: atomicity of fetch_add and the transports' call sites for HTTP/gRPC are validated by the runs, not proved.",
    design="§5 C15", technique="Lean 4 invariant proof over all interleavings of atomic increments + source-regenerated increment table + multi-threaded stress and socket-level runs",
    note=COMMON_NOTE + " AtomicU64::fetch_add is one atomic step (Rust/LLVM memory model trusted).")
CLAIMED["C16"] = dict(
    text="Proof (Lean 4), for every denial stream, every tie-breaking of the eviction/report sort and every size: table length <= 3*max after every update (<= 3*max+1 inside one) (C16_size_bound), never above the true count, exact while distinct keys <= max, keys > 256 bytes ignored, report length <= max with non-increasing counts and omitted <= listed (C16_report), size clamp to 10000 and 0 => nothing kept or exported (C16_clamp), and for EVERY key string the escaped label contains no CR/LF and a label lexer stops exactly at the exporter's closing quote (C16_escape_safe, C16_line_shape). "
         "M/O: the real table before/after every update and every report checked by the model's relational validators (hook accessors), escaped labels compared byte for byte, export parsed back line by line.",
    design="§5 C16", technique="Lean 4 proof over a relational model (ties unspecified) + relational validation of the real tracker through hooks",
    note=COMMON_NOTE + " HashMap iteration order is modelled as an arbitrary tie-break; \\t \\r \\xNN are not Prometheus escapes (observation, outside the property).")

NOT_YET = "check under construction in this session (model + theorems + correspondence not yet registered)"

def main():
    checks = []
    for pid in ALL:
        if pid not in CLAIMED:
            continue
        c = CLAIMED[pid]
        checks.append(dict(
            property_id=pid,
            quick_cmd=f"bin/check {pid} quick",
            thorough_cmd=f"bin/check {pid} thorough",
            evidence_file=f"/verif/evidence/{pid}.json",
            replay_cmd_template=f"bin/check {pid} --replay {{path}}",
            engine="lean-model+harness",
            level_claimed=dict(category="proof", text=c["text"], design_ref=c["design"]),
            level_note=c["note"],
            technique=c["technique"],
        ))
    man = dict(
        version=1,
        setup_cmd="bin/setup",
        hooks=dict(
            guard="cargo feature `verif` (throttlecrab/verif; throttlecrab-server/verif enables it)",
            enable="harness crates depend on /repo/throttlecrab and /repo/throttlecrab-server by path with features = [\"verif\"]",
            baseline_off_cmd="cd /repo && cargo test --workspace --no-fail-fast --offline",
            source_commits=json.load(open(os.path.join(ROOT, "hooks.json")))["source_commits"],
            add_only=True,
        ),
        engines=[
            dict(name="lean-model", path="lean/", serves_properties=ALL, kind_free_text="Lean 4 models, lemmas, property theorems, compiled line-protocol driver"),
            dict(name="core-harness", path="harness/core", serves_properties=["C01", "C02", "C03", "C04", "C05", "C06", "C07", "C08", "C17", "C18"], kind_free_text="Rust harness linking /repo/throttlecrab (feature verif): case generation, execution of the real code, property oracles"),
            dict(name="server-harness", path="harness/server", serves_properties=["C09", "C10", "C11", "C12", "C13", "C14", "C15", "C16"], kind_free_text="Rust harness linking /repo/throttlecrab-server (feature verif): in-process RESP codec/handler runs, deterministic scheduler over the real actor future, loopback-socket runs of the three transports, metrics stress"),
            dict(name="translator", path="translate/translate.py", serves_properties=ALL, kind_free_text="regenerates lean/TcVerif/Gen/Consts.lean (constants, tables) from /repo's sources on every run"),
        ],
        checks=checks,
        notes="All checks: bin/check <id> quick|thorough. Known findings: KNOWN_FINDINGS.jsonl. Design: DESIGN.md.",
        not_applicable=[dict(property_id=p, reason=NOT_YET) for p in ALL if p not in CLAIMED],
    )
    with open(os.path.join(ROOT, "MANIFEST.json"), "w") as f:
        json.dump(man, f, indent=1)
    print("MANIFEST.json:", len(checks), "checks,", len(man["not_applicable"]), "not claimed")

if __name__ == "__main__":
    main()
