// Property-level oracles evaluated directly on what the real code answered (leg O).
// They never decide a property on their own; they produce the concrete replay.
use crate::gcra::{Lim, RefBucket, Resp, Step};
use crate::stores::Cfg;
use crate::util::Out;
use std::collections::BTreeMap;

pub fn cfg_line(cfg: &Cfg) -> String {
    match cfg {
        Cfg::Periodic { cap, interval_ns } => format!("cfg periodic {cap} {interval_ns}"),
        Cfg::Adaptive { cap, min_ns, max_ns, max_ops } => {
            format!("cfg adaptive {cap} {min_ns} {max_ns} {max_ops}")
        }
        Cfg::Prob { cap, modulus, ops } => format!("cfg prob {cap} {modulus} {ops}"),
    }
}

pub fn parse_cfg(line: &str) -> Option<Cfg> {
    let t: Vec<&str> = line.split_whitespace().collect();
    match t.as_slice() {
        ["cfg", "periodic", cap, iv] => Some(Cfg::Periodic { cap: cap.parse().ok()?, interval_ns: iv.parse().ok()? }),
        ["cfg", "adaptive", cap, mn, mx, mo] => Some(Cfg::Adaptive {
            cap: cap.parse().ok()?,
            min_ns: mn.parse().ok()?,
            max_ns: mx.parse().ok()?,
            max_ops: mo.parse().ok()?,
        }),
        ["cfg", "prob", cap, m] => Some(Cfg::Prob { cap: cap.parse().ok()?, modulus: m.parse().ok()?, ops: 0 }),
        ["cfg", "prob", cap, m, ops] => Some(Cfg::Prob { cap: cap.parse().ok()?, modulus: m.parse().ok()?, ops: ops.parse().ok()? }),
        _ => None,
    }
}

pub fn replay_lines(cfg: &Cfg, steps: &[Step], upto: usize) -> Vec<String> {
    let mut v = vec![cfg_line(cfg)];
    for s in &steps[..=upto.min(steps.len() - 1)] {
        v.push(format!("{}    # -> {}", s.op_line(), s.resp.show()));
    }
    v
}

/// keys whose every request in the history used the same limits in D
pub fn fixed_keys(steps: &[Step]) -> BTreeMap<String, Lim> {
    let mut m: BTreeMap<String, Option<Lim>> = BTreeMap::new();
    for s in steps {
        let valid = s.rq.lim.in_d() && s.rq.q >= 0;
        let e = m.entry(s.rq.key.clone()).or_insert(Some(s.rq.lim));
        if let Some(l) = e {
            if *l != s.rq.lim || !valid {
                *e = None;
            }
        }
        if !valid {
            *e = None;
        }
    }
    m.into_iter().filter_map(|(k, v)| v.map(|l| (k, l))).collect()
}

pub fn is_monotone(steps: &[Step]) -> bool {
    steps.windows(2).all(|w| w[0].rq.now <= w[1].rq.now)
}

/// C01: every window of every fixed-limits key (monotone timestamps): Σq·E ≤ B·E + (t_j - t_i)
pub fn c01_windows(cfg: &Cfg, steps: &[Step], out: &mut Out) {
    if !is_monotone(steps) {
        return;
    }
    for (key, lim) in fixed_keys(steps) {
        let idx: Vec<usize> = (0..steps.len()).filter(|&i| steps[i].rq.key == key).collect();
        let e = lim.e();
        let be = e * lim.b as i128;
        let n = idx.len();
        let adm: Vec<i128> = idx
            .iter()
            .map(|&i| if steps[i].resp.allowed() == Some(true) { steps[i].rq.q as i128 } else { 0 })
            .collect();
        out.add("c01_windows", (n * (n + 1) / 2) as u64);
        'outer: for i in 0..n {
            let mut sum: i128 = 0;
            for j in i..n {
                sum = sum.saturating_add(adm[j]);
                let dt = steps[idx[j]].rq.now as i128 - steps[idx[i]].rq.now as i128;
                if sum.saturating_mul(e) > be + dt {
                    out.violation(
                        "C01",
                        format!(
                            "key {:?} limits {:?}: admitted {} tokens with timestamps in [{},{}] ; bound burst + window/E = {} + {}/{}",
                            key, lim, sum, steps[idx[i]].rq.now, steps[idx[j]].rq.now, lim.b, dt, e
                        ),
                        replay_lines(cfg, steps, idx[j]),
                    );
                    break 'outer;
                }
            }
        }
    }
}

/// C02 (decisions), C03 (fields) against the reference bucket; C07 lifetime clause on the trace.
pub fn bucket_and_fields(cfg: &Cfg, steps: &[Step], out: &mut Out) {
    let mono = is_monotone(steps);
    let fixed = fixed_keys(steps);
    let mut buckets: BTreeMap<String, RefBucket> = BTreeMap::new();
    for (i, s) in steps.iter().enumerate() {
        let lim = s.rq.lim;
        let in_d = lim.in_d() && s.rq.q >= 0;
        // --- field sanity for every successful response, any limits
        if let Resp::Ok { allowed, limit, remaining, reset_ns, retry_ns } = &s.resp {
            if *limit != lim.b {
                out.violation("C03", format!("limit {} != max_burst {}", limit, lim.b), replay_lines(cfg, steps, i));
            }
            if *remaining < 0 || *remaining > *limit {
                out.violation(
                    "C03",
                    format!("remaining {} outside 0..=limit {}", remaining, limit),
                    replay_lines(cfg, steps, i),
                );
            }
            if (*retry_ns == 0) != *allowed {
                out.violation(
                    "C03",
                    format!("retry_after {} ns but allowed={}", retry_ns, allowed),
                    replay_lines(cfg, steps, i),
                );
            }
            // lifetime clause: the TTL handed to the store
            for op in &s.trace {
                let t: Vec<&str> = op.split(' ').collect();
                let ttl: Option<u128> = match t[0] {
                    "cas" => t[4].parse().ok(),
                    "setnx" => t[3].parse().ok(),
                    _ => None,
                };
                if let Some(ttl) = ttl {
                    out.bump("writes_seen");
                    if in_d {
                        let e = lim.e() as u128;
                        let hi = 2 * e * lim.b as u128;
                        if ttl < e || ttl > hi {
                            out.violation(
                                "C07",
                                format!("lifetime {} ns asked of the store, outside [E, 2*B*E] = [{}, {}] (limits {:?}, q={})", ttl, e, hi, lim, s.rq.q),
                                replay_lines(cfg, steps, i),
                            );
                        }
                        if ttl != *reset_ns {
                            out.violation(
                                "C03",
                                format!("reset_after {} ns differs from the lifetime {} ns asked of the store", reset_ns, ttl),
                                replay_lines(cfg, steps, i),
                            );
                        }
                    }
                }
            }
        }
        // --- bucket comparison: fixed-limit keys, monotone time
        if !mono {
            continue;
        }
        if let Some(klim) = fixed.get(&s.rq.key) {
            let b = buckets.entry(s.rq.key.clone()).or_insert_with(RefBucket::new);
            let pre_lvl = if b.seen { (klim.e() * klim.b as i128).min(b.lvl + (s.rq.now as i128 - b.at)) } else { klim.e() * klim.b as i128 };
            let (admit, rem, lvl2) = b.step(klim, s.rq.now as i128, s.rq.q as i128);
            out.bump("bucket_steps");
            match &s.resp {
                Resp::Ok { allowed, remaining, reset_ns, retry_ns, .. } => {
                    if *allowed != admit {
                        out.violation(
                            "C02",
                            format!(
                                "decision allowed={} but the ideal bucket (capacity {}, one token per {} ns) says {} (level before: {} ns of credit, request {} tokens)",
                                allowed, klim.b, klim.e(), admit, pre_lvl, s.rq.q
                            ),
                            replay_lines(cfg, steps, i),
                        );
                        // resynchronise is impossible: stop comparing this key
                        buckets.remove(&s.rq.key);
                        continue;
                    }
                    if *remaining as i128 != rem {
                        out.violation(
                            "C03",
                            format!("remaining {} but exactly {} tokens are available afterwards (bucket level {} ns, E {} ns)", remaining, rem, lvl2, klim.e()),
                            replay_lines(cfg, steps, i),
                        );
                    }
                    let be = klim.e() * klim.b as i128;
                    for op in &s.trace {
                        let t: Vec<&str> = op.split(' ').collect();
                        let ttl: Option<i128> = match t[0] {
                            "cas" => t[4].parse().ok(),
                            "setnx" => t[3].parse().ok(),
                            _ => None,
                        };
                        if let Some(ttl) = ttl {
                            if ttl < be - lvl2 {
                                out.violation(
                                    "C07",
                                    format!("lifetime {} ns asked of the store ends while the state still matters: the key regains its full burst only after {} ns (limits {:?})", ttl, be - lvl2, klim),
                                    replay_lines(cfg, steps, i),
                                );
                            }
                        }
                    }
                    if (*reset_ns as i128) < be - lvl2 {
                        out.violation(
                            "C03",
                            format!("reset_after {} ns shorter than the time to regain the full burst {} ns", reset_ns, be - lvl2),
                            replay_lines(cfg, steps, i),
                        );
                    }
                    if !admit && s.rq.q <= klim.b {
                        // honoured exactly: credit reaches q*E after retry ns and not 1 ns earlier
                        let need = s.rq.q as i128 * klim.e() - pre_lvl;
                        if *retry_ns as i128 != need {
                            out.violation(
                                "C03",
                                format!("retry_after {} ns but the request becomes admissible after exactly {} ns", retry_ns, need),
                                replay_lines(cfg, steps, i),
                            );
                        }
                    }
                }
                other => {
                    out.violation(
                        "C02",
                        format!("valid request answered {}", other.show()),
                        replay_lines(cfg, steps, i),
                    );
                    buckets.remove(&s.rq.key);
                }
            }
        }
    }
}

/// C17 parts: no error / panic on any timestamp order; window bound with J (known finding
/// handled by the caller through `never-sweep` re-execution).
pub fn c17_no_error(cfg: &Cfg, steps: &[Step], out: &mut Out) {
    for (i, s) in steps.iter().enumerate() {
        let valid = s.rq.q >= 0 && s.rq.lim.b > 0 && s.rq.lim.c > 0 && s.rq.lim.p > 0;
        if valid {
            match &s.resp {
                Resp::Ok { .. } => {}
                other => out.violation(
                    "C17",
                    format!("valid request with out-of-order timestamp answered {}", other.show()),
                    replay_lines(cfg, steps, i),
                ),
            }
        }
    }
}

/// the largest backward step of the clock along processing order
pub fn regression_j(steps: &[Step]) -> i128 {
    let mut latest = i128::MIN;
    let mut j = 0i128;
    for s in steps {
        let t = s.rq.now as i128;
        if latest != i128::MIN && latest - t > j {
            j = latest - t;
        }
        if t > latest {
            latest = t;
        }
    }
    j
}

/// returns the first violating (key, lim, t1, t2, admitted, J) of the C17 window bound
pub fn c17_window(steps: &[Step]) -> Option<(String, Lim, i64, i64, i128, i128)> {
    let j = regression_j(steps);
    for (key, lim) in fixed_keys(steps) {
        let mut pts: Vec<(i64, i128)> = steps
            .iter()
            .filter(|s| s.rq.key == key && s.resp.allowed() == Some(true))
            .map(|s| (s.rq.now, s.rq.q as i128))
            .collect();
        pts.sort();
        let e = lim.e();
        let be = e * lim.b as i128;
        for a in 0..pts.len() {
            let mut sum = 0i128;
            for b in a..pts.len() {
                sum = sum.saturating_add(pts[b].1);
                let dt = pts[b].0 as i128 - pts[a].0 as i128;
                if sum.saturating_mul(e) > be + dt + j {
                    return Some((key, lim, pts[a].0, pts[b].0, sum, j));
                }
            }
        }
    }
    None
}
