// Generation / execution modes.  Every mode fills `Out` with driver lines (leg M) and
// judges the real code's answers with the property oracles (leg O).
use crate::gcra::*;
use crate::oracles::*;
use crate::stores::{Cfg, Shared};
use crate::util::*;
use std::collections::{BTreeMap, HashMap};
use std::panic::{catch_unwind, AssertUnwindSafe};
use std::time::Duration;
use throttlecrab::{Rate, Store};

fn emit_session(sess: &Session, steps: &[Step], snap_every: usize, out: &mut Out) {
    // caller must have emitted the `snew` line before executing (needs the initial state)
    let _ = (sess, snap_every);
    for s in steps {
        out.line(s.op_line(), s.imp_line());
    }
}

fn session_hash(out: &mut Out, cfg: &Cfg, steps: &[Step]) {
    let mut s = cfg.describe();
    for st in steps {
        s.push_str(&st.op_line());
    }
    let a = steps.iter().any(|s| s.resp.allowed() == Some(true));
    let d = steps.iter().any(|s| s.resp.allowed() == Some(false));
    out.bump("sessions");
    if a && d {
        out.note_case(&s);
    }
}

fn new_session(cfg: &Cfg, out: &mut Out) -> Session {
    let t0 = wall_ns() as i128;
    let sess = Session::new(cfg);
    let t1 = wall_ns() as i128;
    out.line(sess.store.snew_line(), "ok".into());
    // the model twin takes over the store's first cleanup deadline as it finds it; that the deadline is
    // "construction time + the configured interval" is checked here, against the wall clock (C07: the first
    // guaranteed cleanup point of a periodic store is one interval after it was built)
    if let Cfg::Periodic { interval_ns, .. } = cfg {
        if let Some(next) = sess.store.field("next") {
            let iv = *interval_ns as i128;
            if next < t0 + iv || next > t1 + iv {
                out.violation(
                    "C07",
                    format!("a periodic store built with cleanup interval {iv} ns schedules its first cleanup {} ns after construction", next - t0),
                    vec![crate::oracles::cfg_line(cfg), format!("# constructed between {t0} and {t1} ns, next_cleanup = {next}")],
                );
            }
        }
    }
    sess
}

fn snap(sess: &Session, out: &mut Out) {
    out.line("ssnap".into(), sess.store.snapshot());
}

// ---------------------------------------------------------------------------------------
// hist: monotone multi-key histories (C01 C02 C03 C07-lifetime; state-level tie for C06)
// ---------------------------------------------------------------------------------------
pub fn hist(seed: u64, n: usize, out: &mut Out) {
    let mut rng = Rng::new(seed);
    for _ in 0..n {
        let cfg = Cfg::random(&mut rng);
        let hp = HistParams {
            steps: rng.range(10, 120) as usize,
            nkeys: rng.range(1, 4) as usize,
            monotone: true,
            noise_pct: rng.pick(&[0u64, 10, 30]),
            invalid_pct: 4,
            mixed_pct: 0,
            zero_pct: 8,
            extreme_pct: 0,
        };
        let mut sess = new_session(&cfg, out);
        let (steps, _keys) = run_history(&mut rng, &mut sess, &hp, out);
        emit_session(&sess, &steps, 0, out);
        snap(&sess, out);
        c01_windows(&cfg, &steps, out);
        bucket_and_fields(&cfg, &steps, out);
        session_hash(out, &cfg, &steps);
        if out.samples.len() < 3 {
            out.sample(format!(
                "{} | {}",
                cfg_line(&cfg),
                steps.iter().take(6).map(|s| format!("{} -> {}", s.op_line(), s.resp.show())).collect::<Vec<_>>().join(" ; ")
            ));
        }
    }
}

fn reexec(cfg: &Cfg, prefix: &[Step], out: &mut Out) -> Session {
    let mut sess = new_session(cfg, out);
    for s in prefix {
        let st = sess.call(&s.rq);
        out.line(st.op_line(), st.imp_line());
    }
    sess
}

fn call_emit(sess: &mut Session, rq: &Rq, out: &mut Out) -> Step {
    let st = sess.call(rq);
    out.line(st.op_line(), st.imp_line());
    note_panic(sess, &st, out);
    st
}

fn note_panic(sess: &Session, st: &Step, out: &mut Out) {
    crate::gcra::report_panic(sess, st, out);
}

// ---------------------------------------------------------------------------------------
// probe: C03 — each sampled response is probed from a copy of the state it was produced in
// (copy = deterministic re-execution of the prefix on a fresh limiter)
// ---------------------------------------------------------------------------------------
pub fn probe(seed: u64, n: usize, out: &mut Out) {
    let mut rng = Rng::new(seed);
    for _ in 0..n {
        let cfg = Cfg::random(&mut rng);
        let hp = HistParams {
            steps: rng.range(4, 40) as usize,
            nkeys: rng.range(1, 2) as usize,
            monotone: true,
            noise_pct: rng.pick(&[0u64, 20]),
            invalid_pct: 0,
            // fixed limits per key: C03 is quantified over the histories of C01/C02.  (Under mixed limits on one key the
            // unmodified code does not satisfy the probes: a TAT stored under slow limits makes a zero-quantity request
            // under fast limits "denied with remaining 0", and a denied request's reset_after says nothing about the
            // lifetime of the entry written under the other limits.)
            mixed_pct: 0,
            zero_pct: 10,
            extreme_pct: 0,
        };
        let mut sess = new_session(&cfg, out);
        let (steps, _) = run_history(&mut rng, &mut sess, &hp, out);
        emit_session(&sess, &steps, 0, out);
        session_hash(out, &cfg, &steps);
        let fixed = fixed_keys(&steps);
        let mixed = hp.mixed_pct > 0;
        for _ in 0..4 {
            let i = rng.below(steps.len() as u64) as usize;
            let s = &steps[i];
            let lim = match fixed.get(&s.rq.key).copied() {
                Some(l) => l,
                None if mixed && s.rq.lim.in_d() => {
                    out.bump("probed_responses_on_mixed_limit_keys");
                    s.rq.lim
                }
                None => continue,
            };
            let Resp::Ok { allowed, remaining, reset_ns, retry_ns, .. } = s.resp.clone() else { continue };
            out.bump("probed_responses");
            let mk = |q: i64, now: i64| Rq { key: s.rq.key.clone(), lim, q, now };
            let rl = |steps: &[Step], i: usize, extra: &Step| {
                let mut v = replay_lines(&cfg, steps, i);
                v.push(format!("{}    # probe -> {}", extra.op_line(), extra.resp.show()));
                v
            };
            // (a) remaining is exact
            if remaining >= 0 {
                let mut c = reexec(&cfg, &steps[..=i], out);
                let p1 = call_emit(&mut c, &mk(remaining, s.rq.now), out);
                if p1.resp.allowed() != Some(true) {
                    out.violation("C03", format!("remaining={remaining} but a request for {remaining} tokens right afterwards is not admitted"), rl(&steps, i, &p1));
                }
                if remaining < i64::MAX {
                    let mut c = reexec(&cfg, &steps[..=i], out);
                    let p2 = call_emit(&mut c, &mk(remaining + 1, s.rq.now), out);
                    if p2.resp.allowed() != Some(false) {
                        out.violation("C03", format!("remaining={remaining} but a request for {} tokens right afterwards is admitted", remaining + 1), rl(&steps, i, &p2));
                    }
                }
            }
            // (b) retry_after is honoured
            if !allowed && s.rq.q <= lim.b && retry_ns < (1u128 << 62) {
                let t = s.rq.now.saturating_add(retry_ns as i64);
                let mut c = reexec(&cfg, &steps[..=i], out);
                let p = call_emit(&mut c, &mk(s.rq.q, t), out);
                if p.resp.allowed() != Some(true) {
                    out.violation("C03", format!("denied with retry_after={retry_ns} ns, but the same request {retry_ns} ns later is still denied"), rl(&steps, i, &p));
                }
                if retry_ns >= 1 {
                    let mut c = reexec(&cfg, &steps[..=i], out);
                    let p = call_emit(&mut c, &mk(s.rq.q, t - 1), out);
                    if p.resp.allowed() != Some(false) {
                        out.violation("C03", format!("denied with retry_after={retry_ns} ns, but the same request 1 ns earlier is already admitted"), rl(&steps, i, &p));
                    }
                }
            }
            // (c) after reset_after the key behaves as never seen
            if reset_ns < (1u128 << 62) {
                let extra = rng.pick(&[0i64, 0, 1, 1_000_000_000]);
                let t = s.rq.now.saturating_add(reset_ns as i64).saturating_add(extra);
                let q = rng.pick(&[0i64, 1, lim.b, lim.b + 1]);
                let mut c = reexec(&cfg, &steps[..=i], out);
                let p = call_emit(&mut c, &mk(q, t), out);
                let mut fresh = new_session(&cfg, out);
                let f = call_emit(&mut fresh, &mk(q, t), out);
                if p.resp != f.resp {
                    out.violation(
                        "C03",
                        format!("reset_after={reset_ns} ns has elapsed but the key answers {} where a never-seen key answers {}", p.resp.show(), f.resp.show()),
                        rl(&steps, i, &p),
                    );
                }
            }
        }
    }
}

// ---------------------------------------------------------------------------------------
// insert: C04 — no-effect requests inserted anywhere change no other response
// ---------------------------------------------------------------------------------------
pub fn insert(seed: u64, n: usize, out: &mut Out) {
    let mut rng = Rng::new(seed);
    for _ in 0..n {
        let cfg = Cfg::random(&mut rng);
        let hp = HistParams {
            steps: rng.range(5, 60) as usize,
            nkeys: rng.range(1, 3) as usize,
            monotone: true,
            noise_pct: 10,
            invalid_pct: 0,
            mixed_pct: rng.pick(&[0u64, 30]),
            zero_pct: 5,
            extreme_pct: 0,
        };
        // base run
        let mut sess = new_session(&cfg, out);
        let (base, keys) = run_history(&mut rng, &mut sess, &hp, out);
        emit_session(&sess, &base, 0, out);
        // extended history
        let mut ext: Vec<(Rq, Option<usize>)> = vec![]; // (request, index in base or None = inserted)
        for (i, s) in base.iter().enumerate() {
            let t_prev = if i == 0 { s.rq.now } else { base[i - 1].rq.now };
            let k = rng.pick(&[0usize, 0, 1, 1, 2, 3]);
            for _ in 0..k {
                let t = rng.range(t_prev, s.rq.now);
                let key = if rng.chance(3, 4) && !keys.is_empty() {
                    keys[rng.below(keys.len() as u64) as usize].0.clone()
                } else {
                    s.rq.key.clone()
                };
                let rq = match rng.below(6) {
                    0 | 1 => {
                        // zero quantity, possibly under other limits
                        let lim = if rng.chance(1, 2) { gen_lim_d(&mut rng) } else { keys.iter().find(|k| k.0 == key).map(|k| k.1).unwrap_or(s.rq.lim) };
                        out.bump("ins_zero");
                        Rq { key, lim, q: 0, now: t }
                    }
                    2 | 3 => {
                        // over-burst: always denied
                        let lim = if rng.chance(1, 3) { gen_lim_d(&mut rng) } else { keys.iter().find(|k| k.0 == key).map(|k| k.1).unwrap_or(s.rq.lim) };
                        out.bump("ins_overburst");
                        Rq { key, lim, q: rng.pick(&[lim.b + 1, 2 * lim.b + 1, i64::MAX]), now: t }
                    }
                    _ => {
                        let (lim, q) = gen_lim_invalid(&mut rng);
                        out.bump("ins_invalid");
                        Rq { key, lim, q, now: t }
                    }
                };
                ext.push((rq, None));
            }
            ext.push((s.rq.clone(), Some(i)));
        }
        let mut sess2 = new_session(&cfg, out);
        let mut ext_steps: Vec<Step> = vec![];
        let mut reported = false;
        for (rq, origin) in &ext {
            let before = if origin.is_none() { Some(sess2.store.entries().len()) } else { None };
            let st = call_emit(&mut sess2, rq, out);
            ext_steps.push(st.clone());
            if reported {
                continue;
            }
            match origin {
                Some(i) => {
                    if st.resp != base[*i].resp {
                        reported = true;
                        let mut rp = vec![cfg_line(&cfg), "# history with the no-effect requests inserted:".into()];
                        for (j, e) in ext_steps.iter().enumerate() {
                            rp.push(format!("{}    # {} -> {}", e.op_line(), if ext[j].1.is_none() { "INSERTED" } else { "base" }, e.resp.show()));
                        }
                        rp.push(format!("# base history alone answers request #{} with: {}", i, base[*i].resp.show()));
                        out.violation(
                            "C04",
                            format!("response changed from {} to {} after inserting denied / zero-quantity / invalid requests", base[*i].resp.show(), st.resp.show()),
                            rp,
                        );
                    }
                }
                None => {
                    if let Resp::Err(kind) = &st.resp {
                        if *kind != "internal" {
                            let after = sess2.store.entries().len();
                            if !st.trace.is_empty() || Some(after) != before {
                                reported = true;
                                out.violation(
                                    "C04",
                                    format!("rejected request touched the store (ops {:?}, entries {:?} -> {})", st.trace, before, after),
                                    replay_lines(&cfg, &ext_steps, ext_steps.len() - 1),
                                );
                            }
                        }
                    }
                }
            }
        }
        session_hash(out, &cfg, &ext_steps);
        if out.samples.len() < 3 {
            out.sample(format!("{} | base {} requests, {} inserted", cfg_line(&cfg), base.len(), ext.len() - base.len()));
        }
    }
}

// ---------------------------------------------------------------------------------------
// iso: C05 — the projection of an interleaved run on each key equals that key's solo run
// ---------------------------------------------------------------------------------------
pub fn iso(seed: u64, n: usize, out: &mut Out) {
    let mut rng = Rng::new(seed);
    for _ in 0..n {
        let cfg = Cfg::random(&mut rng);
        let hp = HistParams {
            steps: rng.range(50, 600) as usize,
            nkeys: rng.range(2, 6) as usize,
            monotone: true,
            noise_pct: rng.pick(&[20u64, 50, 70]),
            invalid_pct: 3,
            mixed_pct: 10,
            zero_pct: 5,
            extreme_pct: rng.pick(&[0u64, 0, 30]),
        };
        let mut sess = new_session(&cfg, out);
        let (steps, keys) = run_history(&mut rng, &mut sess, &hp, out);
        emit_session(&sess, &steps, 0, out);
        snap(&sess, out);
        session_hash(out, &cfg, &steps);
        out.add("iso_keys_total", sess.store.entries().len() as u64);
        for (key, _) in &keys {
            let sub: Vec<&Step> = steps.iter().filter(|s| &s.rq.key == key).collect();
            if sub.is_empty() {
                continue;
            }
            let mut solo = Session::new(&cfg);
            solo.store.0.borrow_mut().record = false;
            for (j, s) in sub.iter().enumerate() {
                let st = solo.call(&s.rq);
                out.bump("iso_compared");
                if st.resp != s.resp {
                    let mut rp = replay_lines(&cfg, &steps, steps.iter().position(|x| std::ptr::eq(x, *s)).unwrap());
                    rp.push(format!("# solo run of key {:?} answers its request #{} with {}", key, j, st.resp.show()));
                    out.violation(
                        "C05",
                        format!("key {:?}: interleaved answer {} differs from solo answer {}", key, s.resp.show(), st.resp.show()),
                        rp,
                    );
                    break;
                }
            }
        }
        if out.samples.len() < 3 {
            out.sample(format!("{} | {} requests over {} keys of interest + noise keys", cfg_line(&cfg), steps.len(), keys.len()));
        }
    }
}

// ---------------------------------------------------------------------------------------
// storeops: C06 — raw get / set-if-absent / compare-and-swap sequences on the real stores,
// state-level tie (snapshot after every op) and the abstract-map oracle
// ---------------------------------------------------------------------------------------
pub fn storeops(seed: u64, n: usize, out: &mut Out) {
    let mut rng = Rng::new(seed);
    for _ in 0..n {
        let cfg = Cfg::random(&mut rng);
        let mut store = Shared::new(&cfg);
        store.0.borrow_mut().record = false;
        out.line(store.snew_line(), "ok".into());
        let mut amap: HashMap<String, (i64, i128)> = HashMap::new();
        let nkeys = rng.pick(&[1usize, 2, 5, 40, 300]);
        let keys: Vec<String> = (0..nkeys).map(|i| gen_key(&mut rng, i)).collect();
        let mut now: i64 = pick_base(&mut rng);
        let steps = rng.range(10, 400) as usize;
        let mut log: Vec<String> = vec![cfg_line(&cfg)];
        let mut canon = cfg.describe();
        let mut fails = 0;
        let mut prev_key: Option<String> = None;
        for _ in 0..steps {
            // time: straddle the store's triggers
            let next_in = store.field("next").map(|x| x - now as i128);
            let mut gaps: Vec<i128> = vec![0, 0, 0, 1, 1, 1000, 1_000_000, 1_000_000_000, 5_000_000_000];
            if let Some(d) = next_in {
                if d >= 0 {
                    gaps.extend_from_slice(&[d - 1, d, d + 1, d]);
                }
            }
            let g = gaps[rng.below(gaps.len() as u64) as usize].clamp(0, 1 << 60) as i64;
            now = now.saturating_add(g).min(4_102_444_800_000_000_000);
            // one op in three stays on the key of the previous op (read-then-write and write-after-failed-write sequences)
            let key = match &prev_key {
                Some(k) if rng.chance(1, 3) => k.clone(),
                _ => keys[rng.below(keys.len() as u64) as usize].clone(),
            };
            prev_key = Some(key.clone());
            if rng.chance(1, 40) {
                store.relocate();
                out.bump("store_relocations");
            }
            let kh = hex(key.as_bytes());
            let ttl: u64 = rng.pick(&[0u64, 0, 1, 1, 2, 1000, 1_000_000_000, 5_000_000_000, 60_000_000_000, u64::MAX / 4, (1u64 << 62), i64::MAX as u64]);
            let t = ns_to_time(now);
            let cur = amap.get(&key).cloned();
            let vis = cur.filter(|(_, e)| *e > now as i128);
            let bit = store.pressure_bit();
            let bs = match bit {
                Some(true) => " 1",
                Some(false) => " 0",
                None => "",
            };
            let vals = [0i64, 1, -1, i64::MAX, i64::MIN, 42, now];
            let (op, imp, expect) = match rng.below(10) {
                0..=2 => {
                    let r = store.get(&key, t).unwrap();
                    let imp = match r {
                        None => "none".to_string(),
                        Some(v) => format!("some {v}"),
                    };
                    let exp = match vis {
                        None => "none".to_string(),
                        Some((v, _)) => format!("some {v}"),
                    };
                    out.bump("op_get");
                    (format!("sget {kh} {now}"), imp, exp)
                }
                3..=6 => {
                    let v = rng.pick(&vals);
                    let r = store.set_if_not_exists_with_ttl(&key, v, Duration::from_nanos(ttl), t).unwrap();
                    let exp = vis.is_none();
                    if exp {
                        amap.insert(key.clone(), (v, now as i128 + ttl as i128));
                    }
                    out.bump("op_setnx");
                    (format!("ssetnx {kh} {v} {ttl} {now}{bs}"), r.to_string(), exp.to_string())
                }
                _ => {
                    let old = if rng.chance(2, 3) { cur.map(|c| c.0).unwrap_or(7) } else { rng.pick(&vals) };
                    let v = rng.pick(&vals);
                    let r = store.compare_and_swap_with_ttl(&key, old, v, Duration::from_nanos(ttl), t).unwrap();
                    let exp = matches!(vis, Some((c, _)) if c == old);
                    if exp {
                        amap.insert(key.clone(), (v, now as i128 + ttl as i128));
                    }
                    out.bump("op_cas");
                    (format!("scas {kh} {old} {v} {ttl} {now}{bs}"), r.to_string(), exp.to_string())
                }
            };
            canon.push_str(&op);
            log.push(format!("{op}    # -> {imp}"));
            out.line(op, imp.clone());
            if store.len_cap().0 <= 12 || rng.chance(1, 10) {
                out.line("ssnap".into(), store.snapshot());
            }
            if imp != expect {
                fails += 1;
                if fails == 1 {
                    out.violation(
                        "C06",
                        format!("{} store answered {} where the abstract expiring map answers {}", cfg_line(&cfg), imp, expect),
                        log.clone(),
                    );
                }
            }
            // cleanup is invisible: every entry the abstract map shows as visible is held, with the same value/expiry
            if rng.chance(1, 8) {
                let ents: BTreeMap<String, (i64, i128)> = store.entries().into_iter().map(|(k, v, e)| (k, (v, e))).collect();
                for (k, (v, e)) in &amap {
                    if *e > now as i128 && ents.get(&hex(k.as_bytes())) != Some(&(*v, *e)) && fails == 0 {
                        fails += 1;
                        out.violation("C06", format!("visible entry {:?} lost or altered by the store ({})", k, cfg_line(&cfg)), log.clone());
                    }
                }
            }
        }
        out.bump("sessions");
        out.note_case(&canon);
        if out.samples.len() < 3 {
            out.sample(log.iter().take(8).cloned().collect::<Vec<_>>().join(" ; "));
        }
    }
}

// ---------------------------------------------------------------------------------------
// reclaim: C07 reclamation clause — unbounded stream of fresh keys, bounded active set
// ---------------------------------------------------------------------------------------
pub fn reclaim(seed: u64, n: usize, out: &mut Out) {
    let mut rng = Rng::new(seed);
    for _ in 0..n {
        // cleanup-enabled configurations only
        let cfg = loop {
            let c = Cfg::random(&mut rng);
            match &c {
                Cfg::Prob { modulus: 0, .. } => continue,
                Cfg::Periodic { interval_ns, .. } if *interval_ns > 2_000_000_000 => continue,
                _ => break c,
            }
        };
        // "late counter": a probabilistic store in the state it has after billions of writes, a few
        // writes before its operation count times the multiplier passes a multiple of 2^64
        let mut cfg = cfg;
        let mut late_n = 0u64;
        if let Cfg::Prob { cap, .. } = &cfg {
            if rng.below(2) == 0 {
                let modulus = rng.pick(&[3u64, 5, 6, 7, 10, 12, 100, 1000]);
                let k = rng.range(1, 400) as u128;
                let wrap = ((k << 64) / 2654435761u128) as u64;
                let ops = wrap - rng.below(2 * modulus + 2);
                cfg = Cfg::Prob { cap: *cap, modulus, ops };
                late_n = modulus;
                out.bump("reclaim_late_counter_sessions");
            }
        }
        let mut sess = new_session(&cfg, out);
        let lim = loop {
            let l = gen_lim_d(&mut rng);
            if l.e() * (l.b as i128) < 2_000_000_000 {
                break l;
            }
        };
        let life = 2 * lim.e() * lim.b as i128;
        let steps_n = (rng.range(200, 1500) as usize).max(3 * late_n as usize + 50);
        // probabilistic store, "every N-th write": key -> number of write operations seen when the entry
        // was first observed expired-and-held
        let mut ops_total = 0u64;
        let mut stale_since: std::collections::BTreeMap<String, u64> = Default::default();
        let mut now = wall_ns();
        let mut steps: Vec<Step> = vec![];
        let mut max_len = 0usize;
        let mut active: Vec<(i64, usize)> = vec![]; // (written at, key id)
        let mut guaranteed = 0u64;
        // the cleanup deadline as the harness expects it: (time of the last observed sweep) + interval,
        // tracked independently of the store's own `next_cleanup` field
        let mut exp_next: Option<i128> = sess.store.field("next");
        for i in 0..steps_n {
            let gap = rng.pick(&[0i64, 1000, 1_000_000, 10_000_000, 100_000_000, (life / 3) as i64, life as i64]);
            now += gap;
            // pre-state: is the coming write a guaranteed cleanup point?
            let pre_next = sess.store.field("next");
            let pre_ops = sess.store.field("ops");
            let g = match &cfg {
                Cfg::Periodic { .. } => exp_next.map(|x| now as i128 >= x).unwrap_or(false),
                Cfg::Adaptive { .. } => {
                    let next = exp_next.unwrap();
                    let ops = sess.store.field("ops").unwrap();
                    let maxops = sess.store.field("maxops").unwrap();
                    now as i128 >= next || ops + 1 >= maxops
                }
                // the N-th, 2N-th, ... write (N < the multiplier, a prime: the trigger `count * multiplier
                // divisible by N` is `count divisible by N`)
                Cfg::Prob { modulus, .. } => (sess.store.field("ops").unwrap() as u64 + 1) % modulus == 0,
            };
            let rq = Rq { key: format!("f{i}"), lim, q: 1, now };
            let st = call_emit(&mut sess, &rq, out);
            let st_ops = st.trace.iter().filter(|o| o.starts_with("setnx") || o.starts_with("cas")).count();
            let wrote = st_ops > 0;
            // did this write sweep?  periodic: next_cleanup moved; adaptive: the op counter was reset
            match &cfg {
                Cfg::Periodic { interval_ns, .. } => {
                    if sess.store.field("next") != pre_next {
                        exp_next = Some(now as i128 + *interval_ns as i128);
                    }
                }
                Cfg::Adaptive { .. } => {
                    if wrote && sess.store.field("ops") == Some(0) && pre_ops.map(|o| o + 1 != 0).unwrap_or(true) {
                        exp_next = Some(now as i128 + sess.store.field("cur").unwrap_or(0));
                    }
                }
                _ => {}
            }
            steps.push(st);
            active.push((now, i));
            active.retain(|(w, _)| (*w as i128 + life) > now as i128);
            let ents = sess.store.entries();
            max_len = max_len.max(ents.len());
            // probabilistic store: "every N-th write" is judged below as "no N consecutive writes without a
            // cleanup", which does not fix the phase of the cleanup points
            let is_prob = matches!(cfg, Cfg::Prob { .. });
            if g && wrote && is_prob {
                guaranteed += 1;
                out.bump("guaranteed_points");
            }
            if g && wrote && !is_prob {
                guaranteed += 1;
                out.bump("guaranteed_points");
                let stale: Vec<_> = ents.iter().filter(|(_, _, e)| *e <= now as i128).collect();
                if !stale.is_empty() {
                    out.violation(
                        "C07",
                        format!("{} entries whose lifetime has passed are still held right after a guaranteed cleanup point ({}), e.g. {:?}", stale.len(), cfg_line(&cfg), stale[0]),
                        replay_lines(&cfg, &steps, steps.len() - 1),
                    );
                    break;
                }
                if ents.len() > active.len() {
                    out.violation(
                        "C07",
                        format!("{} entries held after a guaranteed cleanup point but only {} keys are active", ents.len(), active.len()),
                        replay_lines(&cfg, &steps, steps.len() - 1),
                    );
                    break;
                }
            }
            if let Cfg::Prob { modulus, .. } = &cfg {
                // "every N-th write": an entry seen expired and still held after some write must be gone
                // once N further write operations have run (each of them is at a time >= its expiry)
                ops_total += st_ops as u64;
                let held_stale: std::collections::BTreeSet<&String> = ents.iter().filter(|(_, _, e)| *e <= now as i128).map(|(k, _, _)| k).collect();
                stale_since.retain(|k, _| held_stale.contains(k));
                for k in &held_stale {
                    stale_since.entry((*k).clone()).or_insert(ops_total);
                }
                if let Some((k, s)) = stale_since.iter().find(|(_, s)| ops_total - **s >= *modulus) {
                    out.violation(
                        "C07",
                        format!("entry {} was already expired {} write operations ago and is still held: no cleanup in {} consecutive writes ({}, every {}th write is a guaranteed cleanup point)", k, ops_total - s, ops_total - s, cfg_line(&cfg), modulus),
                        replay_lines(&cfg, &steps, steps.len() - 1),
                    );
                    break;
                }
            }
            if i % 97 == 0 {
                snap(&sess, out);
            }
        }
        out.add("reclaim_max_len", max_len as u64);
        if guaranteed == 0 {
            out.bump("sessions_without_guaranteed_point");
        }
        session_hash(out, &cfg, &steps[..steps.len().min(30)]);
        if out.samples.len() < 3 {
            out.sample(format!("{} | {} fresh keys, lifetime {} ns, max entries {}, guaranteed cleanup points {}", cfg_line(&cfg), steps_n, life, max_len, guaranteed));
        }
    }
}

// ---------------------------------------------------------------------------------------
// lattice: C08 — boundary lattice over i64^4 x timestamps x fresh/pre-populated x stores
// ---------------------------------------------------------------------------------------
pub const LATTICE: &[i64] = &[
    i64::MIN,
    -1,
    0,
    1,
    2,
    (1 << 31) - 1,
    1 << 31,
    (1 << 32) - 1,
    1 << 32,
    (1 << 32) + 1,
    (1 << 53) - 1,
    (1 << 53) + 1,
    9_223_372_035, // floor(2^63/1e9)
    9_223_372_037,
    i64::MAX - 1,
    i64::MAX,
];
pub const LATTICE_MORE: &[i64] = &[3, 10, 1_000_000_000, (1 << 31) + 1, (1 << 53), 9_223_372_036, i64::MIN + 1, 1 << 62];

pub fn judge_c08(cfg: &Cfg, st: &Step, fresh: bool, out: &mut Out) {
    let rq = &st.rq;
    let l = rq.lim;
    let rp = || vec![cfg_line(cfg), format!("{}    # fresh_key={} -> {}", st.op_line(), fresh, st.resp.show())];
    match &st.resp {
        Resp::Panic => out.violation("C08", format!("rate_limit panicked for burst={} count={} period={} quantity={} now={}", l.b, l.c, l.p, rq.q, rq.now), rp()),
        Resp::Err("internal") => out.violation("C08", "internal error returned with a built-in store".into(), rp()),
        Resp::Err(k) => {
            let want = if rq.q < 0 { "neg" } else { "invalid" };
            let should_err = rq.q < 0 || l.b <= 0 || l.c <= 0 || l.p <= 0;
            if !should_err || *k != want {
                out.violation("C08", format!("error {k} but expected {}", if should_err { want } else { "a result" }), rp());
            }
        }
        Resp::Ok { allowed, limit, remaining, retry_ns, .. } => {
            if rq.q < 0 || l.b <= 0 || l.c <= 0 || l.p <= 0 {
                out.violation("C08", "invalid parameters accepted".into(), rp());
            } else {
                if *limit != l.b {
                    out.violation("C08", format!("limit {} != max_burst {}", limit, l.b), rp());
                }
                if *remaining < 0 || remaining > limit {
                    out.violation("C08", format!("remaining {} outside 0..=limit {}", remaining, limit), rp());
                }
                if (*retry_ns == 0) != *allowed {
                    out.violation("C08", format!("retry_after {} with allowed={}", retry_ns, allowed), rp());
                }
                if fresh && rq.q <= l.b && !*allowed {
                    out.violation("C08", format!("first request of quantity {} <= max_burst {} on a fresh key denied", rq.q, l.b), rp());
                }
            }
        }
    }
}

pub fn lattice(seed: u64, n: usize, out: &mut Out) {
    // n = 0: quick lattice (16^4), n = 1: thorough lattice (24^4); plus random points
    let mut rng = Rng::new(seed);
    let mut vals: Vec<i64> = LATTICE.to_vec();
    if n >= 1 {
        vals.extend_from_slice(LATTICE_MORE);
    }
    let times: Vec<i64> = vec![0, wall_ns(), 4_102_444_800_000_000_000, 7_258_118_400_000_000_000 - 1];
    let cfgs = [
        Cfg::Periodic { cap: 16, interval_ns: 1 },
        Cfg::Adaptive { cap: 16, min_ns: 1, max_ns: 2, max_ops: 3 },
        Cfg::Prob { cap: 16, modulus: 2, ops: 0 },
    ];
    let mut sessions: Vec<Session> = cfgs.iter().map(|c| new_session_quiet(c)).collect();
    let mut ctr = 0u64;
    let emit_every = if n >= 1 { 5 } else { 2 };
    let mut point = |b: i64, c: i64, p: i64, q: i64, out: &mut Out, rng: &mut Rng, sessions: &mut Vec<Session>| {
        ctr += 1;
        let si = (ctr % 3) as usize;
        let now = times[((ctr / 3) % times.len() as u64) as usize];
        let key = format!("p{ctr}");
        let pre = ctr % 2 == 1;
        let emit = ctr % emit_every == 0;
        if sessions[si].store.entries().len() > 2000 {
            sessions[si] = new_session_quiet(&cfgs[si]);
        }
        if emit {
            // the model needs the same starting state: use a fresh store for emitted points
            sessions[si] = Session::new(&cfgs[si]);
            out.line(sessions[si].store.snew_line(), "ok".into());
        }
        if pre {
            // pre-populate with an arbitrary stored value
            let v = rng.pick(&[i64::MIN, -1, 0, 1, now, now.saturating_add(1 << 40), i64::MAX]);
            let ttl = rng.pick(&[1u64, 1_000_000_000, 1 << 62]);
            let t0 = now.saturating_sub(rng.pick(&[0i64, 1, 1_000_000_000])).max(0);
            let bit = sessions[si].store.pressure_bit();
            let mut h = sessions[si].store.clone();
            let r = h.set_if_not_exists_with_ttl(&key, v, Duration::from_nanos(ttl), ns_to_time(t0)).unwrap();
            sessions[si].store.take_trace_vec();
            if emit {
                let bs = match bit {
                    Some(true) => " 1",
                    Some(false) => " 0",
                    None => "",
                };
                out.line(format!("ssetnx {} {} {} {}{}", hex(key.as_bytes()), v, ttl, t0, bs), r.to_string());
            }
        }
        let rq = Rq { key, lim: Lim { b, c, p }, q, now };
        let st = sessions[si].call(&rq);
        out.bump("lattice_points");
        match &st.resp {
            Resp::Ok { allowed: true, .. } => out.bump("resp_allowed"),
            Resp::Ok { allowed: false, .. } => out.bump("resp_denied"),
            Resp::Err(_) => out.bump("resp_err"),
            Resp::Panic => out.bump("resp_panic"),
        }
        judge_c08(&cfgs[si], &st, !pre, out);
        if emit {
            out.line(st.op_line(), st.imp_line());
        }
        if out.samples.len() < 4 && matches!(st.resp, Resp::Ok { .. }) && b > 1 {
            out.sample(format!("{} -> {}", st.op_line(), st.resp.show()));
        }
    };
    for &b in &vals {
        for &c in &vals {
            for &p in &vals {
                for &q in &vals {
                    point(b, c, p, q, out, &mut rng, &mut sessions);
                }
            }
        }
    }
    // random points: mix of lattice neighbours and uniform values
    let extra = if n >= 1 { 400_000 } else { 40_000 };
    for _ in 0..extra {
        let mut v = |rng: &mut Rng| -> i64 {
            match rng.below(4) {
                0 => rng.pick(&vals).saturating_add(rng.range(-2, 2)),
                1 => rng.range(1, 1000),
                2 => rng.next_u64() as i64,
                _ => 1i64 << rng.below(63),
            }
        };
        let (b, c, p, q) = (v(&mut rng), v(&mut rng), v(&mut rng), v(&mut rng));
        point(b, c, p, q, out, &mut rng, &mut sessions);
    }
    out.add("distinct_points", ctr);
    for i in 0..ctr.min(1 << 20) {
        out.distinct.insert(i);
    }
}

fn new_session_quiet(cfg: &Cfg) -> Session {
    Session::new(cfg)
}

// ---------------------------------------------------------------------------------------
// regress: C17 — arbitrary timestamp order
// ---------------------------------------------------------------------------------------
pub fn regress(seed: u64, n: usize, out: &mut Out) {
    let mut rng = Rng::new(seed);
    // corpus first: the witness of the Lean theorem C17_window_bound_J_false, replayed on the real code
    {
        let cfg = Cfg::Prob { cap: 8, modulus: 1, ops: 0 };
        let lim = Lim { b: 1, c: 1, p: 1 };
        let mut sess = new_session(&cfg, out);
        let mut steps = vec![];
        for (i, (key, t)) in [("k", 10), ("o1", 12), ("k", 10), ("o2", 12), ("k", 10), ("o3", 12), ("k", 10)].iter().enumerate() {
            let _ = i;
            let rq = Rq { key: key.to_string(), lim, q: 1, now: *t as i64 * 1_000_000_000 };
            steps.push(call_emit(&mut sess, &rq, out));
        }
        out.bump("corpus_cases");
        if let Some((key, lim, t1, t2, adm, j)) = c17_window(&steps) {
            let mut ns = Session::new(&Cfg::never_sweeps());
            let re: Vec<Step> = steps.iter().map(|s| ns.call(&s.rq)).collect();
            let what = format!(
                "key {:?} limits {:?}: {} tokens admitted with timestamps in [{},{}], bound burst + (window+J)/E = {} + ({}+{})/{} (witness of Lean theorem C17_window_bound_J_false)",
                key, lim, adm, t1, t2, lim.b, t2 as i128 - t1 as i128, j, lim.e()
            );
            if c17_window(&re).is_none() {
                out.bump("known_c17_sweep_regression");
                out.viol.push(("KNOWN-C17-sweep-regression".into(), what, replay_lines(&cfg, &steps, steps.len() - 1)));
            } else {
                out.violation("C17", what, replay_lines(&cfg, &steps, steps.len() - 1));
            }
        }
    }
    for _ in 0..n {
        let cfg = if rng.chance(1, 2) {
            // aggressive cleanup so forgetting interacts with regression
            rng.pick(&[
                Cfg::Prob { cap: 8, modulus: 1, ops: 0 },
                Cfg::Periodic { cap: 8, interval_ns: 0 },
                Cfg::Adaptive { cap: 8, min_ns: 0, max_ns: 0, max_ops: 1 },
                Cfg::Prob { cap: 8, modulus: 2, ops: 0 },
            ])
        } else if rng.chance(1, 3) {
            // the stores as the server builds them by default (cleanup rare: bookkeeping accumulates between sweeps)
            rng.pick(&[
                Cfg::Adaptive { cap: 1000, min_ns: 1_000_000_000, max_ns: 300_000_000_000, max_ops: 100_000 },
                Cfg::Adaptive { cap: 8, min_ns: 5_000_000_000, max_ns: 300_000_000_000, max_ops: 100_000 },
                Cfg::Periodic { cap: 1000, interval_ns: 60_000_000_000 },
                Cfg::Prob { cap: 1000, modulus: 10_000, ops: 0 },
            ])
        } else {
            Cfg::random(&mut rng)
        };
        let hp = HistParams {
            steps: rng.range(10, 150) as usize,
            nkeys: rng.range(1, 3) as usize,
            monotone: false,
            noise_pct: rng.pick(&[0u64, 15, 40]),
            invalid_pct: 0,
            mixed_pct: 0,
            zero_pct: 5,
            extreme_pct: 0,
        };
        let mut sess = new_session(&cfg, out);
        let (steps, _) = run_history(&mut rng, &mut sess, &hp, out);
        emit_session(&sess, &steps, 0, out);
        session_hash(out, &cfg, &steps);
        c17_no_error(&cfg, &steps, out);
        bucket_and_fields_nonmono(&cfg, &steps, out);
        out.add("regression_j_total_ms", (regression_j(&steps) / 1_000_000) as u64);
        if let Some((key, lim, t1, t2, adm, j)) = c17_window(&steps) {
            // classify: does the same history respect the bound on a store that never sweeps?
            let mut ns = Session::new(&Cfg::never_sweeps());
            let re: Vec<Step> = steps.iter().map(|s| ns.call(&s.rq)).collect();
            let what = format!(
                "key {:?} limits {:?}: {} tokens admitted with timestamps in [{},{}], bound burst + (window+J)/E = {} + ({}+{})/{}",
                key, lim, adm, t1, t2, lim.b, t2 as i128 - t1 as i128, j, lim.e()
            );
            if c17_window(&re).is_none() {
                out.bump("known_c17_sweep_regression");
                if !out.viol.iter().any(|v| v.0 == "KNOWN-C17-sweep-regression") {
                    out.viol.push(("KNOWN-C17-sweep-regression".into(), what, replay_lines(&cfg, &steps, steps.len() - 1)));
                }
            } else {
                out.violation("C17", what, replay_lines(&cfg, &steps, steps.len() - 1));
            }
        }
        // an earlier timestamp never sees more budget than the latest one
        let fixed = fixed_keys(&steps);
        for _ in 0..3 {
            let i = rng.below(steps.len() as u64) as usize;
            let s = &steps[i];
            let Some(lim) = fixed.get(&s.rq.key).copied() else { continue };
            let latest = steps[..=i].iter().map(|x| x.rq.now).max().unwrap();
            let back = rng.pick(&[0i64, 1, 1000, 1_000_000_000, (lim.e().min(1 << 40)) as i64, (lim.tau().min(1 << 50)) as i64, 10_000_000_000]);
            let t = (latest - back).max(0);
            let q = rng.pick(&[0i64, 1, lim.b / 2 + 1, lim.b]);
            let mk = |now: i64| Rq { key: s.rq.key.clone(), lim, q, now };
            let mut c1 = reexec(&cfg, &steps[..=i], out);
            let early = call_emit(&mut c1, &mk(t), out);
            let mut c2 = reexec(&cfg, &steps[..=i], out);
            let late = call_emit(&mut c2, &mk(latest), out);
            out.bump("budget_probes");
            if let (Resp::Ok { allowed: a1, remaining: r1, .. }, Resp::Ok { allowed: a2, remaining: r2, .. }) = (&early.resp, &late.resp) {
                let more = (*a1 && !*a2) || (*a1 == *a2 && r1 > r2);
                if more {
                    let mut rp = replay_lines(&cfg, &steps, i);
                    rp.push(format!("{}    # probe at the earlier timestamp -> {}", early.op_line(), early.resp.show()));
                    rp.push(format!("{}    # same probe at the latest timestamp -> {}", late.op_line(), late.resp.show()));
                    out.violation("C17", format!("a request stamped {} ns before the latest timestamp sees more budget ({}) than at the latest timestamp ({})", back, early.resp.show(), late.resp.show()), rp);
                }
            }
        }
    }
}

/// field sanity only (no bucket comparison: not monotone)
fn bucket_and_fields_nonmono(cfg: &Cfg, steps: &[Step], out: &mut Out) {
    for (i, s) in steps.iter().enumerate() {
        if let Resp::Ok { allowed, limit, remaining, retry_ns, .. } = &s.resp {
            if *limit != s.rq.lim.b || *remaining < 0 || remaining > limit || ((*retry_ns == 0) != *allowed) {
                out.violation("C17", format!("inconsistent response {} under clock regression", s.resp.show()), replay_lines(cfg, steps, i));
            }
        }
    }
}

// ---------------------------------------------------------------------------------------
// popul: large populations of simultaneously live keys (no model lines: a list-based model of a million
// entries is out of reach; oracles on the real code only).  States that take 10^3 .. 10^6 distinct keys
// to reach: table growth past every power of two up to 2^20, the adaptive store's memory-pressure trigger,
// a sweep that finds tens of thousands of expired entries at once.
// ---------------------------------------------------------------------------------------
pub fn popul(seed: u64, n: usize, out: &mut Out) {
    let mut rng = Rng::new(seed);
    let rounds = 1 + n / 4;
    for round in 0..rounds {
        // the stores as a user builds them: library defaults, the server's defaults, a small and a zero capacity
        let cfgs: Vec<(Cfg, usize)> = vec![
            (Cfg::Periodic { cap: rng.pick(&[1000usize, 100_000, 8]), interval_ns: rng.pick(&[60_000_000_000u64, 300_000_000_000, 1_000_000_000]) }, 1_100_000),
            (Cfg::Prob { cap: rng.pick(&[1000usize, 100_000, 0]), modulus: rng.pick(&[1000u64, 10_000, 7]), ops: 0 }, 1_100_000),
            (Cfg::Adaptive { cap: rng.pick(&[1000usize, 8, 0]), min_ns: 1_000_000_000, max_ns: 300_000_000_000, max_ops: rng.pick(&[100_000usize, 1_000_000]) }, 70_000),
        ];
        for (cfg, nmax) in cfgs {
            let nmax = if round == 0 { nmax } else { nmax.min(70_000) };
            out.line(format!("note popul round {round} {} keys {nmax}", cfg_line(&cfg)), format!("note popul round {round} {} keys {nmax}", cfg_line(&cfg)));
            let mut sess = Session::new(&cfg);
            sess.store.0.borrow_mut().record = false;
            // every key: burst 1, one token per hour -> its state lives one hour; all of them are live at once
            let lim = Lim { b: 1, c: 1, p: 3600 };
            let t0 = wall_ns() + 1_000_000_000;
            let mut checkpoints: Vec<usize> = vec![1_000, 1_500, 1_791, 1_792, 1_793, 2_100, 4_096, 16_384, 32_000, 32_001, 40_000, 65_536, 65_537, 70_000, 131_072, 262_144, 524_288, 1_048_575, 1_048_576, 1_048_577, 1_100_000];
            checkpoints.retain(|c| *c <= nmax);
            let mut bad = false;
            let mut t = t0;
            let replay_of = |what: &str, i: usize| vec![cfg_line(&cfg), format!("# {i} distinct keys p<i> (burst 1, 1 per 3600 s) admitted once each from t = {t0} ns, 1 ns apart; then: {what}")];
            'fill: for i in 0..nmax {
                t = t0 + i as i64;
                let st = sess.call(&Rq { key: format!("p{i}"), lim, q: 1, now: t });
                sess.history.clear();
                match st.resp {
                    Resp::Ok { allowed: true, limit: 1, remaining: 0, .. } => {}
                    ref r => {
                        let tag = if matches!(r, Resp::Panic | Resp::Err(_)) { "C08" } else { "C02" };
                        out.violation(tag, format!("first request on never-seen key number {i} (with {i} other keys live) answered {} ({})", r.show(), cfg_line(&cfg)), replay_of("the first request on the next fresh key", i));
                        bad = true;
                        break 'fill;
                    }
                }
                if checkpoints.contains(&(i + 1)) {
                    // the key just admitted is exhausted: `remaining = 0` must be exact (C03), i.e. its state was stored
                    let st = sess.call(&Rq { key: format!("p{i}"), lim, q: 1, now: t });
                    if st.resp.allowed() != Some(false) {
                        out.violation("C03", format!("key number {i} was admitted with remaining 0, a second request at the same instant is answered {} ({}, {} keys live)", st.resp.show(), cfg_line(&cfg), i + 1), replay_of("a second request on the key admitted last", i + 1));
                        bad = true;
                        break 'fill;
                    }
                    // an old key is still limited (C06: a visible entry is never lost while the table grows)
                    let j = rng.below(i as u64 + 1) as usize;
                    let st = sess.call(&Rq { key: format!("p{j}"), lim, q: 1, now: t });
                    if st.resp.allowed() != Some(false) {
                        out.violation("C06", format!("key number {j} (burst 1, admitted {} ns ago, state lives an hour) is admitted again with {} keys live: answered {} ({})", i - j, i + 1, st.resp.show(), cfg_line(&cfg)), replay_of(&format!("a second request on key p{j}"), i + 1));
                        bad = true;
                        break 'fill;
                    }
                    sess.history.clear();
                    out.bump("popul_checkpoints");
                }
            }
            if bad {
                continue;
            }
            // everything expires; writes of fresh short-lived keys until each store's guaranteed cleanup point has
            // certainly passed (periodic / adaptive: a write after the deadline; probabilistic: N further writes)
            let (len0, _) = sess.store.len_cap();
            let later = t + 2 * 3600 * 1_000_000_000 + 400_000_000_000;
            let short = Lim { b: 1, c: 1000, p: 1 };
            let extra = match &cfg { Cfg::Prob { modulus, .. } => *modulus as usize + 2, _ => 3 };
            for k in 0..extra {
                let st = sess.call(&Rq { key: format!("z{k}"), lim: short, q: 1, now: later + k as i64 * 2_000_000 });
                sess.history.clear();
                if st.resp.allowed() != Some(true) {
                    out.violation("C02", format!("fresh key after the whole population has expired answered {} ({})", st.resp.show(), cfg_line(&cfg)), replay_of("2 h 7 min later, fresh keys z<k> (burst 1, 1000 per s)", nmax));
                }
            }
            let (len1, _) = sess.store.len_cap();
            if len1 > extra + 2 {
                out.violation("C07", format!("{len0} entries whose lifetime passed more than an hour ago: after the store's guaranteed cleanup point {len1} entries are still held ({}, {extra} writes of fresh keys after the deadline)", cfg_line(&cfg)), replay_of(&format!("2 h 7 min later, {extra} fresh keys z<k> (burst 1, 1000 per s) 2 ms apart; entries held afterwards: {len1}"), nmax));
            }
            out.add("popul_keys", nmax as u64);
            out.note_case(&format!("{}:{nmax}", cfg_line(&cfg)));
            if out.samples.len() < 3 {
                out.sample(format!("{} | {nmax} keys live at once, {len0} entries before expiry, {len1} after the cleanup point", cfg_line(&cfg)));
            }
        }
    }
}

// ---------------------------------------------------------------------------------------
// rate: C18
// ---------------------------------------------------------------------------------------
pub fn rate(seed: u64, n: usize, out: &mut Out) {
    let mut rng = Rng::new(seed);
    let ei = |c: i64, p: i64| -> Result<u128, ()> { catch_unwind(|| Rate::from_count_and_period(c, p).period().as_nanos()).map_err(|_| ()) };
    let mut check = |c: i64, p: i64, out: &mut Out| {
        let r = ei(c, p);
        let imp = match r {
            Ok(v) => v.to_string(),
            Err(_) => "panic".to_string(),
        };
        out.line(format!("ei {c} {p}"), imp.clone());
        out.bump("ei_points");
        let in_d = c >= 1 && p >= 1 && p <= 9_000_000 && (c as i128) <= p as i128 * 1_000_000_000;
        match r {
            Err(_) => out.violation("C18", format!("Rate::from_count_and_period({c},{p}) panicked"), vec![format!("ei {c} {p}")]),
            Ok(e) => {
                if in_d {
                    out.bump("ei_in_domain");
                    out.distinct.insert((c as u64).wrapping_mul(0x9E3779B97F4A7C15) ^ p as u64);
                    let pn = p as u128 * 1_000_000_000;
                    if !(e * c as u128 <= pn && pn < (e + 1) * c as u128) {
                        out.violation(
                            "C18",
                            format!("interval {} ns for count={} period={} s is not floor(period/count) = {}", e, c, p, pn / c as u128),
                            vec![format!("ei {c} {p}")],
                        );
                    }
                } else if c <= 0 || p <= 0 {
                    if e != u64::MAX as u128 * 1_000_000_000 {
                        out.violation("C18", format!("non-positive arguments ({c},{p}) gave {} ns, not the blocking rate", e), vec![format!("ei {c} {p}")]);
                    }
                }
            }
        }
    };
    // boundary lattice
    let cs: Vec<i64> = vec![i64::MIN, -1, 0, 1, 2, 3, 7, 10, 1000, 999_999_999, 1_000_000_000, 1_000_000_001, (1 << 31) - 1, 1 << 31, (1 << 32) + 1, (1 << 53) - 1, 1 << 53, (1 << 53) + 1, 8_999_999_999_999_999, 9_000_000_000_000_000, 9_000_000_000_000_001, i64::MAX];
    let ps: Vec<i64> = vec![i64::MIN, -1, 0, 1, 2, 3, 59, 60, 3600, 86400, 1_000_000, 8_999_999, 9_000_000, 9_000_001, 9_007_199, 9_007_200, 1 << 31, i64::MAX];
    for &c in &cs {
        for &p in &ps {
            check(c, p, out);
        }
    }
    // divisors and near-divisors of p*1e9, random points in D
    for _ in 0..n {
        let p = match rng.below(4) {
            0 => rng.range(1, 100),
            1 => rng.range(1, 9_000_000),
            2 => rng.pick(&[1i64, 60, 3600, 86400, 9_000_000]),
            _ => rng.range(8_000_000, 9_000_000),
        };
        let pn = p as i128 * 1_000_000_000;
        let c = match rng.below(5) {
            0 => rng.range(1, 1000),
            1 => {
                // near a divisor
                let d = rng.range(1, 1_000_000) as i128;
                let q = pn / d;
                (q + rng.range(-2, 2) as i128).clamp(1, pn) as i64
            }
            2 => rng.range(1, pn.min(i64::MAX as i128) as i64),
            3 => (pn - rng.range(0, 1000) as i128).max(1) as i64,
            _ => 1i64 << rng.below(62),
        };
        if (c as i128) <= pn {
            check(c, p, out);
        } else {
            check(c, p, out); // outside D: model and code must still agree
        }
    }
    // unit constructors
    let units: [(u64, fn(u64) -> Rate); 4] = [(1, Rate::per_second), (60, Rate::per_minute), (3600, Rate::per_hour), (86400, Rate::per_day)];
    let mut ns: Vec<u64> = vec![1, 2, 3, 7, 59, 60, 61, 999, 1000, 1001, 999_999_999, 1_000_000_000, 1_000_000_001, (1 << 31) - 1, 1 << 31, (1 << 32) - 2, (1 << 32) - 1];
    for _ in 0..(n / 10).max(50) {
        ns.push(rng.range(1, (1i64 << 32) - 1) as u64);
    }
    for (k, f) in units.iter() {
        for &nn in &ns {
            let r = catch_unwind(|| f(nn).period().as_nanos());
            let imp = match r {
                Ok(v) => v.to_string(),
                Err(_) => "panic".into(),
            };
            out.line(format!("unit {k} {nn}"), imp.clone());
            out.bump("unit_points");
            let genr = ei(nn as i64, *k as i64);
            if r.is_err() || genr.is_err() || r.as_ref().ok() != genr.as_ref().ok() {
                out.violation(
                    "C18",
                    format!("unit constructor for {k} s with count {nn} gives {imp}, general constructor gives {:?}", genr),
                    vec![format!("unit {k} {nn}"), format!("ei {nn} {k}")],
                );
            }
        }
    }
    out.sample("ei 100 60 -> 600000000".into());
}

// ---------------------------------------------------------------------------------------
// replay: re-execute `cfg` + `rl` lines and run every static oracle
// ---------------------------------------------------------------------------------------
pub fn replay(file: &str, out: &mut Out) {
    let text = std::fs::read_to_string(file).expect("replay file");
    let mut cfg: Option<Cfg> = None;
    let mut sess: Option<Session> = None;
    let mut steps: Vec<Step> = vec![];
    let mut raw_store: Option<Shared> = None;
    for line in text.lines() {
        let line = line.split('#').next().unwrap().trim();
        if line.is_empty() {
            continue;
        }
        let t: Vec<&str> = line.split_whitespace().collect();
        match t[0] {
            "cfg" => {
                cfg = parse_cfg(line);
                let c = cfg.clone().expect("cfg line");
                let s = Session::new(&c);
                raw_store = Some(s.store.clone());
                sess = Some(s);
            }
            "rl" => {
                let key = String::from_utf8(unhex(t[1])).unwrap();
                let g = |i: usize| -> i64 { t[i].parse().unwrap() };
                let rq = Rq { key, lim: Lim { b: g(2), c: g(3), p: g(4) }, q: g(5), now: g(6) };
                let st = sess.as_mut().expect("cfg first").call(&rq);
                println!("{} -> {}", st.op_line(), st.imp_line());
                steps.push(st);
            }
            "sget" | "ssetnx" | "scas" => {
                let mut h = raw_store.clone().expect("cfg first");
                let key = String::from_utf8(unhex(t[1])).unwrap();
                let r = match t[0] {
                    "sget" => format!("{:?}", h.get(&key, ns_to_time(t[2].parse().unwrap()))),
                    "ssetnx" => format!("{:?}", h.set_if_not_exists_with_ttl(&key, t[2].parse().unwrap(), Duration::from_nanos(t[3].parse().unwrap()), ns_to_time(t[4].parse().unwrap()))),
                    _ => format!("{:?}", h.compare_and_swap_with_ttl(&key, t[2].parse().unwrap(), t[3].parse().unwrap(), Duration::from_nanos(t[4].parse().unwrap()), ns_to_time(t[5].parse().unwrap()))),
                };
                println!("{line} -> {r}");
            }
            "ei" => {
                let r = catch_unwind(AssertUnwindSafe(|| Rate::from_count_and_period(t[1].parse().unwrap(), t[2].parse().unwrap()).period().as_nanos()));
                println!("{line} -> {r:?}");
            }
            _ => println!("(not executable here) {line}"),
        }
    }
    if let Some(cfg) = cfg {
        if !steps.is_empty() {
            c01_windows(&cfg, &steps, out);
            bucket_and_fields(&cfg, &steps, out);
            c17_no_error(&cfg, &steps, out);
            for s in &steps {
                judge_c08(&cfg, s, false, out);
            }
            if let Some(v) = c17_window(&steps) {
                println!("C17 window bound exceeded: {v:?}");
            }
        }
    }
}
