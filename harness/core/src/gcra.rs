// Driving the real `RateLimiter` and generating structured histories.
use crate::stores::{Cfg, Shared};
use crate::util::{hex, ns_to_time, wall_ns, Out, Rng};
use std::panic::{catch_unwind, AssertUnwindSafe};
use throttlecrab::{CellError, RateLimiter};

#[derive(Clone, Copy, Debug, PartialEq, Eq)]
pub struct Lim {
    pub b: i64,
    pub c: i64,
    pub p: i64,
}

impl Lim {
    /// exact quotient floor(p*1e9/c): the emission interval the properties talk about
    pub fn e(&self) -> i128 {
        (self.p as i128 * 1_000_000_000) / self.c as i128
    }
    pub fn tau(&self) -> i128 {
        self.e() * (self.b as i128 - 1)
    }
    pub fn in_d(&self) -> bool {
        self.b >= 1
            && self.c >= 1
            && self.p >= 1
            && self.p <= 9_000_000
            && self.e() >= 1
            && self.e() * self.b as i128 <= (1i128 << 60)
    }
}

#[derive(Clone, Debug)]
pub struct Rq {
    pub key: String,
    pub lim: Lim,
    pub q: i64,
    pub now: i64,
}

#[derive(Clone, Debug, PartialEq, Eq)]
pub enum Resp {
    Ok { allowed: bool, limit: i64, remaining: i64, reset_ns: u128, retry_ns: u128 },
    Err(&'static str),
    Panic,
}

impl Resp {
    pub fn show(&self) -> String {
        match self {
            Resp::Ok { allowed, limit, remaining, reset_ns, retry_ns } => {
                format!("ok {allowed} {limit} {remaining} {reset_ns} {retry_ns}")
            }
            Resp::Err(k) => format!("err {k}"),
            Resp::Panic => "panic".into(),
        }
    }
    pub fn allowed(&self) -> Option<bool> {
        match self {
            Resp::Ok { allowed, .. } => Some(*allowed),
            _ => None,
        }
    }
}

pub struct Session {
    pub limiter: RateLimiter<Shared>,
    pub store: Shared,
    pub cfg: Cfg,
    /// the request lines executed on this session so far (the most recent 800), for replays
    pub history: Vec<String>,
}

#[derive(Clone, Debug)]
pub struct Step {
    pub rq: Rq,
    pub resp: Resp,
    pub trace: Vec<String>,
    pub bit: Option<bool>,
}

impl Step {
    pub fn op_line(&self) -> String {
        let bit = match self.bit {
            Some(true) => " 1",
            Some(false) => " 0",
            None => "",
        };
        format!(
            "rl {} {} {} {} {} {}{}",
            hex(self.rq.key.as_bytes()),
            self.rq.lim.b,
            self.rq.lim.c,
            self.rq.lim.p,
            self.rq.q,
            self.rq.now,
            bit
        )
    }
    pub fn imp_line(&self) -> String {
        let tr: String = self.trace.iter().map(|o| format!(" {o};")).collect();
        format!("{} |{}", self.resp.show(), tr)
    }
}

impl Session {
    pub fn new(cfg: &Cfg) -> Session {
        let store = Shared::new(cfg);
        Session { limiter: RateLimiter::new(store.clone()), store, cfg: cfg.clone(), history: vec![] }
    }

    pub fn call(&mut self, rq: &Rq) -> Step {
        let bit = self.store.pressure_bit();
        let now = ns_to_time(rq.now);
        let lim = rq.lim;
        let r = catch_unwind(AssertUnwindSafe(|| {
            self.limiter.rate_limit(&rq.key, lim.b, lim.c, lim.p, rq.q, now)
        }));
        let resp = match r {
            Ok(Ok((allowed, res))) => Resp::Ok {
                allowed,
                limit: res.limit,
                remaining: res.remaining,
                reset_ns: res.reset_after.as_nanos(),
                retry_ns: res.retry_after.as_nanos(),
            },
            Ok(Err(CellError::NegativeQuantity(_))) => Resp::Err("neg"),
            Ok(Err(CellError::InvalidRateLimit)) => Resp::Err("invalid"),
            Ok(Err(CellError::Internal(_))) => Resp::Err("internal"),
            Err(_) => Resp::Panic,
        };
        let trace = self.store.take_trace_vec();
        let st = Step { rq: rq.clone(), resp, trace, bit };
        if self.history.len() >= 800 {
            self.history.drain(..400);
        }
        self.history.push(format!("{}    # -> {}", st.op_line(), st.resp.show()));
        st
    }
}

/// a panic inside `rate_limit` (or inside a store operation it performs) is a violation of C08 whatever the
/// mode; the replay is the session's configuration and its requests so far, the panicking one last
pub fn report_panic(sess: &Session, st: &Step, out: &mut Out) {
    if st.resp == Resp::Panic {
        let mut lines = vec![crate::oracles::cfg_line(&sess.cfg)];
        lines.extend(sess.history.iter().cloned());
        out.violation(
            "C08",
            format!(
                "rate_limit panicked for burst={} count={} period={} quantity={} now={} ({}, request {} of its session)",
                st.rq.lim.b, st.rq.lim.c, st.rq.lim.p, st.rq.q, st.rq.now, crate::oracles::cfg_line(&sess.cfg), sess.history.len()
            ),
            lines,
        );
    }
}

/// limits inside the normal domain D
pub fn gen_lim_d(rng: &mut Rng) -> Lim {
    loop {
        let l = match rng.below(12) {
            10 | 11 => {
                // exact quotients: count divides period*1e9 (where float rounding slips show first)
                let p = rng.range(1, 120);
                let pn = p as i128 * 1_000_000_000;
                let mut c = rng.pick(&[5i64, 10, 20, 25, 40, 50, 64, 125, 160, 225, 320, 450, 640, 900, 1280, 1800, 3, 7, 11]);
                if pn % c as i128 != 0 {
                    c = rng.pick(&[5i64, 10, 20, 40, 50]);
                }
                Lim { b: rng.pick(&[1i64, 1, 2, 3]), c, p }
            }
            0..=4 => Lim {
                b: rng.pick(&[1i64, 1, 2, 3, 5, 10]),
                c: rng.range(1, 20),
                p: rng.range(1, 10),
            },
            5 => {
                // sub-microsecond interval
                let p = rng.range(1, 5);
                Lim { b: rng.range(1, 1000), c: p * rng.range(1_000_000, 1_000_000_000), p }
            }
            6 => {
                // long period
                let p = rng.range(100_000, 9_000_000);
                let c = rng.range(1, 50);
                let e = (p as i128 * 1_000_000_000) / c as i128;
                let bmax = ((1i128 << 60) / e).max(1) as i64;
                Lim { b: rng.range(1, bmax.min(200)), c, p }
            }
            7 => {
                // huge burst, tiny interval
                let c = rng.range(100_000_000, 1_000_000_000);
                let e = 1_000_000_000i128 / c as i128;
                let bmax = ((1i128 << 60) / e.max(1)) as i64;
                let b = rng.pick(&[
                    (1i64 << 31) - 1,
                    1 << 31,
                    (1 << 32) - 1,
                    1 << 32,
                    (1 << 32) + 1,
                    (1 << 32) + 2,
                    bmax,
                    bmax - 1,
                ]);
                Lim { b: b.min(bmax), c, p: 1 }
            }
            8 => Lim { b: rng.range(1, 100), c: rng.range(1, 100_000), p: rng.range(1, 3600) },
            _ => {
                // E exactly 1ns .. few ns
                let p = rng.range(1, 3);
                Lim { b: rng.range(1, 50), c: p * 1_000_000_000 / rng.range(1, 4), p }
            }
        };
        if l.in_d() {
            return l;
        }
    }
}

/// valid limits OUTSIDE the normal domain: intervals of years to centuries, so that tolerance,
/// lifetime and TAT arithmetic saturate (the store is asked for a lifetime of i64::MAX ns)
pub fn gen_lim_extreme(rng: &mut Rng) -> Lim {
    Lim {
        b: rng.pick(&[1i64, 2, 3, 5, 1000, i64::MAX]),
        c: rng.pick(&[1i64, 1, 2, 3]),
        p: rng.pick(&[2_500_000_000i64, 4_611_686_019, 9_223_372_037, 1 << 40, i64::MAX, 30_000_000_000]),
    }
}

pub fn gen_lim_invalid(rng: &mut Rng) -> (Lim, i64) {
    let base = gen_lim_d(rng);
    let bad = [0i64, -1, i64::MIN, -1_000_000_007];
    match rng.below(8) {
        5 => {
            // several fields invalid at once (sign combinations, products that look positive)
            let mut l = base;
            if rng.chance(1, 2) {
                l.b = rng.pick(&bad);
            }
            l.c = rng.pick(&bad);
            l.p = rng.pick(&bad);
            (l, rng.pick(&[1i64, 0, 1, 2]))
        }
        6 => (Lim { c: rng.pick(&[-1i64, -5, i64::MIN]), p: rng.pick(&[-1i64, -50, i64::MIN]), ..base }, 1),
        7 => (Lim { b: rng.pick(&[-1i64, -2]), c: rng.pick(&[-1i64, -3]), ..base }, rng.pick(&[1i64, -1])),
        0 => (Lim { b: rng.pick(&bad), ..base }, 1),
        1 => (Lim { c: rng.pick(&bad), ..base }, 1),
        2 => (Lim { p: rng.pick(&bad), ..base }, 1),
        3 => (base, rng.pick(&[-1i64, i64::MIN, -5])),
        _ => (Lim { b: 0, c: 0, p: 0 }, rng.pick(&[-1i64, 0, 1])),
    }
}

/// a "sibling" of `l`: limits in D that agree with `l` in all fields but one, the differing field off by
/// one, doubled, swapped between the standard periods, or off by a multiple of 2^32 (what a memo keyed
/// on a subset, a truncation or a hash of the limits would confuse with `l`)
pub fn sibling(rng: &mut Rng, l: &Lim) -> Lim {
    for _ in 0..12 {
        let big = rng.pick(&[1i64 << 32, 1 << 33, 3 << 32]);
        let c = match rng.below(12) {
            0 => Lim { p: l.p + 1, ..*l },
            1 => Lim { p: (l.p - 1).max(1), ..*l },
            2 => Lim { p: l.p.saturating_mul(rng.pick(&[2i64, 60, 3600])), ..*l },
            3 => Lim { p: rng.pick(&[1i64, 60, 3600, 86400]), ..*l },
            4 => Lim { c: l.c + 1, ..*l },
            5 => Lim { c: l.c.saturating_mul(2), ..*l },
            6 => Lim { c: l.c.saturating_add(big), ..*l },
            7 => Lim { c: l.c.saturating_add(big), p: l.p.max(rng.pick(&[60i64, 3600, 86400])), ..*l },
            8 => Lim { b: l.b + 1, ..*l },
            9 => Lim { b: l.b.saturating_mul(2), ..*l },
            10 => Lim { b: l.b.saturating_add(big), ..*l },
            _ => Lim { b: l.c, c: l.b, ..*l },
        };
        if c.in_d() && c != *l {
            return c;
        }
    }
    *l
}

/// a request the limiter must REJECT that nevertheless carries plausible values in its other fields:
/// a sibling of `l` with one invalid field, or valid sibling limits with a negative quantity
pub fn gen_invalid_near(rng: &mut Rng, l: &Lim) -> (Lim, i64) {
    let s = if rng.chance(1, 3) { *l } else { sibling(rng, l) };
    match rng.below(5) {
        0 => (Lim { b: rng.pick(&[0i64, -1]), ..s }, 1),
        1 => (s, rng.pick(&[-1i64, -2, i64::MIN])),
        2 => (Lim { c: rng.pick(&[0i64, -1]), ..s }, 1),
        3 => (Lim { p: rng.pick(&[0i64, -1]), ..s }, 1),
        _ => (Lim { b: 0, ..s }, rng.pick(&[0i64, -1])),
    }
}

pub const KEY_POOL: &[&str] = &[
    "", "k", "k\0", "k1", "k2", "ключ", "键", "user:1", "user:10", "K", " k", "k ", "\u{7f}", "a\nb",
];

pub fn gen_key(rng: &mut Rng, i: usize) -> String {
    if rng.chance(1, 12) {
        let n = rng.pick(&[255usize, 256, 257, 1000, 1000, 4096, 65536]);
        let mut s = "L".repeat(n);
        s.push_str(&i.to_string());
        s
    } else {
        format!("{}#{}", KEY_POOL[rng.below(KEY_POOL.len() as u64) as usize], i)
    }
}

#[derive(Clone, Debug)]
pub struct HistParams {
    pub steps: usize,
    pub nkeys: usize,
    pub monotone: bool,
    pub noise_pct: u64,
    pub invalid_pct: u64,
    pub mixed_pct: u64,
    pub zero_pct: u64,
    /// percentage of keys of interest that get valid limits outside D (saturating arithmetic)
    pub extreme_pct: u64,
}

pub fn pick_base(rng: &mut Rng) -> i64 {
    match rng.below(4) {
        0 | 1 => wall_ns() + rng.range(0, 2_000_000_000),
        2 => 1_000_000_000_000_000_000 + rng.range(0, 1_000_000_000),
        _ => rng.pick(&[4_000_000_000_000_000_000i64, 1, 1_000_000_000, 4_102_444_800_000_000_000 - 1_000_000_000_000_000]),
    }
}

fn gen_gap(rng: &mut Rng, lim: &Lim, next_cleanup_in: Option<i128>, expiry_in: Option<i128>) -> i64 {
    let e = lim.e();
    let tau = lim.tau();
    let pad = tau.max(e);
    let be = e * lim.b as i128;
    let k = rng.range(2, lim.b.min(50) + 2) as i128;
    let mut cands: Vec<i128> = vec![
        0, 0, 0, 1, e - 1, e, e + 1, 2 * e, k * e, k * e - 1, tau - 1, tau, tau + 1, pad - 1, pad, pad + 1,
        tau + e, be - 1, be, be + 1, 2 * tau, 2 * be, 2 * be + 1, e / 2, e / 3 + 1,
        rng.range(0, (e.min(1 << 40)) as i64) as i128,
        rng.range(0, (be.min(1 << 50)) as i64) as i128,
    ];
    if let Some(d) = next_cleanup_in {
        if d >= 0 {
            cands.extend_from_slice(&[d - 1, d, d + 1, d, d + 1]);
        }
    }
    if let Some(d) = expiry_in {
        // the instant the key's stored state expires (last write + the lifetime it asked for)
        if d >= 0 {
            cands.extend_from_slice(&[d - 1, d, d, d, d + 1]);
        }
    }
    let g = cands[rng.below(cands.len() as u64) as usize];
    g.clamp(0, 1i128 << 61) as i64
}

fn gen_qty(rng: &mut Rng, lim: &Lim, zero_pct: u64) -> i64 {
    if rng.below(100) < zero_pct {
        return 0;
    }
    let b = lim.b;
    rng.pick(&[1i64, 1, 1, 1, 1, 2, 2, 3, b - 1, b, b, b + 1, b / 2 + 1, 2 * b, i64::MAX, 1 << 40])
        .max(0)
}

/// Generate and execute one history on `sess`.  Keys of interest have fixed limits in D
/// (unless `mixed_pct` chooses other limits for a request); noise keys are fresh keys.
pub fn run_history(rng: &mut Rng, sess: &mut Session, hp: &HistParams, out: &mut Out) -> (Vec<Step>, Vec<(String, Lim)>) {
    let mut keys: Vec<(String, Lim)> = Vec::with_capacity(hp.nkeys);
    for i in 0..hp.nkeys {
        let lim = if rng.below(100) < hp.extreme_pct {
            gen_lim_extreme(rng)
        } else if i > 0 && keys[0].1.in_d() && rng.chance(1, 3) {
            // limits that differ from the first key's in exactly one field
            out.bump("keys_with_sibling_limits");
            sibling(rng, &keys[0].1)
        } else {
            gen_lim_d(rng)
        };
        // one key in four (after the first) is a near-identical twin of the first key: it differs only by trailing
        // NUL bytes / a line break / a blank, by letter case or by the Unicode composition of a character - byte-for-byte
        // different keys are different keys, whatever their length
        let key = if i > 0 && rng.chance(1, 4) {
            let k0 = keys[0].0.clone();
            out.bump("keys_near_identical_twins");
            match rng.below(8) {
                0 => format!("{k0}\0"),
                1 => format!("{k0}\0\0\0"),
                2 => format!("{k0}\n"),
                3 => format!("{k0} "),
                4 => format!(" {k0}"),
                5 if k0.to_uppercase() != k0 => k0.to_uppercase(),
                6 => format!("{k0}\u{301}"),
                _ => format!("{k0}\0\0\0\0\0\0\0"),
            }
        } else {
            gen_key(rng, i)
        };
        let key = if keys.iter().any(|(k, _)| *k == key) { gen_key(rng, i) } else { key };
        keys.push((key, lim));
    }
    // "hot expiring key" histories (one in ten): the first key gets a tiny burst and a short emission interval and
    // most of its requests arrive exactly when (or 1 ns after) its stored state has expired, so that dozens of writes
    // land on expired-but-not-yet-swept entries between two cleanups - the state in which the stores' bookkeeping of
    // expired entries (adaptive store: `expired_count`, ratio trigger, interval adaptation) is exercised
    let hot = rng.chance(1, 7);
    let n_steps = if hot { hp.steps.max(if hp.monotone { 220 } else { 500 }) } else { hp.steps };
    if hot {
        let p = rng.range(1, 3);
        let e_ns = rng.pick(&[1i64, 7, 1_000, 50_000, 1_000_000]);
        let l = Lim { b: rng.pick(&[1i64, 1, 2]), c: p * (1_000_000_000 / e_ns), p };
        if l.in_d() {
            keys[0].1 = l;
            out.bump("hist_hot_expiring_key_sessions");
        }
    }
    let keys = keys;
    let mut now = pick_base(rng);
    let mut latest = now;
    let mut steps: Vec<Step> = Vec::with_capacity(hp.steps);
    let mut noise_ctr = 0usize;
    let mut expiry: std::collections::HashMap<String, i128> = std::collections::HashMap::new();
    for _ in 0..n_steps {
        let roll = rng.below(100);
        let next_in = sess.store.field("next").map(|n| n - latest as i128);
        let rq = if roll < hp.noise_pct {
            noise_ctr += 1;
            let lim = if rng.chance(2, 5) && keys[0].1.in_d() {
                out.bump("req_noise_sibling_limits");
                let ki = rng.below(keys.len() as u64) as usize;
                sibling(rng, &keys[ki].1)
            } else {
                gen_lim_d(rng)
            };
            let lim = if lim.in_d() { lim } else { gen_lim_d(rng) };
            let gap = gen_gap(rng, &lim, next_in, None);
            now = advance(rng, hp, &mut latest, now, gap);
            out.bump("req_noise");
            Rq { key: format!("n{noise_ctr}"), lim, q: gen_qty(rng, &lim, hp.zero_pct), now }
        } else if roll < hp.noise_pct + hp.invalid_pct {
            let (lim, q) = if rng.chance(1, 2) && keys[0].1.in_d() {
                out.bump("req_invalid_near_sibling");
                let ki = rng.below(keys.len() as u64) as usize;
                gen_invalid_near(rng, &keys[ki].1)
            } else {
                gen_lim_invalid(rng)
            };
            let key = if rng.chance(1, 2) && !keys.is_empty() {
                keys[rng.below(keys.len() as u64) as usize].0.clone()
            } else {
                noise_ctr += 1;
                format!("n{noise_ctr}")
            };
            let gap = rng.pick(&[0i64, 1, 1000, 1_000_000_000]);
            now = advance(rng, hp, &mut latest, now, gap);
            out.bump("req_invalid");
            Rq { key, lim, q, now }
        } else {
            let (key, klim) = if hot && rng.chance(9, 10) { keys[0].clone() } else { keys[rng.below(keys.len() as u64) as usize].clone() };
            let lim = if rng.below(100) < hp.mixed_pct {
                if rng.chance(1, 2) && klim.in_d() { sibling(rng, &klim) } else { gen_lim_d(rng) }
            } else {
                klim
            };
            let exp_in = expiry.get(&key).map(|e| *e - latest as i128);
            let mut gap = gen_gap(rng, &klim, next_in, exp_in);
            if hot && key == keys[0].0 && rng.chance(4, 5) {
                if let Some(d) = exp_in {
                    if d >= 0 {
                        gap = (d + rng.pick(&[0i64, 0, 1]) as i128).clamp(0, 1i128 << 61) as i64;
                    }
                }
            }
            now = advance(rng, hp, &mut latest, now, gap);
            let q = if hot && key == keys[0].0 && rng.chance(3, 4) { 1 } else { gen_qty(rng, &lim, hp.zero_pct) };
            if q == 0 {
                out.bump("req_zero");
            } else if q > lim.b {
                out.bump("req_overburst");
            } else {
                out.bump("req_normal");
            }
            Rq { key, lim, q, now }
        };
        if rng.chance(1, 60) {
            sess.store.relocate();
            out.bump("store_relocations");
        }
        let st = sess.call(&rq);
        if st.resp == Resp::Panic {
            // the store may be left half-updated: report and end this history
            report_panic(sess, &st, out);
            steps.push(st);
            break;
        }
        for op in &st.trace {
            // remember when the state written for this key expires
            let t: Vec<&str> = op.split(' ').collect();
            let ttl: Option<i128> = match t[0] {
                "cas" => t[4].parse().ok(),
                "setnx" => t[3].parse().ok(),
                _ => None,
            };
            if let Some(ttl) = ttl {
                expiry.insert(rq.key.clone(), rq.now as i128 + ttl);
            }
        }
        match &st.resp {
            Resp::Ok { allowed: true, .. } => out.bump("resp_allowed"),
            Resp::Ok { allowed: false, .. } => out.bump("resp_denied"),
            Resp::Err(_) => out.bump("resp_err"),
            Resp::Panic => out.bump("resp_panic"),
        }
        steps.push(st);
    }
    (steps, keys)
}

fn advance(rng: &mut Rng, hp: &HistParams, latest: &mut i64, now: i64, gap: i64) -> i64 {
    const T_MAX: i64 = 4_102_444_800_000_000_000; // 2100-01-01
    if hp.monotone {
        let n = now.saturating_add(gap).min(T_MAX);
        *latest = n;
        n
    } else {
        // arbitrary order: sometimes forward, sometimes a step back from the latest seen
        let n = match rng.below(10) {
            0..=3 => latest.saturating_add(gap).min(T_MAX),
            4..=5 => (*latest - rng.pick(&[1i64, 1000, 1_000_000, 50_000_000, 3_600_000_000_001, 7_200_000_000_000, 86_400_000_000_000])).max(0),
            6..=7 => (*latest - gap).max(0),
            8 => (now - rng.pick(&[0i64, 1, 1_000_000_000, 3_000_000_000])).max(0),
            _ => now,
        };
        if n > *latest {
            *latest = n;
        }
        n
    }
}

/// Reference token bucket (the specification of C02/C03), exact integers.
#[derive(Clone, Debug)]
pub struct RefBucket {
    pub lvl: i128,
    pub at: i128,
    pub seen: bool,
}

impl RefBucket {
    pub fn new() -> Self {
        RefBucket { lvl: 0, at: 0, seen: false }
    }
    /// returns (admitted, remaining tokens, level after)
    pub fn step(&mut self, lim: &Lim, t: i128, q: i128) -> (bool, i128, i128) {
        let e = lim.e();
        let be = e * lim.b as i128;
        let lvl = if self.seen { be.min(self.lvl + (t - self.at)) } else { be };
        let admit = q * e <= lvl;
        let lvl2 = if admit { lvl - q * e } else { lvl };
        self.lvl = lvl2;
        self.at = t;
        self.seen = true;
        (admit, lvl2 / e, lvl2)
    }
}
