// tcv-core: correspondence (leg M) case generation + implementation-side oracles (leg O)
// for the library properties C01-C08, C17, C18.
//
//   tcv-core <mode> --seed S --n N --out DIR          generate / execute / judge
//   tcv-core replay --file F                          re-execute a replay file
//
// Writes DIR/<mode>.ops (driver request lines), DIR/<mode>.imp (what the real code
// answered), DIR/<mode>.viol (violations of the property on the real code, with replays),
// DIR/<mode>.stats.json.
mod gcra;
mod modes;
mod oracles;
mod stores;
mod util;

use std::io::Write;
use util::{json_escape, Out};

fn main() {
    // keep panics of the code under test quiet: they are caught and reported as outcomes
    std::panic::set_hook(Box::new(|_| {}));
    let args: Vec<String> = std::env::args().collect();
    if args.len() < 2 {
        eprintln!("usage: tcv-core <mode> [--seed S] [--n N] [--out DIR] [--file F]");
        std::process::exit(2);
    }
    let mode = args[1].clone();
    let mut seed: u64 = std::env::var("VERIF_SEED").ok().and_then(|s| s.parse().ok()).unwrap_or(1);
    let mut n: usize = 100;
    let mut outdir = String::from(".");
    let mut file = String::new();
    let mut i = 2;
    while i < args.len() {
        match args[i].as_str() {
            "--seed" => {
                seed = args[i + 1].parse().unwrap();
                i += 1;
            }
            "--n" => {
                n = args[i + 1].parse().unwrap();
                i += 1;
            }
            "--out" => {
                outdir = args[i + 1].clone();
                i += 1;
            }
            "--file" => {
                file = args[i + 1].clone();
                i += 1;
            }
            _ => {}
        }
        i += 1;
    }
    let mut out = Out::default();
    match mode.as_str() {
        "hist" => modes::hist(seed, n, &mut out),
        "probe" => modes::probe(seed, n, &mut out),
        "insert" => modes::insert(seed, n, &mut out),
        "iso" => modes::iso(seed, n, &mut out),
        "storeops" => modes::storeops(seed, n, &mut out),
        "reclaim" => modes::reclaim(seed, n, &mut out),
        "lattice" => modes::lattice(seed, n, &mut out),
        "regress" => modes::regress(seed, n, &mut out),
        "rate" => modes::rate(seed, n, &mut out),
        "popul" => modes::popul(seed, n, &mut out),
        "replay" => modes::replay(&file, &mut out),
        _ => {
            eprintln!("unknown mode {mode}");
            std::process::exit(2);
        }
    }
    std::fs::create_dir_all(&outdir).unwrap();
    let w = |name: &str, lines: &[String]| {
        let mut f = std::io::BufWriter::new(std::fs::File::create(format!("{outdir}/{mode}.{name}")).unwrap());
        for l in lines {
            f.write_all(l.as_bytes()).unwrap();
            f.write_all(b"\n").unwrap();
        }
    };
    w("ops", &out.ops);
    w("imp", &out.imp);
    let mut v = vec![];
    for (p, what, replay) in &out.viol {
        v.push(format!("VIOL {p} {what}"));
        for l in replay {
            v.push(format!("  {l}"));
        }
        v.push("END".into());
    }
    w("viol", &v);
    let mut s = String::from("{");
    s.push_str(&format!("\"mode\":\"{mode}\",\"seed\":{seed},\"n\":{n},\"lines\":{},\"distinct\":{},", out.ops.len(), out.distinct.len()));
    s.push_str("\"stats\":{");
    s.push_str(&out.stats.iter().map(|(k, v)| format!("\"{}\":{}", json_escape(k), v)).collect::<Vec<_>>().join(","));
    s.push_str("},\"samples\":[");
    s.push_str(&out.samples.iter().map(|x| format!("\"{}\"", json_escape(x))).collect::<Vec<_>>().join(","));
    s.push_str("]}");
    std::fs::write(format!("{outdir}/{mode}.stats.json"), s).unwrap();
    for (p, what, _) in &out.viol {
        println!("impl-violation {p}: {what}");
    }
}
