// The three real stores behind one recording wrapper.  The wrapper is what
// `RateLimiter::new` owns; the harness keeps a second handle to read the trace and the
// snapshot hook.
use crate::util::{hex, Rng};
use std::cell::RefCell;
use std::rc::Rc;
use std::time::{Duration, SystemTime, UNIX_EPOCH};
use throttlecrab::{AdaptiveStore, PeriodicStore, ProbabilisticStore, Store};

#[derive(Clone, Debug)]
pub enum Cfg {
    Periodic { cap: usize, interval_ns: u64 },
    Adaptive { cap: usize, min_ns: u64, max_ns: u64, max_ops: usize },
    /// `ops`: the operation counter the store starts with (state after that many writes)
    Prob { cap: usize, modulus: u64, ops: u64 },
}

impl Cfg {
    pub fn describe(&self) -> String {
        format!("{self:?}")
    }
    pub fn random(rng: &mut Rng) -> Cfg {
        let cap = rng.pick(&[0usize, 1, 8, 100, 1000]);
        match rng.below(3) {
            0 => Cfg::Periodic {
                cap,
                interval_ns: rng.pick(&[0u64, 1, 1_000, 1_000_000_000, 60_000_000_000]),
            },
            1 => {
                let (min_ns, max_ns) = rng.pick(&[
                    (1_000_000_000u64, 300_000_000_000u64),
                    (0, 0),
                    (1, 2),
                    (10_000_000_000, 1_000_000_000), // min > max
                    (1_000_000, 1_000_000_000),
                ]);
                Cfg::Adaptive {
                    cap,
                    min_ns,
                    max_ns,
                    max_ops: rng.pick(&[0usize, 1, 2, 7, 60, 1000, 100_000, 100_000]),
                }
            }
            _ => Cfg::Prob {
                cap,
                modulus: rng.pick(&[0u64, 1, 1, 2, 3, 7, 1000]),
                ops: 0,
            },
        }
    }
    /// a configuration of the same kind that never sweeps on its own (used as the
    /// "never forgets physically" reference for C17)
    pub fn never_sweeps() -> Cfg {
        Cfg::Prob { cap: 100, modulus: 0, ops: 0 }
    }
}

pub enum Inner {
    P(PeriodicStore),
    A(AdaptiveStore),
    R(ProbabilisticStore),
}

pub struct State {
    /// boxed so that the store can be MOVED to another address while it holds entries (`relocate`)
    pub inner: Box<Inner>,
    pub trace: Vec<String>,
    pub record: bool,
}

#[derive(Clone)]
pub struct Shared(pub Rc<RefCell<State>>);

fn t_ns(t: SystemTime) -> i128 {
    match t.duration_since(UNIX_EPOCH) {
        Ok(d) => d.as_nanos() as i128,
        Err(e) => -(e.duration().as_nanos() as i128),
    }
}

fn show_opt(v: &Option<i64>) -> String {
    match v {
        None => "none".into(),
        Some(v) => format!("some {v}"),
    }
}

impl Shared {
    pub fn new(cfg: &Cfg) -> Shared {
        let inner = match cfg {
            Cfg::Periodic { cap, interval_ns } => Inner::P(
                PeriodicStore::builder()
                    .capacity(*cap)
                    .cleanup_interval(Duration::from_nanos(*interval_ns))
                    .build(),
            ),
            Cfg::Adaptive { cap, min_ns, max_ns, max_ops } => Inner::A(
                AdaptiveStore::builder()
                    .capacity(*cap)
                    .min_interval(Duration::from_nanos(*min_ns))
                    .max_interval(Duration::from_nanos(*max_ns))
                    .max_operations(*max_ops)
                    .build(),
            ),
            Cfg::Prob { cap, modulus, ops } => {
                let mut st = ProbabilisticStore::builder()
                    .capacity(*cap)
                    .cleanup_probability(*modulus)
                    .build();
                if *ops != 0 {
                    st.verif_set_operations_count(*ops);
                }
                Inner::R(st)
            }
        };
        Shared(Rc::new(RefCell::new(State { inner: Box::new(inner), trace: vec![], record: true })))
    }
    /// move the store, entries and all, to a different memory address (Rust values may be moved at any time;
    /// nothing about a store may depend on where it lives)
    pub fn relocate(&self) {
        let mut st = self.0.borrow_mut();
        let mut fresh: Box<Inner> = Box::new(Inner::R(ProbabilisticStore::builder().capacity(0).build()));
        std::mem::swap(&mut *fresh, &mut *st.inner);
        st.inner = fresh; // the old allocation (now holding the placeholder) is freed after the new one exists
    }
    pub fn snapshot(&self) -> String {
        match &*self.0.borrow().inner {
            Inner::P(s) => s.verif_snapshot(),
            Inner::A(s) => s.verif_snapshot(),
            Inner::R(s) => s.verif_snapshot(),
        }
    }
    pub fn sched(&self) -> String {
        match &*self.0.borrow().inner {
            Inner::P(s) => s.verif_sched_state(),
            Inner::A(s) => s.verif_sched_state(),
            Inner::R(s) => s.verif_sched_state(),
        }
    }
    pub fn len_cap(&self) -> (usize, usize) {
        match &*self.0.borrow().inner {
            Inner::P(s) => s.verif_len_capacity(),
            Inner::A(s) => s.verif_len_capacity(),
            Inner::R(s) => s.verif_len_capacity(),
        }
    }
    pub fn is_adaptive(&self) -> bool {
        matches!(*self.0.borrow().inner, Inner::A(_))
    }
    /// the bit `len > capacity*3/4` that the adaptive store will evaluate on its next write
    pub fn pressure_bit(&self) -> Option<bool> {
        if self.is_adaptive() {
            let (l, c) = self.len_cap();
            Some(l > c * 3 / 4)
        } else {
            None
        }
    }
    pub fn take_trace(&self) -> String {
        let mut st = self.0.borrow_mut();
        let s: String = st.trace.iter().map(|o| format!(" {o};")).collect();
        st.trace.clear();
        s
    }
    pub fn take_trace_vec(&self) -> Vec<String> {
        std::mem::take(&mut self.0.borrow_mut().trace)
    }
    /// the `snew …` driver line that creates the model twin of this store
    pub fn snew_line(&self) -> String {
        let snap = self.sched();
        let f = |name: &str| -> String {
            let pat = format!("{name}=");
            let i = snap.find(&pat).unwrap() + pat.len();
            snap[i..].split(' ').next().unwrap().to_string()
        };
        if snap.starts_with("periodic") {
            format!("snew periodic {} {}", f("next"), f("interval"))
        } else if snap.starts_with("adaptive") {
            format!(
                "snew adaptive {} {} {} {} {}",
                f("next"),
                f("min"),
                f("max"),
                f("cur"),
                f("maxops")
            )
        } else {
            format!("snew prob {} {}", f("mod"), f("ops"))
        }
    }
    pub fn field(&self, name: &str) -> Option<i128> {
        let snap = self.sched();
        let pat = format!(" {name}=");
        let i = snap.find(&pat)? + pat.len();
        snap[i..].split(' ').next()?.parse().ok()
    }
    /// entries (keyhex, value, expiry)
    pub fn entries(&self) -> Vec<(String, i64, i128)> {
        let snap = self.snapshot();
        let i = snap.find("entries=").unwrap() + 8;
        let body = &snap[i..];
        if body.is_empty() {
            return vec![];
        }
        body.split(',')
            .map(|e| {
                let mut it = e.split(':');
                let k = it.next().unwrap().to_string();
                let v = it.next().unwrap().parse().unwrap();
                let x = it.next().unwrap().parse().unwrap();
                (k, v, x)
            })
            .collect()
    }
}

impl Store for Shared {
    fn compare_and_swap_with_ttl(
        &mut self,
        key: &str,
        old: i64,
        new: i64,
        ttl: Duration,
        now: SystemTime,
    ) -> Result<bool, String> {
        let mut st = self.0.borrow_mut();
        let r = match &mut *st.inner {
            Inner::P(s) => s.compare_and_swap_with_ttl(key, old, new, ttl, now),
            Inner::A(s) => s.compare_and_swap_with_ttl(key, old, new, ttl, now),
            Inner::R(s) => s.compare_and_swap_with_ttl(key, old, new, ttl, now),
        };
        if st.record {
            let res = match &r {
                Ok(b) => b.to_string(),
                Err(e) => format!("err({e})"),
            };
            st.trace.push(format!(
                "cas {} {} {} {} {} {}",
                hex(key.as_bytes()),
                old,
                new,
                ttl.as_nanos(),
                t_ns(now),
                res
            ));
        }
        r
    }

    fn get(&self, key: &str, now: SystemTime) -> Result<Option<i64>, String> {
        let mut st = self.0.borrow_mut();
        let r = match &*st.inner {
            Inner::P(s) => s.get(key, now),
            Inner::A(s) => s.get(key, now),
            Inner::R(s) => s.get(key, now),
        };
        if st.record {
            let res = match &r {
                Ok(v) => show_opt(v),
                Err(e) => format!("err({e})"),
            };
            st.trace
                .push(format!("get {} {} {}", hex(key.as_bytes()), t_ns(now), res));
        }
        r
    }

    fn set_if_not_exists_with_ttl(
        &mut self,
        key: &str,
        value: i64,
        ttl: Duration,
        now: SystemTime,
    ) -> Result<bool, String> {
        let mut st = self.0.borrow_mut();
        let r = match &mut *st.inner {
            Inner::P(s) => s.set_if_not_exists_with_ttl(key, value, ttl, now),
            Inner::A(s) => s.set_if_not_exists_with_ttl(key, value, ttl, now),
            Inner::R(s) => s.set_if_not_exists_with_ttl(key, value, ttl, now),
        };
        if st.record {
            let res = match &r {
                Ok(b) => b.to_string(),
                Err(e) => format!("err({e})"),
            };
            st.trace.push(format!(
                "setnx {} {} {} {} {}",
                hex(key.as_bytes()),
                value,
                ttl.as_nanos(),
                t_ns(now),
                res
            ));
        }
        r
    }
}
