// mode `wire`: ONE real server in-process (one actor, one Metrics, HTTP + gRPC + RESP transports on
// loopback) driven over real sockets (C12 fidelity, C09 cross-protocol sharing, C11 poison, C15).
// The simple clients below use a connection per HTTP request, a channel per RPC, a RESP command per round trip; the
// protocol-features rounds (feat.rs) address the same server over keep-alive / pipelined / chunked / HTTP/1.0
// connections, one multiplexed gRPC channel with deadlines and cancellations, long RESP connections and pipelines.
//
// line (one per batch of sequential requests on keys that only this batch uses):
//   atrace-loose <cap> <store> call:0:<i>:<id-fields>;proc:0:<i>:<resp>;ret:0:<i>:<resp>;...  -> ok <nproc>
//   call/proc come from the hook log (the exact request + timestamp the library saw and its answer),
//   ret is what the client decoded from the wire.
use crate::actor::{BuiltStore, StoreCfg, LATTICE};
use crate::cmd::{counters, hostile_keys};
use crate::conn::{install_trace_capture, wait_port};
use crate::metrics::{lex_sample, table_text};
use crate::resp::{parse_with, Dec};
use crate::util::*;
use crate::val::hx;
use std::collections::BTreeMap;
use std::sync::Arc;
use std::time::Duration;
use throttlecrab_server::actor::{verif::take_log, RateLimiterActor};
use throttlecrab_server::grpc::rate_limiter_client::RateLimiterClient;
use throttlecrab_server::grpc::ThrottleRequest as GrpcRequest;
use throttlecrab_server::metrics::Metrics;
use throttlecrab_server::transport::grpc::GrpcTransport;
use throttlecrab_server::transport::http::HttpTransport;
use throttlecrab_server::transport::redis::resp::{RespParser, RespValue};
use throttlecrab_server::transport::redis::RedisTransport;
use throttlecrab_server::transport::Transport;
use tokio::io::{AsyncReadExt, AsyncWriteExt};
use tokio::net::TcpStream;

#[derive(Clone, Debug)]
pub struct Logical {
    pub key: String,
    pub b: i64,
    pub c: i64,
    pub p: i64,
    pub q: Option<i64>,
}

/// what a client decoded from the wire
#[derive(Clone, Debug, PartialEq)]
pub enum WireAns {
    /// allowed, limit, remaining, reset_after, retry_after
    Ok(bool, i64, i64, i64, i64),
    /// protocol-level error (HTTP status >= 400, gRPC status, RESP error reply)
    Err(String),
    /// transport failure (no answer at all)
    Broken(String),
}

/// a DENIED answer with remaining 0 whose retry_after is 0 whole seconds although a token takes an hour or a day
/// to refill: the signature of a request that reached the limiter carrying a timestamp EARLIER than that of a request
/// processed before it (every transport stamps a request before it queues it).  The limiter then refuses it a token
/// that "becomes available" at the other request's instant, nanoseconds later - N simultaneous requests on a fresh
/// key can admit fewer than min(N, burst).  Known finding `C09-stamp-inversion` (KNOWN_FINDINGS.jsonl).
pub fn stamp_inverted(a: &WireAns) -> bool {
    matches!(a, WireAns::Ok(false, _, 0, _, 0))
}

/// tag for "admitted != want" among simultaneous requests: the known finding iff the shortfall is covered by
/// stamp-inverted denials, a C09 violation otherwise (too many admitted is never the known finding)
pub fn race_tag(admitted: i64, want: i64, inverted: i64) -> &'static str {
    if admitted < want && want - admitted <= inverted { "KNOWN-C09-stamp-inversion" } else { "C09" }
}


impl WireAns {
    pub fn show(&self) -> String {
        match self {
            WireAns::Ok(a, l, r, rs, rt) => format!("ok,{},{l},{r},{rs},{rt}", *a as u8),
            WireAns::Err(_) => "err".into(),
            WireAns::Broken(e) => format!("broken({e})"),
        }
    }
}

#[derive(Clone, Copy, Debug, PartialEq)]
pub enum Proto {
    Http,
    Grpc,
    Resp,
}

#[derive(Clone, Copy, Debug)]
pub struct Ports {
    pub http: u16,
    pub grpc: u16,
    pub resp: u16,
}

/// what the clients saw, per transport (for C15)
#[derive(Default, Debug, Clone)]
pub struct Seen {
    pub http: u64,  // requests that got a decision or a 500 from the throttle handler
    pub grpc: u64,  // RPCs answered (ok or status)
    pub resp: u64,  // RESP commands answered
    pub denied: u64,
    pub errors: u64, // HTTP 500 + gRPC internal
}

// ----------------------------------------------------------------------------------------
// clients
// ----------------------------------------------------------------------------------------
pub async fn http_raw(port: u16, request: &[u8]) -> Result<(u16, String), String> {
    let s = match tokio::time::timeout(Duration::from_secs(5), TcpStream::connect(("127.0.0.1", port))).await {
        Ok(Ok(s)) => s,
        Ok(Err(e)) => return Err(e.to_string()),
        Err(_) => return Err("timeout".into()),
    };
    http_exchange(s, request, Duration::from_secs(5)).await
}

/// one request on an already open connection (`Connection: close` expected in it): write, read to the end
pub async fn http_exchange(mut s: TcpStream, request: &[u8], wait: Duration) -> Result<(u16, String), String> {
    let fut = async {
        s.write_all(request).await.map_err(|e| e.to_string())?;
        let mut buf = vec![];
        s.read_to_end(&mut buf).await.map_err(|e| e.to_string())?;
        let text = String::from_utf8_lossy(&buf).to_string();
        let (head, body) = text.split_once("\r\n\r\n").ok_or_else(|| format!("no header end in {:?}", &text[..text.len().min(80)]))?;
        let status: u16 = head.split(' ').nth(1).and_then(|x| x.parse().ok()).ok_or("no status")?;
        let body = if head.to_ascii_lowercase().contains("transfer-encoding: chunked") {
            let mut out = String::new();
            let mut rest = body;
            loop {
                let Some((len, r)) = rest.split_once("\r\n") else { break };
                let n = usize::from_str_radix(len.trim(), 16).unwrap_or(0);
                if n == 0 || r.len() < n {
                    break;
                }
                out.push_str(&r[..n]);
                rest = r[n..].trim_start_matches("\r\n");
            }
            out
        } else {
            body.to_string()
        };
        Ok((status, body))
    };
    match tokio::time::timeout(wait, fut).await {
        Ok(r) => r,
        Err(_) => Err("timeout".into()),
    }
}

/// the decoded answer of a POST /throttle exchange
pub fn http_answer(r: Result<(u16, String), String>) -> (WireAns, u16) {
    match r {
        Err(e) => (WireAns::Broken(e), 0),
        Ok((status, text)) => {
            if status == 200 {
                match serde_json::from_str::<serde_json::Value>(&text) {
                    Ok(v) => {
                        let g = |n: &str| v.get(n).and_then(|x| x.as_i64());
                        match (v.get("allowed").and_then(|x| x.as_bool()), g("limit"), g("remaining"), g("reset_after"), g("retry_after")) {
                            (Some(a), Some(l), Some(r), Some(rs), Some(rt)) => (WireAns::Ok(a, l, r, rs, rt), status),
                            _ => (WireAns::Broken(format!("unexpected JSON {text}")), status),
                        }
                    }
                    Err(e) => (WireAns::Broken(format!("bad JSON {e}")), status),
                }
            } else {
                (WireAns::Err(format!("{status} {text}")), status)
            }
        }
    }
}

pub fn http_post_bytes(body: &str) -> Vec<u8> {
    format!(
        "POST /throttle HTTP/1.1\r\nHost: 127.0.0.1\r\nContent-Type: application/json\r\nContent-Length: {}\r\nConnection: close\r\n\r\n{}",
        body.len(),
        body
    )
    .into_bytes()
}

pub fn json_body(rng: &mut Rng, l: &Logical) -> String {
    let mut fields = vec![
        format!("\"key\":{}", serde_json::to_string(&l.key).unwrap()),
        format!("\"max_burst\":{}", l.b),
        format!("\"count_per_period\":{}", l.c),
        format!("\"period\":{}", l.p),
    ];
    if let Some(q) = l.q {
        fields.push(format!("\"quantity\":{q}"));
    } else if rng.chance(1, 3) {
        fields.push("\"quantity\":null".into());
    }
    // shuffle
    for i in (1..fields.len()).rev() {
        let j = rng.below(i as u64 + 1) as usize;
        fields.swap(i, j);
    }
    let sep = rng.pick(&[",", ", ", " ,\n "]);
    format!("{{{}}}", fields.join(sep))
}

pub async fn http_throttle(port: u16, body: &str) -> (WireAns, u16) {
    http_answer(http_raw(port, &http_post_bytes(body)).await)
}

pub fn resp_command(rng: &mut Rng, l: &Logical) -> Vec<u8> {
    let name: String = "throttle".chars().map(|c| if rng.chance(1, 2) { c.to_ascii_uppercase() } else { c }).collect();
    let mut parts: Vec<Vec<u8>> = vec![];
    let bulk = |s: &[u8]| {
        let mut v = format!("${}\r\n", s.len()).into_bytes();
        v.extend_from_slice(s);
        v.extend_from_slice(b"\r\n");
        v
    };
    parts.push(bulk(name.as_bytes()));
    parts.push(bulk(l.key.as_bytes()));
    let mut nums = vec![l.b, l.c, l.p];
    if let Some(q) = l.q {
        nums.push(q);
    }
    for n in nums {
        if rng.chance(1, 2) {
            parts.push(bulk(n.to_string().as_bytes()));
        } else {
            parts.push(format!(":{n}\r\n").into_bytes());
        }
    }
    let mut v = format!("*{}\r\n", parts.len()).into_bytes();
    for p in parts {
        v.extend(p);
    }
    v
}

pub struct RespConn {
    sock: TcpStream,
    buf: Vec<u8>,
}

impl RespConn {
    pub async fn open(port: u16) -> Result<RespConn, String> {
        let sock = TcpStream::connect(("127.0.0.1", port)).await.map_err(|e| e.to_string())?;
        sock.set_nodelay(true).ok();
        Ok(RespConn { sock, buf: vec![] })
    }
    pub async fn call(&mut self, cmd: &[u8]) -> Result<RespValue, String> {
        self.sock.write_all(cmd).await.map_err(|e| e.to_string())?;
        let mut p = RespParser::new();
        let mut tmp = vec![0u8; 4096];
        loop {
            match parse_with(&mut p, &self.buf) {
                Dec::Ok(v, n) => {
                    self.buf.drain(..n);
                    return Ok(v);
                }
                Dec::Incomplete => {}
                _ => return Err("undecodable reply".into()),
            }
            let n = match tokio::time::timeout(Duration::from_secs(5), self.sock.read(&mut tmp)).await {
                Ok(Ok(n)) => n,
                Ok(Err(e)) => return Err(e.to_string()),
                Err(_) => return Err("timeout".into()),
            };
            if n == 0 {
                return Err("closed".into());
            }
            self.buf.extend_from_slice(&tmp[..n]);
        }
    }
}

pub fn resp_answer(v: Result<RespValue, String>) -> WireAns {
    match v {
        Err(e) => WireAns::Broken(e),
        Ok(RespValue::Error(e)) => WireAns::Err(e),
        Ok(RespValue::Array(xs)) if xs.len() == 5 => {
            let n: Vec<i64> = xs.iter().filter_map(|x| if let RespValue::Integer(n) = x { Some(*n) } else { None }).collect();
            if n.len() == 5 && (n[0] == 0 || n[0] == 1) {
                WireAns::Ok(n[0] == 1, n[1], n[2], n[3], n[4])
            } else {
                WireAns::Broken(format!("unexpected reply {}", crate::val::show(&RespValue::Array(xs))))
            }
        }
        Ok(other) => WireAns::Broken(format!("unexpected reply {}", crate::val::show(&other))),
    }
}

/// gRPC calls alternate between the crate's GENERATED client and the hand-written client that carries the DOCUMENTED
/// field numbers (`grpc_call_doc`), so that every oracle on gRPC answers sees both
static GRPC_TURN: std::sync::atomic::AtomicU64 = std::sync::atomic::AtomicU64::new(0);
pub static GRPC_DOC_CALLS: std::sync::atomic::AtomicU64 = std::sync::atomic::AtomicU64::new(0);

pub async fn grpc_call(port: u16, l: &Logical) -> WireAns {
    if GRPC_TURN.fetch_add(1, std::sync::atomic::Ordering::Relaxed) % 2 == 1 {
        grpc_call_doc(port, l).await
    } else {
        grpc_call_gen(port, l).await
    }
}

/// the client generated from THIS build's .proto (re-exported by the server crate); fields read by NAME
pub async fn grpc_call_gen(port: u16, l: &Logical) -> WireAns {
    let fut = async {
        let mut c = RateLimiterClient::connect(format!("http://127.0.0.1:{port}")).await.map_err(|e| format!("connect: {e}"))?;
        c.throttle(tonic::Request::new(GrpcRequest {
            key: l.key.clone(),
            max_burst: l.b as i32,
            count_per_period: l.c as i32,
            period: l.p as i32,
            quantity: l.q.unwrap_or(1) as i32,
        }))
        .await
        .map_err(|s| format!("status: {s}"))
    };
    match tokio::time::timeout(Duration::from_secs(5), fut).await {
        Err(_) => WireAns::Broken("timeout".into()),
        Ok(Err(e)) if e.starts_with("connect") => WireAns::Broken(e),
        Ok(Err(e)) => WireAns::Err(e),
        Ok(Ok(r)) => {
            let r = r.into_inner();
            // by NAME: the proto lists retry_after (4) before reset_after (5)
            WireAns::Ok(r.allowed, r.limit as i64, r.remaining as i64, r.reset_after as i64, r.retry_after as i64)
        }
    }
}

/// `ThrottleRequest` with the field numbers of the DOCUMENTED schema (module docs of transport/grpc.rs, the published
/// .proto): what any client generated independently of this build puts on the wire
#[derive(Clone, PartialEq, prost::Message)]
pub struct DocThrottleRequest {
    #[prost(string, tag = "1")]
    pub key: String,
    #[prost(int32, tag = "2")]
    pub max_burst: i32,
    #[prost(int32, tag = "3")]
    pub count_per_period: i32,
    #[prost(int32, tag = "4")]
    pub period: i32,
    #[prost(int32, tag = "5")]
    pub quantity: i32,
}

/// `ThrottleResponse` as documented: allowed = 1, limit = 2, remaining = 3, retry_after = 4, reset_after = 5
#[derive(Clone, PartialEq, prost::Message)]
pub struct DocThrottleResponse {
    #[prost(bool, tag = "1")]
    pub allowed: bool,
    #[prost(int32, tag = "2")]
    pub limit: i32,
    #[prost(int32, tag = "3")]
    pub remaining: i32,
    #[prost(int32, tag = "4")]
    pub retry_after: i32,
    #[prost(int32, tag = "5")]
    pub reset_after: i32,
}

pub type DocGrpc = tonic::client::Grpc<tonic::transport::Channel>;

pub async fn doc_grpc_connect(port: u16) -> Result<DocGrpc, String> {
    let ch = tonic::transport::Channel::from_shared(format!("http://127.0.0.1:{port}")).map_err(|e| format!("connect: {e}"))?.connect().await.map_err(|e| format!("connect: {e}"))?;
    Ok(tonic::client::Grpc::new(ch))
}

/// one Throttle RPC on an open channel, messages encoded / decoded with the documented field numbers
pub async fn doc_grpc_send(grpc: &mut DocGrpc, l: &Logical) -> WireAns {
    GRPC_DOC_CALLS.fetch_add(1, std::sync::atomic::Ordering::Relaxed);
    if let Err(e) = grpc.ready().await {
        return WireAns::Broken(format!("connect: {e}"));
    }
    let path = tonic::codegen::http::uri::PathAndQuery::from_static("/throttlecrab.RateLimiter/Throttle");
    let codec = tonic_prost::ProstCodec::<DocThrottleRequest, DocThrottleResponse>::default();
    let req = DocThrottleRequest { key: l.key.clone(), max_burst: l.b as i32, count_per_period: l.c as i32, period: l.p as i32, quantity: l.q.unwrap_or(1) as i32 };
    match grpc.unary(tonic::Request::new(req), path, codec).await {
        Err(s) => WireAns::Err(format!("status: {s}")),
        Ok(r) => {
            let r = r.into_inner();
            WireAns::Ok(r.allowed, r.limit as i64, r.remaining as i64, r.reset_after as i64, r.retry_after as i64)
        }
    }
}

/// a gRPC Throttle call by a client that knows the DOCUMENTED schema only (new channel per call)
pub async fn grpc_call_doc(port: u16, l: &Logical) -> WireAns {
    let fut = async {
        match doc_grpc_connect(port).await {
            Err(e) => WireAns::Broken(e),
            Ok(mut g) => doc_grpc_send(&mut g, l).await,
        }
    };
    match tokio::time::timeout(Duration::from_secs(5), fut).await {
        Err(_) => WireAns::Broken("timeout".into()),
        Ok(a) => a,
    }
}

pub fn fits_i32(l: &Logical) -> bool {
    let f = |x: i64| x >= i32::MIN as i64 && x <= i32::MAX as i64;
    f(l.b) && f(l.c) && f(l.p) && l.q.map(f).unwrap_or(false)
}

/// send one logical request over a random protocol / encoding variant
pub async fn route(rng: &mut Rng, ports: &Ports, l: &Logical, seen: &mut Seen, resp_conn: &mut Option<RespConn>) -> (Proto, WireAns, String) {
    let mut choices = vec![Proto::Http, Proto::Resp];
    if fits_i32(l) {
        choices.push(Proto::Grpc);
    }
    let proto = rng.pick(&choices);
    let (a, desc) = send_proto(proto, rng, ports, l, seen, resp_conn, false).await;
    (proto, a, desc)
}

/// one logical request over the given protocol (HTTP: a connection per request; gRPC: a channel per
/// request; RESP: the kept connection, re-opened now and then, or a NEW one when `fresh_conn`)
pub async fn send_proto(proto: Proto, rng: &mut Rng, ports: &Ports, l: &Logical, seen: &mut Seen, resp_conn: &mut Option<RespConn>, fresh_conn: bool) -> (WireAns, String) {
    match proto {
        Proto::Http => {
            let body = json_body(rng, l);
            let (a, status) = http_throttle(ports.http, &body).await;
            if status == 200 || status == 500 {
                seen.http += 1;
            }
            if status == 500 {
                seen.errors += 1;
            }
            (a, format!("HTTP POST /throttle {body}"))
        }
        Proto::Grpc => {
            let a = grpc_call(ports.grpc, l).await;
            if !matches!(a, WireAns::Broken(_)) {
                seen.grpc += 1;
            }
            if matches!(a, WireAns::Err(_)) {
                seen.errors += 1;
            }
            (a, format!("gRPC Throttle {l:?}"))
        }
        Proto::Resp => {
            let cmd = resp_command(rng, l);
            if fresh_conn || resp_conn.is_none() || rng.chance(1, 5) {
                *resp_conn = RespConn::open(ports.resp).await.ok();
            }
            let r = match resp_conn.as_mut() {
                Some(c) => c.call(&cmd).await,
                None => Err("connect failed".into()),
            };
            if r.is_err() {
                *resp_conn = None;
            } else {
                seen.resp += 1;
            }
            (resp_answer(r), format!("RESP {}", hx(&cmd)))
        }
    }
}

// ----------------------------------------------------------------------------------------
// shared by `wire` and `binary`: deeply nested frames, replies before a rejected frame, the documented gRPC schema
// ----------------------------------------------------------------------------------------
/// nesting depths of the hostile RESP frames: the decoder accepts 128 levels, no more
pub const NEST_DEPTHS: [usize; 6] = [64, 100, 127, 128, 129, 200];
pub const NEST_LIMIT: usize = 128;

/// `depth` array headers `*1` around the integer 1 (4 bytes per level: depth 200 is 804 bytes)
pub fn nested_frame(depth: usize) -> Vec<u8> {
    let mut v = b"*1\r\n".repeat(depth);
    v.extend_from_slice(b":1\r\n");
    v
}

/// What a nested frame of `depth` levels got on a connection of its own, judged: within the limit it is a value like
/// any other - not a command, so the reply is the error for a command whose name is not a bulk string, and the
/// connection goes on serving (PING -> PONG); beyond the limit the decoder rejects it and the server closes the
/// connection without a reply.  `reply` / `ping`: what `RespConn::call` returned for the frame / for the PING after it.
pub fn judge_nested(depth: usize, reply: &Result<RespValue, String>, ping: &Option<Result<RespValue, String>>) -> Option<String> {
    let shown = |r: &Result<RespValue, String>| match r {
        Ok(v) => crate::val::show(v),
        Err(e) => format!("no reply ({e})"),
    };
    if depth <= NEST_LIMIT {
        match reply {
            Ok(RespValue::Error(e)) if e == "ERR invalid command format" => match ping {
                Some(Ok(RespValue::SimpleString(p))) if p == "PONG" => None,
                Some(other) => Some(format!("a frame nested {depth} deep (limit {NEST_LIMIT}) was answered, but the PING after it on the same connection got {}", shown(other))),
                None => None,
            },
            other => Some(format!("a frame nested {depth} deep (within the limit of {NEST_LIMIT}: a value like any other) got {} instead of the reply `-ERR invalid command format`", shown(other))),
        }
    } else {
        match reply {
            Err(e) if e != "timeout" => None,
            other => Some(format!("a frame nested {depth} deep (limit {NEST_LIMIT}) must be rejected - connection closed, no reply - but got {}", shown(other))),
        }
    }
}

/// frames the RESP decoder REJECTS (every one is checked against the in-process decoder before use)
pub fn rejected_frames() -> Vec<(&'static str, Vec<u8>)> {
    vec![
        ("a frame with an invalid type byte", b"!oops\r\n".to_vec()),
        ("an inline command", b"PING\r\n".to_vec()),
        ("a bulk string that is not UTF-8", b"*2\r\n$4\r\nPING\r\n$3\r\n\xff\xfe\xfd\r\n".to_vec()),
        ("a bulk string of length -2", b"*1\r\n$-2\r\n".to_vec()),
    ]
}

/// ONE write of `bytes` on a new RESP connection, then read until the server closes (or nothing arrives for `idle`):
/// (complete replies received in order, server closed the connection, bytes that are not a complete reply)
pub async fn resp_write_read_to_end(port: u16, bytes: &[u8], idle: Duration) -> Result<(Vec<RespValue>, bool, usize), String> {
    let mut sock = TcpStream::connect(("127.0.0.1", port)).await.map_err(|e| e.to_string())?;
    sock.set_nodelay(true).ok();
    sock.write_all(bytes).await.map_err(|e| e.to_string())?;
    let mut buf: Vec<u8> = vec![];
    let mut tmp = vec![0u8; 4096];
    let mut closed = false;
    loop {
        match tokio::time::timeout(idle, sock.read(&mut tmp)).await {
            Ok(Ok(0)) | Ok(Err(_)) => {
                closed = true;
                break;
            }
            Ok(Ok(n)) => buf.extend_from_slice(&tmp[..n]),
            Err(_) => break,
        }
    }
    let mut replies = vec![];
    let mut p = RespParser::new();
    while let Dec::Ok(v, n) = parse_with(&mut p, &buf) {
        buf.drain(..n);
        replies.push(v);
    }
    Ok((replies, closed, buf.len()))
}

/// who sends a request of the documented-schema round
#[derive(Clone, Copy, Debug, PartialEq)]
pub enum Client {
    Http,
    Resp,
    /// the client generated from this build's .proto
    GrpcGenerated,
    /// the hand-written client with the documented field numbers
    GrpcDocumented,
}

impl Client {
    pub fn proto(self) -> Proto {
        match self {
            Client::Http => Proto::Http,
            Client::Resp => Proto::Resp,
            _ => Proto::Grpc,
        }
    }
}

/// One SHARED bucket (fresh `key`, burst `b` >= 4, 1 per 3600 s: no token comes back while this runs) addressed in turn
/// by the four kinds of client, starting at a seed-chosen one: `b` requests that are allowed - every kind of client
/// gets at least one - then four that are denied, one per kind.  Returns (client, answer, HTTP status) in order and,
/// per request, when it was started and when its answer was there.
pub async fn documented_schema_round(ports: &Ports, rng: &mut Rng, key: &str, b: i64) -> (Vec<(Client, WireAns, u16)>, Vec<(std::time::Instant, std::time::Instant)>) {
    let kinds = [Client::GrpcDocumented, Client::Http, Client::GrpcGenerated, Client::Resp];
    let start = rng.below(4) as usize;
    let mut v = vec![];
    let mut times = vec![];
    let mut conn: Option<RespConn> = None;
    for i in 0..(b as usize + 4) {
        let who = kinds[(start + i) % 4];
        let l = Logical { key: key.to_string(), b, c: 1, p: 3600, q: Some(1) };
        let t_sent = std::time::Instant::now();
        let (a, st) = match who {
            Client::Http => http_throttle(ports.http, &json_body(rng, &l)).await,
            Client::GrpcGenerated => (grpc_call_gen(ports.grpc, &l).await, 0),
            Client::GrpcDocumented => (grpc_call_doc(ports.grpc, &l).await, 0),
            Client::Resp => {
                if conn.is_none() {
                    conn = RespConn::open(ports.resp).await.ok();
                }
                let r = match conn.as_mut() {
                    Some(c) => c.call(&resp_command(rng, &l)).await,
                    None => Err("connect failed".into()),
                };
                (resp_answer(r), 0)
            }
        };
        v.push((who, a, st));
        times.push((t_sent, std::time::Instant::now()));
    }
    (v, times)
}

/// the oracles of the documented-schema round that need nothing but the answers: (property, what)
pub fn judge_documented_schema(b: i64, answers: &[(Client, WireAns, u16)], times: &[(std::time::Instant, std::time::Instant)]) -> Vec<(&'static str, String)> {
    let mut bad = vec![];
    let mut denied: Vec<(Client, i64, i64, usize)> = vec![];
    for (idx, (who, a, _)) in answers.iter().enumerate() {
        let i = idx as i64;
        match a {
            WireAns::Ok(al, lim, rem, rs, rt) => {
                let (wa, wr) = (i < b, (b - 1 - i).max(0));
                if (*al, *lim, *rem) != (wa, b, wr) {
                    bad.push(("C09", format!("request {} on one shared bucket (burst {b}, 1 per 3600 s) went over {who:?} and was answered {}, want ok,{},{b},{wr},_,_", i + 1, a.show(), wa as u8)));
                } else if *al && (*rt != 0 || *rs <= 0) {
                    bad.push(("C12", format!("request {} (allowed) over {who:?}: retry_after = {rt}, reset_after = {rs}; an allowed request has retry_after 0 and a bucket in use has reset_after > 0 - every field in its documented position", i + 1)));
                } else if !*al {
                    if *rt <= 0 || *rs <= 0 {
                        bad.push(("C12", format!("request {} (denied, 1 token per 3600 s) over {who:?}: retry_after = {rt}, reset_after = {rs}; both must be positive", i + 1)));
                    }
                    denied.push((*who, *rs, *rt, idx));
                }
            }
            other => bad.push(("C12", format!("request {} on a shared bucket (burst {b}, 1 per 3600 s) over {who:?} got no decision: {}", i + 1, other.show()))),
        }
    }
    // the denied requests change nothing: asked within milliseconds of each other, every client is told the same waits
    // (whole seconds: a later answer is lower by at most the time that passed, rounded up)
    if let Some(f) = denied.first() {
        for d in &denied[1..] {
            let passed = times.get(d.3).zip(times.get(f.3)).map(|(td, tf)| td.1.duration_since(tf.0).as_millis() as i64).unwrap_or(0);
            let tol = (passed + 999) / 1000 + 1;
            if (d.1 - f.1).abs() > tol || (d.2 - f.2).abs() > tol {
                let what = format!(
                    "one exhausted bucket (burst {b}, 1 per 3600 s), denied requests milliseconds apart: {:?} is told reset_after {} / retry_after {}, {:?} is told reset_after {} / retry_after {}",
                    f.0, f.1, f.2, d.0, d.1, d.2
                );
                bad.push(("C09", format!("{what} - not the answers of one limiter")));
                bad.push(("C12", format!("{what} - the same request is answered differently depending on the client's schema / protocol")));
                break;
            }
        }
    }
    bad
}

/// the shortest encoding of a THROTTLE command: bulk name and key, numbers as RESP integers
pub fn resp_command_min(l: &Logical) -> Vec<u8> {
    let mut v = format!("*{}\r\n$8\r\nTHROTTLE\r\n${}\r\n", if l.q.is_some() { 6 } else { 5 }, l.key.len()).into_bytes();
    v.extend_from_slice(l.key.as_bytes());
    v.extend_from_slice(b"\r\n");
    for n in [Some(l.b), Some(l.c), Some(l.p), l.q].into_iter().flatten() {
        v.extend_from_slice(format!(":{n}\r\n").as_bytes());
    }
    v
}

/// the longest key whose (shortest) THROTTLE command still fits the 64 KiB buffer of a RESP connection
pub fn max_resp_key_len(b: i64, c: i64, p: i64) -> usize {
    let overhead = |len: usize| resp_command_min(&Logical { key: String::new(), b, c, p, q: None }).len() - 1 + len.to_string().len();
    (65_000..65_536usize).rev().find(|&len| overhead(len) + len <= 65_536).unwrap()
}

/// `nreq` simultaneous requests `l` (released together by a barrier) over mixed protocols - the first three are one
/// of each; every request on a connection of its own
pub async fn simultaneous(ports: &Ports, rng: &mut Rng, l: &Logical, nreq: usize) -> Vec<(Proto, WireAns, u16)> {
    let barrier = Arc::new(tokio::sync::Barrier::new(nreq));
    let mut hs = vec![];
    for i in 0..nreq {
        let proto = if i < 3 { [Proto::Http, Proto::Grpc, Proto::Resp][i] } else { rng.pick(&[Proto::Http, Proto::Grpc, Proto::Resp]) };
        let l = l.clone();
        let mut r = rng.fork();
        let bar = barrier.clone();
        let (hp, gp, rp) = (ports.http, ports.grpc, ports.resp);
        hs.push(tokio::spawn(async move {
            match proto {
                Proto::Http => {
                    let body = json_body(&mut r, &l);
                    bar.wait().await;
                    let (a, st) = http_throttle(hp, &body).await;
                    (proto, a, st)
                }
                Proto::Grpc => {
                    bar.wait().await;
                    (proto, grpc_call(gp, &l).await, 0)
                }
                Proto::Resp => {
                    let cmd = resp_command(&mut r, &l);
                    let c = RespConn::open(rp).await;
                    bar.wait().await;
                    match c {
                        Err(e) => (proto, WireAns::Broken(e), 0),
                        Ok(mut c) => (proto, resp_answer(c.call(&cmd).await), 0),
                    }
                }
            }
        }));
    }
    let mut v = vec![];
    for h in hs {
        v.push(match h.await {
            Ok(x) => x,
            Err(e) => (Proto::Http, WireAns::Broken(format!("client task failed: {e}")), 0),
        });
    }
    v
}

/// keys for the "large request" parity: (what, key).  Control characters and quotes make the JSON body of the HTTP
/// request several times as large as the key (U+0001 is six bytes in JSON) while RESP and gRPC carry the key as it is;
/// the plain keys sit just below the largest key a RESP connection accepts.
pub fn large_keys(rng: &mut Rng, tag: &str, b: i64, c: i64, p: i64) -> Vec<(String, String)> {
    let mut v = vec![];
    for (lo, hi) in [(10_000i64, 20_000i64), (20_000, 40_000), (40_000, 60_000)] {
        let len = rng.range(lo, hi) as usize;
        let style = rng.below(3);
        let mut k = String::from(tag);
        while k.len() < len {
            k.push(match style {
                0 => '\u{1}',
                1 => rng.pick(&['\u{1}', '\n', '"', '\\', '\u{1}', '\u{1f}']),
                _ => rng.pick(&['\n', '"', '\\']),
            });
        }
        let json = serde_json::to_string(&k).unwrap().len();
        v.push((format!("{len} bytes of control characters / quotes / backslashes ({json} bytes as a JSON string)"), k));
    }
    let max = max_resp_key_len(b, c, p);
    for len in [65_300usize, rng.range(65_300, 65_480) as usize, 65_480, max] {
        let mut k = String::from(tag);
        while k.len() < len {
            k.push((b'a' + rng.below(26) as u8) as char);
        }
        v.push((format!("{len} plain ASCII bytes (the largest key a RESP connection accepts with these limits has {max})"), k));
    }
    v
}

pub fn parse_proc(l: &str) -> Option<(Vec<String>, String)> {
    let body = l.strip_prefix("proc ")?;
    let (id, resp) = body.split_once(" -> ")?;
    Some((id.split(':').map(|s| s.to_string()).collect(), resp.to_string()))
}

/// C15 at a quiescent point
async fn check_metrics(ports: &Ports, metrics: &Metrics, seen: &mut Seen, out: &mut Out, what: &str, recent: &mut Vec<String>) {
    // the scrape itself is not a throttle request and must not count
    let scrape = http_raw(ports.http, b"GET /metrics HTTP/1.1\r\nHost: x\r\nConnection: close\r\n\r\n").await;
    let c = counters(metrics);
    out.bump("metrics_scrapes");
    // replay: the non-THROTTLE RESP commands sent since the last quiescent point, as rplan lines
    // (`tcv-server replay` prints the metrics classification the handler gives them)
    let mut replay = vec![format!("# wire: {what}")];
    replay.append(recent);
    if c.total != c.http + c.grpc + c.redis || c.total != c.allowed + c.denied + c.errors {
        out.violation("C15", format!("{what}: identities broken: total {} http {} grpc {} redis {} allowed {} denied {} errors {}", c.total, c.http, c.grpc, c.redis, c.allowed, c.denied, c.errors), replay.clone());
    }
    if c.http != seen.http || c.grpc != seen.grpc || c.redis != seen.resp {
        out.violation(
            "C15",
            format!("{what}: per-transport counters http {} grpc {} redis {} but the clients were answered {} / {} / {} times", c.http, c.grpc, c.redis, seen.http, seen.grpc, seen.resp),
            replay.clone(),
        );
    }
    if c.denied != seen.denied {
        out.violation("C15", format!("{what}: requests_denied = {} but clients were told 'denied' {} times", c.denied, seen.denied), replay.clone());
    }
    if c.errors != seen.errors {
        out.violation("C15", format!("{what}: requests_errors = {} but clients saw {} internal errors", c.errors, seen.errors), replay.clone());
    }
    // report each discrepancy once: later checks look for NEW discrepancies
    seen.http = c.http;
    seen.grpc = c.grpc;
    seen.resp = c.redis;
    seen.denied = c.denied;
    seen.errors = c.errors;
    match scrape {
        Ok((200, text)) => {
            let mut vals: BTreeMap<String, String> = BTreeMap::new();
            for line in text.split('\n') {
                if line.is_empty() || line.starts_with('#') {
                    continue;
                }
                match lex_sample(line) {
                    Ok(s) => {
                        let k = if s.labels.is_empty() { s.name.clone() } else { format!("{}{{{}}}", s.name, s.labels[0].1) };
                        vals.insert(k, s.value);
                    }
                    Err(e) => out.violation("C16", format!("{what}: /metrics line not well-formed ({e}): {line:?}"), replay.clone()),
                }
            }
            let want = [
                ("throttlecrab_requests_total", c.total),
                ("throttlecrab_requests_by_transport{http}", c.http),
                ("throttlecrab_requests_by_transport{grpc}", c.grpc),
                ("throttlecrab_requests_by_transport{redis}", c.redis),
                ("throttlecrab_requests_allowed", c.allowed),
                ("throttlecrab_requests_denied", c.denied),
                ("throttlecrab_requests_errors", c.errors),
            ];
            for (k, v) in want {
                if vals.get(k) != Some(&v.to_string()) {
                    out.violation("C15", format!("{what}: GET /metrics shows {k} = {:?}, the counter is {v}", vals.get(k)), replay.clone());
                }
            }
        }
        other => out.violation("C15", format!("{what}: GET /metrics failed: {other:?}"), replay.clone()),
    }
}

/// `max_denied_keys` of the server of this mode
const WIRE_MAX_DENIED: usize = 100;

/// after the denial probes: GET /metrics answers 200 and has a `throttlecrab_top_denied_keys` line for
/// every probe key that must be in the report: the key is in the table (always when `no_eviction`: the
/// table was small enough before the probes that no clean-up can have run since) and at most `max`
/// keys have a count at least as high (ties are broken arbitrarily)
async fn check_probe_keys_exported(ports: &Ports, metrics: &Metrics, keys: &[String], no_eviction: bool, out: &mut Out, replay: &[String]) {
    let table = metrics.verif_denied_table().unwrap_or_default();
    let scrape = http_raw(ports.http, b"GET /metrics HTTP/1.1\r\nHost: x\r\nConnection: close\r\n\r\n").await;
    out.bump("metrics_scrapes");
    let text = match scrape {
        Ok((200, text)) => text,
        other => {
            out.violation("C15", format!("after the poison round GET /metrics failed: {other:?}"), replay.to_vec());
            return;
        }
    };
    let mut listed: Vec<(String, String)> = vec![];
    for line in text.split('\n') {
        if line.starts_with("throttlecrab_top_denied_keys") {
            match lex_sample(line) {
                Ok(s) => listed.push((s.labels.iter().find(|l| l.0 == "key").map(|l| l.1.clone()).unwrap_or_default(), s.value)),
                Err(e) => out.violation("C16", format!("after the poison round: /metrics line not well-formed ({e}): {line:?}"), replay.to_vec()),
            }
        }
    }
    for k in keys {
        let Some(count) = table.iter().find(|e| &e.0 == k).map(|e| e.1) else {
            if no_eviction {
                out.violation("C16", format!("probe key {k:?} was denied a moment ago but is not in the denied-keys table ({} keys)", table.len()), replay.to_vec());
            }
            continue;
        };
        let at_least = table.iter().filter(|e| e.1 >= count).count();
        if at_least <= WIRE_MAX_DENIED {
            out.bump("probe_keys_expected_in_metrics");
            match listed.iter().find(|l| &l.0 == k) {
                Some((_, v)) if *v == count.to_string() => {}
                other => out.violation("C16", format!("GET /metrics after the poison round: top_denied_keys line for probe key {k:?} (denied {count} time(s), {at_least} keys rank at least as high, max {WIRE_MAX_DENIED}) is {other:?}"), replay.to_vec()),
            }
        } else {
            out.bump("probe_keys_rank_undetermined");
        }
    }
}

pub fn run(seed: u64, n: usize, out: &mut Out) {
    install_trace_capture();
    let rt = tokio::runtime::Builder::new_multi_thread().worker_threads(4).enable_all().build().unwrap();
    let mut rng = Rng::new(seed);
    rt.block_on(async {
        let metrics = Arc::new(Metrics::builder().max_denied_keys(WIRE_MAX_DENIED).build());
        let store_cfg = match rng.below(3) {
            0 => StoreCfg::Periodic { interval_ns: rng.pick(&[1_000_000_000u64, 60_000_000_000]) },
            1 => StoreCfg::Prob { modulus: rng.pick(&[3u64, 1000]) },
            _ => StoreCfg::Adaptive { min_ns: 1_000_000_000, max_ns: 300_000_000_000, max_ops: rng.pick(&[7usize, 100_000]) },
        };
        let cap = rng.pick(&[1usize, 8, 1000]);
        let built = store_cfg.build();
        let store_token = built.token();
        let handle = match built {
            BuiltStore::P(s) => RateLimiterActor::spawn_periodic(cap, s, Arc::clone(&metrics)),
            BuiltStore::R(s) => RateLimiterActor::spawn_probabilistic(cap, s, Arc::clone(&metrics)),
            BuiltStore::A(s) => RateLimiterActor::spawn_adaptive(cap, s, Arc::clone(&metrics)),
        };
        out.sample(format!("server: store {store_token} queue {cap}"));
        // three DISTINCT free ports (the three probe listeners are held together); should some other process grab one of
        // them before the transport binds it - its `start` returns at once then - everything is started again on new ports
        let mut ports = Ports { http: 0, grpc: 0, resp: 0 };
        for attempt in 0..6 {
            {
                let ls: Vec<std::net::TcpListener> = (0..3).map(|_| std::net::TcpListener::bind("127.0.0.1:0").unwrap()).collect();
                let p: Vec<u16> = ls.iter().map(|l| l.local_addr().unwrap().port()).collect();
                ports = Ports { http: p[0], grpc: p[1], resp: p[2] };
            }
            let (h, m) = (handle.clone(), Arc::clone(&metrics));
            let p = ports.http;
            let t1 = tokio::spawn(async move {
                let _ = HttpTransport::new("127.0.0.1", p, m).start(h).await;
            });
            let (h, m) = (handle.clone(), Arc::clone(&metrics));
            let p = ports.grpc;
            let t2 = tokio::spawn(async move {
                let _ = GrpcTransport::new("127.0.0.1", p, m).start(h).await;
            });
            let (h, m) = (handle.clone(), Arc::clone(&metrics));
            let p = ports.resp;
            let t3 = tokio::spawn(async move {
                let _ = RedisTransport::new("127.0.0.1", p, m).unwrap().start(h).await;
            });
            wait_port(ports.http).await;
            wait_port(ports.grpc).await;
            wait_port(ports.resp).await;
            tokio::time::sleep(Duration::from_millis(30)).await;
            if !(t1.is_finished() || t2.is_finished() || t3.is_finished()) {
                break;
            }
            out.bump("server_restarts_port_taken");
            t1.abort();
            t2.abort();
            t3.abort();
            if attempt == 5 {
                out.violation("C09", "the in-process server could not bind three loopback ports in 6 attempts".into(), vec![]);
                return;
            }
        }
        // wait_port's probe connection on the RESP port is closed without a command: not counted
        tokio::time::sleep(Duration::from_millis(50)).await;
        take_log();
        let mut seen = Seen::default();
        let mut resp_conn: Option<RespConn> = None;
        let mut recent: Vec<String> = vec![];
        let mut phase_t = std::time::Instant::now();
        let mut phase = |out: &mut Out, name: &str| {
            out.add(&format!("ms_{name}"), phase_t.elapsed().as_millis() as u64);
            phase_t = std::time::Instant::now();
        };

        // ------------------------------------------------------------------ sequential batches
        let batches = (n / 4).max(2);
        for batch in 0..batches {
            let keys: Vec<String> = vec![format!("w{batch}_a"), format!("w{batch}_b"), format!("w{batch} \"q\" é\\"), format!("w{batch}\r\nx")];
            let nk = rng.range(1, 4) as usize;
            let (b, c, p) = (rng.range(1, 5), rng.range(1, 4), rng.pick(&[1i64, 2, 60]));
            let mut events: Vec<String> = vec![];
            let mut nproc = 0usize;
            let mut idx = 0usize;
            for step in 0..30 {
                let kind = rng.below(20);
                if kind == 0 {
                    tokio::time::sleep(Duration::from_millis(rng.pick(&[120u64, 350]))).await;
                }
                if kind <= 2 {
                    // ---- requests that must be refused before the limiter (C12)
                    let which = rng.below(9);
                    let (desc, got_err): (String, bool) = match which {
                        0..=4 => {
                            let body = match which {
                                0 => "{\"key\":\"k\",\"max_burst\":2,".to_string(),
                                1 => "{\"key\":\"k\",\"max_burst\":\"2\",\"count_per_period\":1,\"period\":60}".to_string(),
                                2 => "{\"key\":\"k\",\"max_burst\":2,\"count_per_period\":1}".to_string(),
                                3 => "{\"key\":\"k\",\"max_burst\":9223372036854775808,\"count_per_period\":1,\"period\":60}".to_string(),
                                _ => "{\"key\":\"k\",\"max_burst\":2.5,\"count_per_period\":1,\"period\":60}".to_string(),
                            };
                            let (a, status) = http_throttle(ports.http, &body).await;
                            if status == 200 || status == 500 {
                                seen.http += 1;
                            }
                            (format!("HTTP POST /throttle {body} -> {}", a.show()), matches!(a, WireAns::Err(_)) && (400..500).contains(&status))
                        }
                        _ => {
                            let parts: Vec<&[u8]> = match which {
                                5 => vec![b"THROTTLE", b"k", b"2", b"1"],
                                6 => vec![b"THROTTLE", b"k", b"2", b"1", b"60", b"1", b"1"],
                                7 => vec![b"throttle", b"k", b"two", b"1", b"60"],
                                _ => vec![b"THROTTLE", b"k", b"2", b"1", b"60", b"1.0"],
                            };
                            let mut cmd = format!("*{}\r\n", parts.len()).into_bytes();
                            for p in &parts {
                                cmd.extend(format!("${}\r\n", p.len()).as_bytes());
                                cmd.extend_from_slice(p);
                                cmd.extend(b"\r\n");
                            }
                            if resp_conn.is_none() {
                                resp_conn = RespConn::open(ports.resp).await.ok();
                            }
                            let r = match resp_conn.as_mut() {
                                Some(c) => c.call(&cmd).await,
                                None => Err("connect failed".into()),
                            };
                            if r.is_ok() {
                                seen.resp += 1;
                            } else {
                                resp_conn = None;
                            }
                            let a = resp_answer(r);
                            (format!("RESP {} -> {}", hx(&cmd), a.show()), matches!(a, WireAns::Err(_)))
                        }
                    };
                    out.bump("refused_requests");
                    let log = take_log();
                    if !got_err {
                        out.violation("C12", format!("malformed request did not get a protocol-level error: {desc}"), vec![format!("# {desc}")]);
                    }
                    if let Some(pl) = log.iter().find(|l| l.starts_with("proc ")) {
                        out.violation("C12", format!("malformed request reached the limiter ({pl}): {desc}"), vec![format!("# {desc}")]);
                    }
                    continue;
                }
                if kind == 3 {
                    // RESP traffic that is not THROTTLE still counts as a RESP request
                    if resp_conn.is_none() {
                        resp_conn = RespConn::open(ports.resp).await.ok();
                    }
                    if let Some(c) = resp_conn.as_mut() {
                        let cmd: &[u8] = match rng.below(4) {
                            0 => b"*1\r\n$4\r\nPING\r\n",
                            1 => b"*2\r\n$4\r\nPING\r\n$2\r\nhi\r\n",
                            2 => b"*1\r\n$3\r\nGET\r\n",
                            // F7 shape: a 5-element array echoed by PING
                            _ => b"*2\r\n$4\r\nPING\r\n*5\r\n:0\r\n:0\r\n:0\r\n:0\r\n:0\r\n",
                        };
                        let mut p = RespParser::new();
                        if let Dec::Ok(v, _) = parse_with(&mut p, cmd) {
                            recent.push(format!("rplan {} {}", crate::val::show(&v), crate::val::upper_of(&v)));
                        }
                        if c.call(cmd).await.is_ok() {
                            seen.resp += 1;
                        } else {
                            resp_conn = None;
                        }
                    }
                    let log = take_log();
                    if log.iter().any(|l| l.starts_with("proc ")) {
                        out.violation("C12", "a non-THROTTLE RESP command reached the limiter".into(), vec![]);
                    }
                    continue;
                }
                // ---- a logical request
                let mut l = Logical {
                    key: keys[rng.below(nk as u64) as usize].clone(),
                    b,
                    c,
                    p,
                    q: if rng.chance(1, 3) { None } else { Some(rng.pick(&[1i64, 1, 1, 2, 0])) },
                };
                if kind == 4 {
                    // invalid limits: reach the limiter, come back as errors
                    match rng.below(4) {
                        0 => l.b = rng.pick(&[0i64, -1]),
                        1 => l.c = 0,
                        2 => l.p = -60,
                        _ => l.q = Some(-1),
                    }
                }
                let (proto, ans, desc) = route(&mut rng, &ports, &l, &mut seen, &mut resp_conn).await;
                out.bump(&format!("requests_{proto:?}"));
                let log = take_log();
                let procs: Vec<(Vec<String>, String)> = log.iter().filter_map(|x| parse_proc(x)).collect();
                let replay = vec![format!("# batch {batch} step {step}: {desc} -> {}", ans.show())];
                if let WireAns::Broken(e) = &ans {
                    out.violation("C11", format!("no answer on {proto:?}: {e}"), replay.clone());
                    continue;
                }
                if procs.len() != 1 {
                    out.violation("C12", format!("one request on {proto:?} caused {} limiter calls", procs.len()), replay.clone());
                    continue;
                }
                let (id, resp) = &procs[0];
                // the request the library saw = the logical request; omitted quantity = 1
                let want_id = [hx(l.key.as_bytes()), l.b.to_string(), l.c.to_string(), l.p.to_string(), l.q.unwrap_or(1).to_string()];
                if id[..5] != want_id {
                    out.violation("C12", format!("{proto:?}: the limiter saw {:?} for the logical request {:?}", &id[..5], want_id), replay.clone());
                }
                if l.q.is_none() {
                    out.bump("quantity_omitted");
                }
                // the wire answer = the library's answer, field by field
                if &ans.show() != resp {
                    out.violation("C12", format!("{proto:?}: wire answer {} but the limiter decided {resp}", ans.show()), replay.clone());
                }
                if let WireAns::Ok(false, ..) = ans {
                    seen.denied += 1;
                    out.bump("wire_denied");
                } else if let WireAns::Ok(true, ..) = ans {
                    out.bump("wire_allowed");
                } else {
                    out.bump("wire_errors");
                }
                events.push(format!("call:0:{idx}:{}", id.join(":")));
                events.push(format!("proc:0:{idx}:{resp}"));
                events.push(format!("ret:0:{idx}:{}", ans.show()));
                idx += 1;
                nproc += 1;
            }
            if !events.is_empty() {
                out.line(format!("atrace-loose {cap} {store_token} {}", events.join(";")), format!("ok {nproc}"));
            }
            check_metrics(&ports, &metrics, &mut seen, out, &format!("after batch {batch}"), &mut recent).await;
        }

        phase(out, "batches");
        // ------------------------------------------------------------------ concurrency (C09)
        let rounds = (n / 5).max(2);
        for round in 0..rounds {
            let nreq = rng.range(2, 24) as usize;
            let b = rng.range(1, nreq as i64 + 2);
            let key = format!("race{round}");
            let barrier = Arc::new(tokio::sync::Barrier::new(nreq));
            let mut hs = vec![];
            for i in 0..nreq {
                let proto = rng.pick(&[Proto::Http, Proto::Grpc, Proto::Resp]);
                let l = Logical { key: key.clone(), b, c: 1, p: 86400, q: Some(1) };
                let mut r = rng.fork();
                let bar = barrier.clone();
                let (hp, gp, rp) = (ports.http, ports.grpc, ports.resp);
                hs.push(tokio::spawn(async move {
                    let _ = i;
                    match proto {
                        Proto::Http => {
                            let body = json_body(&mut r, &l);
                            bar.wait().await;
                            (proto, http_throttle(hp, &body).await.0)
                        }
                        Proto::Grpc => {
                            // connect first so that the RPCs themselves start together
                            let c = RateLimiterClient::connect(format!("http://127.0.0.1:{gp}")).await;
                            bar.wait().await;
                            match c {
                                Err(e) => (proto, WireAns::Broken(e.to_string())),
                                Ok(mut c) => match c.throttle(tonic::Request::new(GrpcRequest { key: l.key.clone(), max_burst: l.b as i32, count_per_period: 1, period: 86400, quantity: 1 })).await {
                                    Ok(x) => {
                                        let x = x.into_inner();
                                        (proto, WireAns::Ok(x.allowed, x.limit as i64, x.remaining as i64, x.reset_after as i64, x.retry_after as i64))
                                    }
                                    Err(s) => (proto, WireAns::Err(s.to_string())),
                                },
                            }
                        }
                        Proto::Resp => {
                            let cmd = resp_command(&mut r, &l);
                            let c = RespConn::open(rp).await;
                            bar.wait().await;
                            match c {
                                Err(e) => (proto, WireAns::Broken(e)),
                                Ok(mut c) => (proto, resp_answer(c.call(&cmd).await)),
                            }
                        }
                    }
                }));
            }
            let mut admitted = 0i64;
            let mut inverted = 0i64;
            let mut answers = vec![];
            for h in hs {
                let (proto, a) = h.await.unwrap();
                match proto {
                    Proto::Http => seen.http += 1,
                    Proto::Grpc => seen.grpc += 1,
                    Proto::Resp => seen.resp += 1,
                }
                match &a {
                    WireAns::Ok(true, ..) => admitted += 1,
                    WireAns::Ok(false, ..) => seen.denied += 1,
                    _ => {}
                }
                if stamp_inverted(&a) {
                    inverted += 1;
                }
                answers.push(format!("{proto:?}:{}", a.show()));
            }
            tokio::time::sleep(Duration::from_millis(5)).await;
            let log = take_log();
            let procs: Vec<(Vec<String>, String)> = log.iter().filter_map(|x| parse_proc(x)).collect();
            out.bump("concurrency_rounds");
            out.add("concurrent_requests", nreq as u64);
            let replay = vec![format!("# wire: {nreq} simultaneous unit requests on fresh key {key}, burst {b}, count 1 per 86400 s: {}", answers.join(" "))];
            let want = (nreq as i64).min(b);
            if admitted != want {
                out.violation(race_tag(admitted, want, inverted), format!("{nreq} simultaneous unit requests over mixed protocols, burst {b}: {admitted} admitted, want {want}"), replay.clone());
            }
            let padmit = procs.iter().filter(|p| p.1.starts_with("ok,1")).count() as i64;
            if procs.len() != nreq || padmit != admitted {
                out.violation("C09", format!("{nreq} requests sent, limiter processed {} and admitted {padmit}, clients saw {admitted} admitted", procs.len()), replay.clone());
            }
            // the multiset of answers on the wire = the multiset of limiter decisions
            let mut a1: Vec<String> = answers.iter().map(|x| x.split_once(':').unwrap().1.to_string()).collect();
            let mut a2: Vec<String> = procs.iter().map(|p| p.1.clone()).collect();
            a1.sort();
            a2.sort();
            if a1 != a2 {
                out.violation("C12", "answers on the wire differ (as a multiset) from the limiter's decisions".into(), replay.clone());
            }
            // as a loose trace: one client per request
            let mut ev = vec![];
            for (i, (id, _)) in procs.iter().enumerate() {
                ev.push(format!("call:{i}:0:{}", id.join(":")));
            }
            for (i, (_, resp)) in procs.iter().enumerate() {
                ev.push(format!("proc:{i}:0:{resp}"));
                ev.push(format!("ret:{i}:0:{resp}"));
            }
            if procs.len() == nreq {
                out.line(format!("atrace-loose {cap} {store_token} {}", ev.join(";")), format!("ok {}", procs.len()));
            }
        }
        // ------------------------------------------------------------------ the DOCUMENTED gRPC schema (C12, C09)
        // one shared bucket addressed by the hand-written client with the documented field numbers, HTTP, the generated
        // gRPC client and RESP in turn
        for round in 0..(n / 20).max(1) {
            let b = rng.range(4, 6);
            let key = format!("docschema{round}");
            let (answers, times) = documented_schema_round(&ports, &mut rng, &key, b).await;
            let log = take_log();
            let procs: Vec<(Vec<String>, String)> = log.iter().filter_map(|x| parse_proc(x)).collect();
            out.bump("documented_schema_rounds");
            let mut transcript = vec![format!("# wire: one bucket (fresh key {key}, burst {b}, 1 per 3600 s) addressed by four kinds of client in turn; GrpcDocumented = hand-written messages with the documented field numbers (response: allowed=1 limit=2 remaining=3 retry_after=4 reset_after=5)")];
            for (i, (who, a, st)) in answers.iter().enumerate() {
                match who.proto() {
                    Proto::Http if *st == 200 || *st == 500 => seen.http += 1,
                    Proto::Grpc if !matches!(a, WireAns::Broken(_)) => seen.grpc += 1,
                    Proto::Resp if !matches!(a, WireAns::Broken(_)) => seen.resp += 1,
                    _ => {}
                }
                match a {
                    WireAns::Ok(false, ..) => seen.denied += 1,
                    WireAns::Err(_) if who.proto() != Proto::Resp => seen.errors += 1,
                    _ => {}
                }
                transcript.push(format!("# request {} over {who:?} -> {}{}", i + 1, a.show(), procs.get(i).map(|p| format!("   (limiter: {})", p.1)).unwrap_or_default()));
            }
            for (prop, what) in judge_documented_schema(b, &answers, &times) {
                out.violation(prop, what, transcript.clone());
            }
            if procs.len() != answers.len() {
                out.violation("C12", format!("{} sequential requests on one bucket caused {} limiter calls", answers.len(), procs.len()), transcript.clone());
            } else {
                let mut events = vec![];
                for (i, ((who, a, _), (id, resp))) in answers.iter().zip(procs.iter()).enumerate() {
                    if &a.show() != resp {
                        out.violation("C12", format!("{who:?}: the answer decoded from the wire is {} but the limiter decided {resp} (reset_after / retry_after are the 4th / 5th number)", a.show()), transcript.clone());
                        if who.proto() == Proto::Grpc {
                            out.violation("C09", format!("one shared bucket: {who:?} reports {} where the limiter - and the other protocols - say {resp}", a.show()), transcript.clone());
                        }
                        events.clear();
                        break;
                    }
                    events.push(format!("call:0:{i}:{};proc:0:{i}:{resp};ret:0:{i}:{}", id.join(":"), a.show()));
                }
                if !events.is_empty() {
                    out.line(format!("atrace-loose {cap} {store_token} {}", events.join(";")), format!("ok {}", events.len()));
                }
            }
        }
        check_metrics(&ports, &metrics, &mut seen, out, "after the concurrency rounds", &mut recent).await;

        phase(out, "concurrency");
        // ------------------------------------------------------------------ protocol features (feat.rs: C12, C09, C10, C11, C15)
        // the same server addressed over keep-alive / pipelined / chunked / HTTP/1.0 connections, one multiplexed gRPC
        // channel with deadlines and cancellations, long-lived RESP connections and pipelines
        for round in 0..(n / 20).max(1) {
            let header = format!("wire: protocol-features round {round} (server: store {store_token}, queue {cap})");
            let mut fx = crate::feat::Fx::new(ports, rng.fork(), true, format!("ft{round}_"), header);
            fx.empty_key = round == 0;
            fx.heavy = round == 0;
            fx.round = round;
            fx.metrics = Some(Arc::clone(&metrics));
            fx.run_all(out, (n / 40).max(1)).await;
            let m = fx.moved();
            seen.http += m.http;
            seen.grpc += m.grpc;
            seen.resp += m.resp;
            seen.denied += m.denied;
            seen.errors += m.errors;
            // the limiter calls of the round as ONE trace for the model (every key of the round is fresh)
            if fx.clean.get() && !fx.trace.is_empty() {
                let line = fx.trace.join(";");
                let nproc = line.matches(";proc:").count() + line.starts_with("proc:") as usize;
                if line.len() < 2_000_000 {
                    out.line(format!("atrace-loose {cap} {store_token} {line}"), format!("ok {nproc}"));
                }
            }
            take_log();
        }
        check_metrics(&ports, &metrics, &mut seen, out, "after the protocol-features rounds", &mut recent).await;
        phase(out, "features");
        // ------------------------------------------------------------------ long keys sharing a long prefix (C09, C12)
        for round2 in 0..2 * (n / 15).max(1) {
            let round = round2 / 2;
            let prefix = crate::cmd::FAMILY_PREFIXES[round % 5];
            let max_len = if round % 5 >= 3 { 60_000 } else { 6_000 };
            // odd passes: near-identical SHORT keys (trailing line break / blank / NUL, case, Unicode composition)
            let fam = if round2 % 2 == 1 {
                crate::cmd::near_family(&mut rng, &format!("wn{round}_"))
            } else {
                crate::cmd::prefix_family(&mut rng, &format!("wf{round}_"), prefix, round % 2 == 1, max_len)
            };
            let b = rng.range(1, 3);
            let start = rng.below(3) as usize;
            let mut events: Vec<String> = vec![];
            let mut idx = 0usize;
            let mut transcript: Vec<String> = vec![format!("# wire: {}; burst {b}, 1 per 86400 s", fam.what)];
            // each of the first three keys in turn: burst + 1 requests, rotating over the protocols
            for (ki, key) in fam.keys[..3].iter().enumerate() {
                for i in 0..=b {
                    let proto = [Proto::Http, Proto::Grpc, Proto::Resp][(start + ki + i as usize) % 3];
                    let l = Logical { key: key.clone(), b, c: 1, p: 86400, q: Some(1) };
                    let (ans, _) = send_proto(proto, &mut rng, &ports, &l, &mut seen, &mut resp_conn, false).await;
                    let log = take_log();
                    let procs: Vec<(Vec<String>, String)> = log.iter().filter_map(|x| parse_proc(x)).collect();
                    out.bump("family_requests");
                    transcript.push(format!("# key {} ({} bytes), request {} over {proto:?} -> {}", ki + 1, key.len(), i + 1, ans.show()));
                    if let WireAns::Ok(false, ..) = ans {
                        seen.denied += 1;
                    }
                    let good = if i < b { matches!(ans, WireAns::Ok(true, lim, rem, _, 0) if lim == b && rem == b - 1 - i) } else { matches!(ans, WireAns::Ok(false, lim, 0, _, _) if lim == b) };
                    if !good {
                        let (prop, why) = if matches!(ans, WireAns::Ok(..)) { ("C09", "distinct keys have independent budgets") } else { ("C12", "every protocol answers the request with the limiter's decision") };
                        out.violation(
                            prop,
                            format!("request {} of {} on the so far unused key {} of a family ({}) went over {proto:?} and was answered {}, want ok,{},{b},{},_,_ ({why})", i + 1, b + 1, ki + 1, fam.what, ans.show(), (i < b) as u8, (b - 1 - i).max(0)),
                            transcript.clone(),
                        );
                    }
                    if procs.len() != 1 || procs[0].1 != ans.show() || procs[0].0[0] != hx(key.as_bytes()) {
                        out.violation("C12", format!("{proto:?}, key of {} bytes: limiter log {:?}, wire answer {}", key.len(), procs.iter().map(|p| (p.0[0].len() / 2, &p.1)).collect::<Vec<_>>(), ans.show()), transcript.clone());
                    } else {
                        let (id, resp) = &procs[0];
                        events.push(format!("call:0:{idx}:{}", id.join(":")));
                        events.push(format!("proc:0:{idx}:{resp}"));
                        events.push(format!("ret:0:{idx}:{}", ans.show()));
                        idx += 1;
                    }
                }
            }
            if !events.is_empty() && events.iter().map(|e| e.len()).sum::<usize>() < 400_000 {
                out.line(format!("atrace-loose {cap} {store_token} {}", events.join(";")), format!("ok {idx}"));
            }
            // the fourth key differs from the first (exhausted by now) in its last byte only: N simultaneous requests
            let key = fam.keys[3].clone();
            let nreq = (b + rng.range(1, 6)) as usize;
            let l = Logical { key: key.clone(), b, c: 1, p: 86400, q: Some(1) };
            let answers = simultaneous(&ports, &mut rng, &l, nreq).await;
            tokio::time::sleep(Duration::from_millis(5)).await;
            let log = take_log();
            let procs: Vec<(Vec<String>, String)> = log.iter().filter_map(|x| parse_proc(x)).collect();
            let mut admitted = 0i64;
            let mut inverted = 0i64;
            for (proto, a, st) in &answers {
                match proto {
                    Proto::Http if *st == 200 || *st == 500 => seen.http += 1,
                    Proto::Grpc if !matches!(a, WireAns::Broken(_)) => seen.grpc += 1,
                    Proto::Resp if !matches!(a, WireAns::Broken(_)) => seen.resp += 1,
                    _ => {}
                }
                match a {
                    WireAns::Ok(true, ..) => admitted += 1,
                    WireAns::Ok(false, ..) => seen.denied += 1,
                    _ => {}
                }
                if stamp_inverted(a) {
                    inverted += 1;
                }
            }
            out.bump("family_races");
            transcript.push(format!("# {nreq} simultaneous unit requests on key 4 ({} bytes, = key 1 but for its last byte): {}", key.len(), answers.iter().map(|x| format!("{:?}:{}", x.0, x.1.show())).collect::<Vec<_>>().join(" ")));
            if admitted != (nreq as i64).min(b) {
                out.violation(race_tag(admitted, (nreq as i64).min(b), inverted), format!("{nreq} simultaneous unit requests over mixed protocols on an unused key of {} bytes, burst {b}, while a key that differs from it in the last byte only is exhausted: {admitted} admitted, want {}", key.len(), (nreq as i64).min(b)), transcript.clone());
            }
            if procs.len() == nreq {
                let mut ev = vec![];
                for (i, (id, _)) in procs.iter().enumerate() {
                    ev.push(format!("call:{i}:0:{}", id.join(":")));
                }
                for (i, (_, resp)) in procs.iter().enumerate() {
                    ev.push(format!("proc:{i}:0:{resp}"));
                    ev.push(format!("ret:{i}:0:{resp}"));
                }
                if ev.iter().map(|e| e.len()).sum::<usize>() < 400_000 {
                    out.line(format!("atrace-loose {cap} {store_token} {}", ev.join(";")), format!("ok {}", procs.len()));
                }
            }
        }

        phase(out, "families");
        // ------------------------------------------------------------------ large requests: the same answer on every protocol (C12)
        for round in 0..(n / 40).max(1) {
            let (b, c, p) = (10i64, 1i64, 3600i64);
            for (what, key) in large_keys(&mut rng, &format!("wl{round}_"), b, c, p) {
                let start = rng.below(3) as usize;
                let mut transcript = vec![format!("# wire: one bucket (burst {b}, {c} per {p} s) addressed over RESP, gRPC and HTTP with a key of {what}")];
                for i in 0..3usize {
                    let proto = [Proto::Resp, Proto::Grpc, Proto::Http][(start + i) % 3];
                    let l = Logical { key: key.clone(), b, c, p, q: if proto == Proto::Grpc { Some(1) } else { None } };
                    let ans = match proto {
                        Proto::Resp => match RespConn::open(ports.resp).await {
                            Ok(mut conn) => {
                                let r = conn.call(&resp_command_min(&l)).await;
                                if r.is_ok() {
                                    seen.resp += 1;
                                }
                                resp_answer(r)
                            }
                            Err(e) => WireAns::Broken(e),
                        },
                        _ => send_proto(proto, &mut rng, &ports, &l, &mut seen, &mut resp_conn, false).await.0,
                    };
                    let log = take_log();
                    let procs: Vec<(Vec<String>, String)> = log.iter().filter_map(|x| parse_proc(x)).collect();
                    out.bump("large_requests");
                    let shown = match &ans {
                        WireAns::Err(e) => format!("error {:?}", e.chars().take(120).collect::<String>()),
                        a => a.show(),
                    };
                    transcript.push(format!("# request {} over {proto:?} -> {shown}", i + 1));
                    let want_rem = b - 1 - i as i64;
                    if !matches!(ans, WireAns::Ok(true, lim, rem, _, 0) if lim == b && rem == want_rem) {
                        out.violation("C12", format!("key of {what}: request {} on the shared bucket went over {proto:?} and was answered {shown}, want ok,1,{b},{want_rem},_,0 as on the other protocols", i + 1), transcript.clone());
                    } else if procs.len() != 1 || procs[0].1 != ans.show() || procs[0].0[0] != hx(key.as_bytes()) {
                        out.violation("C12", format!("key of {what} over {proto:?}: limiter log {:?}, wire answer {}", procs.iter().map(|p| (p.0[0].len() / 2, &p.1)).collect::<Vec<_>>(), ans.show()), transcript.clone());
                    }
                }
            }
            // HTTP alone: bodies of 100 KB and 1 MB are below the framework's 2 MB default
            for len in [100_000usize, 1_000_000] {
                let key = format!("wl{round}_http_{}", "k".repeat(len));
                let l = Logical { key, b, c, p, q: None };
                let body = json_body(&mut rng, &l);
                let (ans, status) = http_throttle(ports.http, &body).await;
                if status == 200 || status == 500 {
                    seen.http += 1;
                }
                take_log();
                out.bump("large_requests");
                if !matches!(ans, WireAns::Ok(true, 10, 9, _, 0)) {
                    let shown = match &ans {
                        WireAns::Err(e) => format!("error {:?}", e.chars().take(120).collect::<String>()),
                        a => a.show(),
                    };
                    out.violation("C12", format!("HTTP request with a key of {len} bytes (body of {} bytes, below the 2 MB limit) was answered {shown} (status {status}), want ok,1,10,9,_,0", body.len()), vec![format!("# wire: POST /throttle with a key of {len} x 'k'")]);
                }
            }
        }
        check_metrics(&ports, &metrics, &mut seen, out, "after the long-key rounds", &mut recent).await;

        phase(out, "large_requests");
        // ------------------------------------------------------------------ poison (C11)
        let prounds = (n / 10).max(1);
        for round in 0..prounds {
            let mut descr = vec![];
            // hostile numbers on every protocol
            for k in 0..10 {
                let l = Logical {
                    key: format!("hostile{round}"),
                    b: rng.pick(&LATTICE),
                    c: rng.pick(&LATTICE),
                    p: rng.pick(&LATTICE),
                    q: if rng.chance(1, 3) { None } else { Some(rng.pick(&LATTICE)) },
                };
                let l = if k % 3 == 2 {
                    // representable on gRPC
                    let g = [i32::MIN as i64, -1, 0, 1, 2, i32::MAX as i64];
                    Logical { key: l.key, b: rng.pick(&g), c: rng.pick(&g), p: rng.pick(&g), q: Some(rng.pick(&g)) }
                } else {
                    l
                };
                let (proto, ans, desc) = route(&mut rng, &ports, &l, &mut seen, &mut resp_conn).await;
                if let WireAns::Ok(false, ..) = ans {
                    seen.denied += 1;
                }
                out.bump("hostile_requests");
                descr.push(format!("{proto:?} {desc} -> {}", ans.show()));
                if let WireAns::Broken(e) = &ans {
                    out.violation("C11", format!("hostile request got no answer at all on {proto:?}: {e}"), vec![format!("# {desc}")]);
                }
            }
            // the hostile numeric lattice one field at a time (`cmd::extreme_requests`: 2^31, 2^32, 2^33, 3 x 2^32, 2^53,
            // 2^63-1, ... in each of max_burst, count_per_period, period, quantity, the other fields valid and small, plus
            // all-extreme combinations) over RESP and HTTP, and over gRPC the values an int32 carries: every request is
            // ANSWERED by the limiter (a decision or an error), and the answer on the wire is the limiter's
            take_log();
            'sweep: for proto in [Proto::Resp, Proto::Http, Proto::Grpc] {
                for (field, b, c, p, q) in crate::cmd::extreme_requests() {
                    let l = Logical { key: format!("x{round}_{proto:?}_{field}"), b, c, p, q: Some(q) };
                    if proto == Proto::Grpc && !fits_i32(&l) {
                        continue;
                    }
                    let (ans, desc) = send_proto(proto, &mut rng, &ports, &l, &mut seen, &mut resp_conn, false).await;
                    let log = take_log();
                    let procs: Vec<(Vec<String>, String)> = log.iter().filter_map(|x| parse_proc(x)).collect();
                    out.bump("extreme_number_requests");
                    if let WireAns::Ok(false, ..) = ans {
                        seen.denied += 1;
                    }
                    let txt: String = match &ans {
                        WireAns::Err(e) => e.chars().take(160).collect(),
                        a => a.show(),
                    };
                    descr.push(format!("{proto:?} max_burst {b} count_per_period {c} period {p} quantity {q} ({field} extreme) -> {txt}"));
                    let replay = vec![format!("# wire: {desc}"), format!("# -> {txt}")];
                    let gone = matches!(&ans, WireAns::Err(e) if e.contains("has shut down") || e.contains("dropped response channel"));
                    if gone || matches!(ans, WireAns::Broken(_)) {
                        out.violation(
                            "C11",
                            format!("a well-formed request with positive numbers (max_burst {b}, count_per_period {c}, period {p}, quantity {q}: {field} extreme) over {proto:?} was answered {txt:?} - {}", if gone { "the limiter no longer serves" } else { "no answer at all" }),
                            replay,
                        );
                        break 'sweep;
                    }
                    if procs.len() != 1 {
                        out.violation("C12", format!("one {proto:?} request with an extreme {field} caused {} limiter calls", procs.len()), replay);
                    } else if procs[0].1 != ans.show() {
                        // (gRPC carries int32: a decision with a number beyond that - a wait of 2^31 s or more - cannot
                        // arrive intact; observed on the unmodified server: the low 32 bits arrive.  Not judged here.)
                        let fits = procs[0].1.split(',').skip(1).all(|x| x.parse::<i32>().is_ok());
                        if proto != Proto::Grpc || fits {
                            out.violation("C12", format!("{proto:?}, extreme {field}: wire answer {} but the limiter decided {}", ans.show(), procs[0].1), replay);
                        } else {
                            out.bump("grpc_answers_beyond_int32_not_judged");
                        }
                    }
                }
            }
            // abrupt closes in the middle of a request
            for (port, bytes) in [
                (ports.http, &b"POST /throttle HTTP/1.1\r\nHost: x\r\nContent-Length: 100\r\n\r\n{\"key\":"[..]),
                (ports.resp, &b"*5\r\n$8\r\nTHROTTLE\r\n$1\r\nk\r\n$1"[..]),
                (ports.grpc, &b"PRI * HTTP/2.0\r\n\r\nSM\r\n\r\n\x00\x00"[..]),
                (ports.grpc, &b"GET / HTTP/1.1\r\n\r\n"[..]),
                (ports.http, &b"\x00\xff\xfe garbage\r\n\r\n"[..]),
            ] {
                if let Ok(mut s) = TcpStream::connect(("127.0.0.1", port)).await {
                    let _ = s.write_all(bytes).await;
                    drop(s);
                }
                descr.push(format!("abrupt close after {} bytes on port {port}", bytes.len()));
            }
            // 70 KB of RESP garbage in one frame
            if let Ok(mut s) = TcpStream::connect(("127.0.0.1", ports.resp)).await {
                let mut g = b"$70000\r\n".to_vec();
                g.extend(std::iter::repeat(b'g').take(70000));
                let _ = s.write_all(&g).await;
                let mut sink = vec![0u8; 1024];
                let _ = tokio::time::timeout(Duration::from_millis(300), s.read(&mut sink)).await;
                descr.push("70 KB RESP frame".into());
            }
            // oversized HTTP body / deep JSON
            {
                let deep = format!("{}1{}", "[".repeat(5000), "]".repeat(5000));
                let (a, status) = http_throttle(ports.http, &deep).await;
                if status == 200 || status == 500 {
                    seen.http += 1;
                }
                descr.push(format!("deep JSON -> {}", a.show()));
            }
            tokio::time::sleep(Duration::from_millis(20)).await;
            take_log();
            // deeply nested RESP frames, each on a connection of its own: up to 128 levels a value like any other (answered
            // with the error for "not a command", the connection goes on serving), deeper ones rejected (C13)
            for depth in NEST_DEPTHS {
                let frame = nested_frame(depth);
                let (reply, ping) = match RespConn::open(ports.resp).await {
                    Err(e) => (Err(e), None),
                    Ok(mut c) => {
                        let r = c.call(&frame).await;
                        let ping = if r.is_ok() { Some(c.call(b"*1\r\n$4\r\nPING\r\n").await) } else { None };
                        (r, ping)
                    }
                };
                if matches!(ping, Some(Ok(_))) {
                    seen.resp += 1;
                }
                out.bump("nested_frames");
                descr.push(format!("RESP frame nested {depth} deep -> {}", match &reply { Ok(v) => crate::val::show(v), Err(e) => format!("no reply ({e})") }));
                if let Some(what) = judge_nested(depth, &reply, &ping) {
                    out.violation("C13", what, vec![format!("# wire: new RESP connection, one write of {} x `*1` + `:1`, then PING", depth), crate::resp::rdec_line(&frame)]);
                }
            }
            // k complete THROTTLE commands - some of them denied - and then a frame the decoder rejects, in ONE write: the
            // commands in front of the bad frame are executed and counted, so each of them is answered before the
            // connection is closed (C10), and the counters agree with what the client was told (C15)
            for (fi, (what, bad)) in rejected_frames().into_iter().enumerate() {
                if crate::resp::dec(&bad) != Dec::Error {
                    out.bump("rejected_frames_the_decoder_does_not_reject");
                    continue;
                }
                let k = rng.range(3, 6);
                let b = rng.range(1, k - 1);
                let l = Logical { key: format!("pipe{round}_{fi}"), b, c: 1, p: 3600, q: Some(1) };
                let mut bytes = vec![];
                for _ in 0..k {
                    bytes.extend(resp_command(&mut rng, &l));
                }
                bytes.extend_from_slice(&bad);
                let before = counters(&metrics);
                let r = resp_write_read_to_end(ports.resp, &bytes, Duration::from_secs(3)).await;
                tokio::time::sleep(Duration::from_millis(30)).await;
                let after = counters(&metrics);
                let log = take_log();
                let executed = log.iter().filter_map(|x| parse_proc(x)).count();
                out.bump("pipelines_before_a_rejected_frame");
                let (replies, closed, rest) = match r {
                    Ok(x) => x,
                    Err(e) => {
                        out.violation("C11", format!("cannot open a RESP connection: {e}"), vec![]);
                        continue;
                    }
                };
                let answers: Vec<WireAns> = replies.into_iter().map(|v| resp_answer(Ok(v))).collect();
                let got_denied = answers.iter().filter(|a| matches!(a, WireAns::Ok(false, ..))).count() as u64;
                let (d_redis, d_allowed, d_denied) = (after.redis - before.redis, after.allowed - before.allowed, after.denied - before.denied);
                let replay = vec![
                    format!("# wire: new RESP connection, ONE write: {k} x THROTTLE {} {b} 1 3600 1, then {what} ({})", l.key, hx(&bad)),
                    format!("rconn {}", hx(&bytes)),
                    format!("# replies received: {} [{}]; connection closed by the server: {closed}; {rest} more bytes that are no complete reply", answers.len(), answers.iter().map(|a| a.show()).collect::<Vec<_>>().join(" ")),
                    format!("# limiter calls: {executed}; counters moved by: redis +{d_redis} allowed +{d_allowed} denied +{d_denied}"),
                ];
                descr.push(format!("RESP pipeline of {k} THROTTLEs + {what} -> {} replies", answers.len()));
                if answers.len() as i64 != k {
                    out.violation("C10", format!("{k} complete THROTTLE commands followed by {what} in one write: {} replies arrived before the server closed the connection (the limiter executed {executed} of the commands)", answers.len()), replay.clone());
                }
                if d_redis != answers.len() as u64 || d_denied != got_denied {
                    out.violation(
                        "C15",
                        format!("{k} THROTTLE commands followed by {what} in one write: the counters moved by redis +{d_redis} (allowed +{d_allowed}, denied +{d_denied}) but the client received {} replies, {got_denied} of them denials - what was counted is not what clients were told", answers.len()),
                        replay.clone(),
                    );
                }
                for (i, a) in answers.iter().enumerate() {
                    let i = i as i64;
                    let good = if i < b { matches!(a, WireAns::Ok(true, lim, rem, _, 0) if *lim == b && *rem == b - 1 - i) } else { matches!(a, WireAns::Ok(false, lim, 0, _, _) if *lim == b) };
                    if !good {
                        out.violation("C12", format!("reply {} of a pipeline of {k} unit requests on a fresh key, burst {b}: {}, want ok,{},{b},{},_,_", i + 1, a.show(), (i < b) as u8, (b - 1 - i).max(0)), replay.clone());
                        break;
                    }
                }
                // (reported once: the next quiescent check starts from what the server counted)
                seen.resp += d_redis;
                seen.denied += d_denied;
            }
            // hostile KEYS on every protocol, each in a pair burst 1, 1 per 3600 s: the first is allowed, the
            // second DENIED, which is what hands the key to the denied-key tracking of the transport
            for (pi, proto) in [Proto::Http, Proto::Grpc, Proto::Resp].into_iter().enumerate() {
                let mut events: Vec<String> = vec![];
                let mut idx = 0usize;
                for (what, key) in hostile_keys(&format!("hk{round}_{proto:?}_"), ((round * 3 + pi) % 1000) as u32) {
                    for half in 0..2 {
                        let q = if proto == Proto::Grpc || rng.chance(1, 2) { Some(1) } else { None };
                        let l = Logical { key: key.clone(), b: 1, c: 1, p: 3600, q };
                        let tab_before = metrics.verif_denied_table().unwrap_or_default();
                        let (ans, desc) = send_proto(proto, &mut rng, &ports, &l, &mut seen, &mut resp_conn, false).await;
                        let tab_after = metrics.verif_denied_table().unwrap_or_default();
                        let log = take_log();
                        let procs: Vec<(Vec<String>, String)> = log.iter().filter_map(|x| parse_proc(x)).collect();
                        out.bump("hostile_key_requests");
                        let shown: String = desc.chars().take(400).collect();
                        descr.push(format!("{proto:?} key of {} bytes ({what}), request {} of the pair -> {}", key.len(), half + 1, ans.show()));
                        let replay = vec![format!("# wire: key of {} bytes ({what}), burst 1, 1 per 3600 s, request {} of 2: {shown} -> {}", key.len(), half + 1, ans.show())];
                        match &ans {
                            WireAns::Broken(e) => {
                                out.violation("C11", format!("request with a hostile key ({what}) got no answer at all on {proto:?}: {e}"), replay.clone());
                                continue;
                            }
                            WireAns::Ok(false, ..) => seen.denied += 1,
                            _ => {}
                        }
                        let as_wanted = if half == 0 { matches!(ans, WireAns::Ok(true, 1, 0, _, _)) } else { matches!(ans, WireAns::Ok(false, 1, 0, _, rt) if rt >= 0) };
                        if !as_wanted {
                            out.violation(
                                "C12",
                                format!("{proto:?}: request {} of a pair on a fresh hostile key ({what}), burst 1: answered {}, want {}", half + 1, ans.show(), if half == 0 { "ok,1,1,0,_,_" } else { "ok,0,1,0,_,>=0" }),
                                replay.clone(),
                            );
                        }
                        if procs.len() != 1 || procs[0].1 != ans.show() || procs[0].0[..5] != [hx(key.as_bytes()), "1".into(), "1".into(), "3600".into(), "1".into()] {
                            out.violation("C12", format!("{proto:?}, hostile key ({what}): limiter log {:?}, wire answer {}", procs.iter().map(|p| (&p.0[1..], &p.1)).collect::<Vec<_>>(), ans.show()), replay.clone());
                        } else {
                            let (id, resp) = &procs[0];
                            events.push(format!("call:0:{idx}:{}", id.join(":")));
                            events.push(format!("proc:0:{idx}:{resp}"));
                            events.push(format!("ret:0:{idx}:{}", ans.show()));
                            idx += 1;
                        }
                        if let WireAns::Ok(false, ..) = ans {
                            // what the denied-keys table (max 100) did with this key
                            out.bump("hostile_keys_denied");
                            let step = format!("tstep {WIRE_MAX_DENIED} {} {} {}", table_text(&tab_before), hx(key.as_bytes()), table_text(&tab_after));
                            if tab_before.len() <= 400 && tab_after.len() <= 400 {
                                out.line(step.clone(), "ok".into());
                            }
                            let count = |t: &[(String, u64)], k: &str| t.iter().find(|e| e.0 == k).map(|e| e.1).unwrap_or(0);
                            if key.len() > 256 {
                                if tab_after != tab_before {
                                    out.violation("C16", format!("{proto:?}: a denied key of {} bytes ({what}) changed the denied-keys table", key.len()), vec![replay[0].clone(), step]);
                                }
                            } else if tab_after.len() >= tab_before.len() {
                                // (no eviction happened)
                                let others_same = tab_before.iter().all(|(k, c)| k == &key || count(&tab_after, k) == *c) && tab_after.iter().all(|(k, c)| k == &key || count(&tab_before, k) == *c);
                                if count(&tab_after, &key) != count(&tab_before, &key) + 1 || !others_same {
                                    out.violation("C16", format!("{proto:?}: denied key of {} bytes ({what}): its count went {} -> {}, other entries {}", key.len(), count(&tab_before, &key), count(&tab_after, &key), if others_same { "unchanged" } else { "CHANGED" }), vec![replay[0].clone(), step]);
                                }
                            }
                        }
                    }
                }
                if !events.is_empty() {
                    out.line(format!("atrace-loose {cap} {store_token} {}", events.join(";")), format!("ok {idx}"));
                }
            }
            // requests the limiter REJECTS (burst 0 / count 0 / period 0 / quantity -1: its error path runs, with TRACE
            // logging enabled) on every hostile key and on keys with a multi-byte character across given byte offsets
            // (all of 16 .. 1024 over the rounds), on every protocol
            let t_rej = std::time::Instant::now();
            {
                let per_round = 8usize.div_ceil(prounds).max(2);
                let offs: Vec<usize> = (0..per_round).map(|j| crate::cmd::STRADDLE_OFFSETS[(round * per_round + j) % 8]).collect();
                for (pi, proto) in [Proto::Http, Proto::Grpc, Proto::Resp].into_iter().enumerate() {
                    let tag = format!("rj{}_{pi}_", round % 1000);
                    let mut keys: Vec<(String, String)> = hostile_keys(&tag, ((round * 3 + pi) % 1000) as u32).into_iter().map(|(w, k)| (w.to_string(), k)).collect();
                    keys.extend(crate::cmd::straddle_keys(&tag, &offs));
                    for (what, key) in keys {
                        for (b, c, p, q) in crate::cmd::REJECTED {
                            let l = Logical { key: key.clone(), b, c, p, q: Some(q) };
                            let (ans, _) = send_proto(proto, &mut rng, &ports, &l, &mut seen, &mut resp_conn, false).await;
                            let log = take_log();
                            let procs: Vec<(Vec<String>, String)> = log.iter().filter_map(|x| parse_proc(x)).collect();
                            out.bump("rejected_hostile_key_requests");
                            let txt = match &ans {
                                WireAns::Err(e) => e.clone(),
                                a => a.show(),
                            };
                            let replay = vec![format!("# wire: {proto:?} request with key of {} bytes ({what}), max_burst {b} count_per_period {c} period {p} quantity {q} -> {}", key.len(), txt.chars().take(200).collect::<String>())];
                            if let WireAns::Ok(false, ..) = ans {
                                seen.denied += 1;
                            }
                            if procs.len() == 1 && procs[0].1 == "err" && matches!(ans, WireAns::Err(_)) {
                                continue;
                            }
                            descr.push(replay[0][2..].to_string());
                            out.violation(
                                "C11",
                                format!("{proto:?}: a request the limiter must reject with an error (key: {what}, {} bytes; limits {b}/{c}/{p}, quantity {q}) was answered {:?}; limiter log {:?}", key.len(), txt.chars().take(160).collect::<String>(), procs.iter().map(|p| &p.1).collect::<Vec<_>>()),
                                replay,
                            );
                        }
                        // ... and one it allows, then one it denies (the hostile keys proper had theirs above)
                        if what.contains("char across byte") && key.ends_with("~t") {
                            for half in 0..2 {
                                let l = Logical { key: key.clone(), b: 1, c: 1, p: 3600, q: Some(1) };
                                let (ans, _) = send_proto(proto, &mut rng, &ports, &l, &mut seen, &mut resp_conn, false).await;
                                take_log();
                                out.bump("hostile_key_requests");
                                if let WireAns::Ok(false, ..) = ans {
                                    seen.denied += 1;
                                }
                                let good = if half == 0 { matches!(ans, WireAns::Ok(true, 1, 0, _, _)) } else { matches!(ans, WireAns::Ok(false, 1, 0, _, rt) if rt >= 0) };
                                if !good {
                                    let prop = if matches!(ans, WireAns::Ok(..)) { "C12" } else { "C11" };
                                    out.violation(prop, format!("{proto:?}: request {} of a pair on a fresh key ({what}, {} bytes), burst 1, 1 per 3600 s, answered {}, want {}", half + 1, key.len(), ans.show(), if half == 0 { "ok,1,1,0,_,_" } else { "ok,0,1,0,_,>=0" }), vec![format!("# wire: key {}", hx(key.as_bytes()))]);
                                }
                            }
                        }
                    }
                }
            }
            out.add("ms_poison_rejected", t_rej.elapsed().as_millis() as u64);
            let t_storm = std::time::Instant::now();
            // abort storms: connections reset (RST) right after connect, some with unread bytes pending, many at once
            for (name, port) in [("http", ports.http), ("grpc", ports.grpc), ("resp", ports.resp)] {
                let partials = crate::net::partial_requests(name);
                let seed2 = rng.next_u64();
                let total = (n * 4).clamp(100, 400);
                let st = tokio::task::spawn_blocking(move || crate::net::abort_storm(port, total, 8, &partials, seed2)).await.unwrap_or_default();
                out.add("aborted_connections", st.connected);
                out.add(&format!("ms_storm_{name}"), t_storm.elapsed().as_millis() as u64);
                descr.push(format!("abort storm on the {name} port: {} connections reset (SO_LINGER 0) right after connect, {} of them after writing an incomplete request", st.connected, st.with_data));
            }
            out.add("ms_poison_storms", t_storm.elapsed().as_millis() as u64);
            tokio::time::sleep(Duration::from_millis(50)).await;
            take_log();
            // probes on NEW connections of each protocol
            let mut probe_keys: Vec<String> = vec![];
            // (a clean-up of the denied-keys table runs when it exceeds 3 x max entries)
            let no_eviction = metrics.verif_denied_table().unwrap_or_default().len() + 3 <= 3 * WIRE_MAX_DENIED;
            for proto in [Proto::Http, Proto::Grpc, Proto::Resp] {
                let l = Logical { key: format!("probe{round}_{proto:?}"), b: 2, c: 1, p: 60, q: Some(1) };
                let ans = match proto {
                    Proto::Http => {
                        let body = json_body(&mut rng, &l);
                        let a = http_throttle(ports.http, &body).await.0;
                        if !matches!(a, WireAns::Broken(_)) {
                            seen.http += 1;
                        }
                        a
                    }
                    Proto::Grpc => {
                        let a = grpc_call(ports.grpc, &l).await;
                        if !matches!(a, WireAns::Broken(_)) {
                            seen.grpc += 1;
                        }
                        a
                    }
                    Proto::Resp => {
                        let cmd = resp_command(&mut rng, &l);
                        match RespConn::open(ports.resp).await {
                            Ok(mut c) => {
                                let r = c.call(&cmd).await;
                                if r.is_ok() {
                                    seen.resp += 1;
                                }
                                resp_answer(r)
                            }
                            Err(e) => WireAns::Broken(e),
                        }
                    }
                };
                let log = take_log();
                let procs: Vec<(Vec<String>, String)> = log.iter().filter_map(|x| parse_proc(x)).collect();
                out.bump("probes");
                let replay: Vec<String> = descr.iter().map(|d| format!("# {}", &d[..d.len().min(300)])).collect();
                match &ans {
                    WireAns::Ok(true, 2, 1, _, 0) => {}
                    other => out.violation("C11", format!("after hostile traffic the probe on a new {proto:?} connection is answered {}", other.show()), replay.clone()),
                }
                if procs.len() != 1 || procs[0].1 != ans.show() {
                    out.violation("C11", format!("probe on {proto:?}: limiter log {procs:?}, wire answer {}", ans.show()), replay.clone());
                } else {
                    let (id, resp) = &procs[0];
                    out.line(format!("atrace-loose {cap} {store_token} call:0:0:{};proc:0:0:{resp};ret:0:0:{}", id.join(":"), ans.show()), "ok 1".into());
                }
                // the probe that includes a DENIAL, on another new connection: fresh key, burst 1 -> allowed with
                // nothing remaining, then denied; both must be answered
                let dkey = format!("dprobe{round}_{proto:?}");
                let mut fresh: Option<RespConn> = None;
                let mut events: Vec<String> = vec![];
                for half in 0..2usize {
                    let l = Logical { key: dkey.clone(), b: 1, c: 1, p: 60, q: Some(1) };
                    let (ans, _) = send_proto(proto, &mut rng, &ports, &l, &mut seen, &mut fresh, half == 0).await;
                    let log = take_log();
                    let procs: Vec<(Vec<String>, String)> = log.iter().filter_map(|x| parse_proc(x)).collect();
                    out.bump("probes_with_denial");
                    if let WireAns::Ok(false, ..) = ans {
                        seen.denied += 1;
                    }
                    let good = if half == 0 { matches!(ans, WireAns::Ok(true, 1, 0, _, _)) } else { matches!(ans, WireAns::Ok(false, 1, 0, _, rt) if rt >= 0) };
                    if !good {
                        out.violation(
                            "C11",
                            format!("after hostile traffic, request {} of the denial probe (fresh key, burst 1, 1 per 60 s) on a new {proto:?} connection is answered {}, want {}", half + 1, ans.show(), if half == 0 { "ok,1,1,0,_,_" } else { "ok,0,1,0,_,>=0" }),
                            replay.clone(),
                        );
                    }
                    if procs.len() != 1 || procs[0].1 != ans.show() {
                        out.violation("C11", format!("denial probe on {proto:?}: limiter log {procs:?}, wire answer {}", ans.show()), replay.clone());
                    } else {
                        let (id, resp) = &procs[0];
                        events.push(format!("call:0:{half}:{};proc:0:{half}:{resp};ret:0:{half}:{}", id.join(":"), ans.show()));
                    }
                }
                if events.len() == 2 {
                    out.line(format!("atrace-loose {cap} {store_token} {}", events.join(";")), "ok 2".into());
                }
                probe_keys.push(dkey);
            }
            // GET /metrics still answers and still lists the keys denied a moment ago
            let replay: Vec<String> = descr.iter().map(|d| format!("# {}", &d[..d.len().min(300)])).collect();
            check_probe_keys_exported(&ports, &metrics, &probe_keys, no_eviction, out, &replay).await;
        }
        // the RESP garbage connections and PINGs: commands that were answered count, the rest do not
        check_metrics(&ports, &metrics, &mut seen, out, "after the poison rounds", &mut recent).await;

        phase(out, "poison");
        // ------------------------------------------------------------------ stalled clients (C11)
        // 600 connections per port that sent the beginning of a request and stay open; everybody else is served as before
        {
            let per_port = 600usize;
            let st = crate::net::open_stalled(ports.http, ports.grpc, ports.resp, per_port).await;
            tokio::time::sleep(Duration::from_millis(50)).await;
            take_log();
            out.add("stalled_connections", st.open.iter().sum::<usize>() as u64);
            let replay = vec![format!(
                "# wire: {} HTTP connections sent a complete head with Content-Length and half of the body, {} gRPC connections an HTTP/2 preface, SETTINGS and part of a HEADERS frame, {} RESP connections an array header and half of a bulk string; all of them stay open while the probes run",
                st.open[0], st.open[1], st.open[2]
            )];
            for proto in [Proto::Http, Proto::Grpc, Proto::Resp] {
                let l = Logical { key: format!("stallprobe_{proto:?}"), b: 2, c: 1, p: 60, q: Some(1) };
                let mut fresh: Option<RespConn> = None;
                let (ans, _) = send_proto(proto, &mut rng, &ports, &l, &mut seen, &mut fresh, true).await;
                take_log();
                out.bump("probes");
                if !matches!(ans, WireAns::Ok(true, 2, 1, _, 0)) {
                    out.violation("C11", format!("with {} + {} + {} stalled connections open (HTTP / gRPC / RESP), a request on a new {proto:?} connection is answered {}, want ok,1,2,1,_,0", st.open[0], st.open[1], st.open[2], ans.show()), replay.clone());
                }
            }
            for path in ["/health", "/metrics"] {
                let r = http_raw(ports.http, format!("GET {path} HTTP/1.1\r\nHost: x\r\nConnection: close\r\n\r\n").as_bytes()).await;
                if !matches!(r, Ok((200, _))) {
                    out.violation("C11", format!("with {} stalled HTTP connections open GET {path} on a new connection gives {:?}", st.open[0], r.map(|x| x.0)), replay.clone());
                }
            }
            out.add("stalled_connections_closed_by_the_server", st.closed_by_server() as u64);
            st.close();
            tokio::time::sleep(Duration::from_millis(100)).await;
            take_log();
            check_metrics(&ports, &metrics, &mut seen, out, "after the stalled clients", &mut recent).await;
        }
        phase(out, "stalled");
        // ------------------------------------------------------------------ abandoned requests (C15)
        // complete requests whose sender closes (FIN) or aborts (RST) the connection at once without reading the answer,
        // while other connections keep the limiter busy.  Whether such a request is counted depends on timing; the
        // identities at the quiescent end do not.
        {
            let before = counters(&metrics);
            let nab = (n * 4).clamp(60, 400);
            let mut tasks = vec![];
            let answered = Arc::new([std::sync::atomic::AtomicU64::new(0), std::sync::atomic::AtomicU64::new(0), std::sync::atomic::AtomicU64::new(0)]);
            // the flood: 8 connections' worth of ordinary requests, all answered
            for f in 0..8usize {
                let mut r = rng.fork();
                let (hp, gp, rp) = (ports.http, ports.grpc, ports.resp);
                let answered = Arc::clone(&answered);
                tasks.push(tokio::spawn(async move {
                    let mut conn = RespConn::open(rp).await.ok();
                    for i in 0..40 {
                        let l = Logical { key: format!("flood{f}_{}", i % 3), b: 2, c: 1, p: 3600, q: Some(1) };
                        match (f + i) % 4 {
                            0 => {
                                let body = json_body(&mut r, &l);
                                let (_, st) = http_throttle(hp, &body).await;
                                if st == 200 || st == 500 {
                                    answered[0].fetch_add(1, std::sync::atomic::Ordering::SeqCst);
                                }
                            }
                            1 => {
                                if !matches!(grpc_call(gp, &l).await, WireAns::Broken(_)) {
                                    answered[1].fetch_add(1, std::sync::atomic::Ordering::SeqCst);
                                }
                            }
                            _ => {
                                if let Some(c) = conn.as_mut() {
                                    if c.call(&resp_command(&mut r, &l)).await.is_ok() {
                                        answered[2].fetch_add(1, std::sync::atomic::Ordering::SeqCst);
                                    }
                                }
                            }
                        }
                    }
                }));
            }
            let mut sent = [0u64; 3];
            for i in 0..nab {
                let l = Logical { key: format!("abandoned{}", i % 7), b: 2, c: 1, p: 3600, q: Some(1) };
                let rst = rng.chance(1, 2);
                let linger = rng.pick(&[0u64, 0, 0, 20, 100, 400]);
                match i % 5 {
                    0 | 1 | 2 => {
                        let req = http_post_bytes(&json_body(&mut rng, &l));
                        let p = ports.http;
                        sent[0] += 1;
                        tasks.push(tokio::spawn(async move {
                            crate::net::abandon(p, req, rst, linger).await;
                        }));
                    }
                    3 => {
                        // two commands in one write, neither answer read
                        let mut req = resp_command(&mut rng, &l);
                        req.extend(resp_command(&mut rng, &l));
                        let p = ports.resp;
                        sent[2] += 2;
                        tasks.push(tokio::spawn(async move {
                            crate::net::abandon(p, req, rst, linger).await;
                        }));
                    }
                    _ => {
                        // an RPC dropped a moment after it was started
                        let gp = ports.grpc;
                        sent[1] += 1;
                        let us = rng.pick(&[50u64, 150, 300, 600, 1500]);
                        tasks.push(tokio::spawn(async move {
                            let _ = tokio::time::timeout(Duration::from_micros(us), grpc_call(gp, &l)).await;
                        }));
                    }
                }
                if i % 16 == 15 {
                    tokio::task::yield_now().await;
                }
            }
            for t in tasks {
                let _ = t.await;
            }
            take_log();
            // quiescence: the counters have not moved for 300 ms (at most 5 s)
            let t0 = std::time::Instant::now();
            let mut last = counters(&metrics);
            let mut stable_since = std::time::Instant::now();
            loop {
                tokio::time::sleep(Duration::from_millis(20)).await;
                let c = counters(&metrics);
                let same = (c.total, c.http, c.grpc, c.redis, c.allowed, c.denied, c.errors) == (last.total, last.http, last.grpc, last.redis, last.allowed, last.denied, last.errors);
                if !same {
                    last = c;
                    stable_since = std::time::Instant::now();
                }
                if stable_since.elapsed() >= Duration::from_millis(300) || t0.elapsed() >= Duration::from_secs(5) {
                    break;
                }
            }
            let c = last;
            let ans: Vec<u64> = answered.iter().map(|a| a.load(std::sync::atomic::Ordering::SeqCst)).collect();
            out.add("abandoned_requests", sent.iter().sum());
            out.add("abandoned_requests_counted", (c.total - before.total).saturating_sub(ans.iter().sum()));
            let replay = vec![format!(
                "# wire: {} HTTP requests, {} RESP commands and {} RPCs sent complete and abandoned at once (close or RST, nothing read), next to {} + {} + {} answered requests on other connections; counters before: total {} allowed {} denied {} errors {}",
                sent[0], sent[2], sent[1], ans[0], ans[1], ans[2], before.total, before.allowed, before.denied, before.errors
            )];
            if c.total != c.http + c.grpc + c.redis || c.total != c.allowed + c.denied + c.errors {
                out.violation("C15", format!("after abandoned requests, at a quiescent point: total {} http {} grpc {} redis {} allowed {} denied {} errors {}: total != http+grpc+redis or total != allowed+denied+errors", c.total, c.http, c.grpc, c.redis, c.allowed, c.denied, c.errors), replay.clone());
            }
            let lower = [(c.http, before.http + ans[0], "http"), (c.grpc, before.grpc + ans[1], "grpc"), (c.redis, before.redis + ans[2], "redis")];
            for (have, least, name) in lower {
                if have < least {
                    out.violation("C15", format!("after abandoned requests: {name} counter {have} is below the {least} requests that were answered"), replay.clone());
                }
            }
            let upper = before.total + ans.iter().sum::<u64>() + sent.iter().sum::<u64>();
            if c.total > upper {
                out.violation("C15", format!("after abandoned requests: total {} exceeds everything that was sent ({upper})", c.total), replay.clone());
            }
            // /metrics shows the same numbers
            seen.http = c.http;
            seen.grpc = c.grpc;
            seen.resp = c.redis;
            seen.denied = c.denied;
            seen.errors = c.errors;
            check_metrics(&ports, &metrics, &mut seen, out, "after the abandoned requests", &mut recent).await;
        }
        phase(out, "abandoned");
        out.add("grpc_calls_with_the_documented_schema", GRPC_DOC_CALLS.load(std::sync::atomic::Ordering::Relaxed));
    });
    rt.shutdown_background();
}
