// mode `binary`: the REAL server binary ($TCV_SERVER_BIN) as a child process, all three transports
// enabled, driven over real sockets.  This is the only mode that exercises main.rs: ONE limiter
// created once and one handle cloned to every transport, ONE shared Metrics, CLI parsing, store
// selection.  No Lean-driver lines; per instance one `note binary <description>` pair.
//
// (a) C09  one limiter shared by the three protocols (sequential rotations + simultaneous requests)
// (b) C12  the same request sequence gets the same answers on every protocol; omitted quantity = 1
// (c) C11  hostile numbers / hostile keys (each DENIED once) / garbage / abrupt closes leave every protocol
//          serving - a fresh request, then a request pair allowed + DENIED - the process alive and GET
//          /metrics listing the keys just denied
// (d) C15  GET /metrics at the quiescent end agrees with what the clients sent and were told
// and: the documented gRPC schema next to the other clients on one bucket (a3), the process frozen with SIGSTOP
// while requests are in flight (a4), deeply nested RESP frames (c0), replies in front of a rejected frame (c1),
// 600 stalled connections per port (c2); one extra instance of a DEBUG build when $TCV_SERVER_BIN_DEBUG is set;
// (f) the protocol-features phase of feat.rs on every instance; (g) lifecycle and configuration next to the ordinary
// instances: partial transport sets, store tuning flags, THROTTLECRAB_* variables, scrapes in quick succession, a
// tracker larger than the store, tracking switched off, and a SIGTERM under load at the end of each of these processes.
// The server's --log-level is error | info | debug per instance (seed-chosen): argument formatting inside
// `tracing::debug!` only runs at debug level.
use crate::cmd::hostile_keys;
use crate::metrics::{lex_sample, unescape_label};
use crate::util::*;
use crate::wire::{
    doc_grpc_connect, doc_grpc_send, documented_schema_round, grpc_call, http_answer, http_exchange, http_post_bytes, http_raw, http_throttle, json_body, judge_documented_schema, judge_nested, large_keys, nested_frame, rejected_frames,
    resp_answer, resp_command, resp_command_min, resp_write_read_to_end, simultaneous, Logical, Ports, Proto, RespConn, WireAns, NEST_DEPTHS,
};
use std::collections::BTreeMap;
use std::process::{Child, Command, Stdio};
use std::sync::Arc;
use std::time::{Duration, Instant};
use throttlecrab_server::transport::redis::resp::RespValue;
use tokio::io::{AsyncReadExt, AsyncWriteExt};
use tokio::net::TcpStream;

/// the three error replies `process_command` returns BEFORE it touches the metrics
const UNCOUNTED_RESP_ERRORS: [&str; 3] = ["ERR expected array of commands", "ERR empty command", "ERR invalid command format"];

const PERMS: [[Proto; 3]; 6] = [
    [Proto::Http, Proto::Grpc, Proto::Resp],
    [Proto::Http, Proto::Resp, Proto::Grpc],
    [Proto::Grpc, Proto::Http, Proto::Resp],
    [Proto::Grpc, Proto::Resp, Proto::Http],
    [Proto::Resp, Proto::Http, Proto::Grpc],
    [Proto::Resp, Proto::Grpc, Proto::Http],
];

/// kills and reaps the child however the instance ends (return, `?`, panic)
struct ChildGuard(Option<Child>);

impl ChildGuard {
    /// None = still running
    fn exited(&mut self) -> Option<String> {
        match self.0.as_mut() {
            None => Some("no child".into()),
            Some(c) => match c.try_wait() {
                Ok(None) => None,
                Ok(Some(st)) => Some(format!("{st}")),
                Err(e) => Some(format!("try_wait failed: {e}")),
            },
        }
    }
}

impl ChildGuard {
    fn pid(&self) -> Option<i32> {
        self.0.as_ref().map(|c| c.id() as i32)
    }
}

impl Drop for ChildGuard {
    fn drop(&mut self) {
        if let Some(mut c) = self.0.take() {
            let _ = c.kill();
            let _ = c.wait();
        }
    }
}

/// three DISTINCT free loopback ports (all three listeners are held until all are read)
fn free_ports() -> Ports {
    let ls: Vec<std::net::TcpListener> = (0..3).map(|_| std::net::TcpListener::bind("127.0.0.1:0").unwrap()).collect();
    let p: Vec<u16> = ls.iter().map(|l| l.local_addr().unwrap().port()).collect();
    Ports { http: p[0], grpc: p[1], resp: p[2] }
}

#[derive(Default, Clone, Debug)]
struct Tally {
    // what the server's counters must show
    http: u64,
    grpc: u64,
    resp: u64,
    denied: u64,
    errors: u64,
    // what was sent / answered (stats only)
    sent_http: u64,
    sent_grpc: u64,
    sent_resp: u64,
    ans_allowed: u64,
    ans_denied: u64,
    ans_error: u64,
    ans_none: u64,
}

impl Tally {
    /// one THROTTLE request and its decoded answer (`status` = HTTP status, 0 elsewhere)
    fn account(&mut self, proto: Proto, ans: &WireAns, status: u16) {
        match proto {
            Proto::Http => {
                self.sent_http += 1;
                // 200 = decision, 500 = limiter error: both come from the handler.  4xx = the
                // framework's extractor refused the body before the handler ran.
                if status == 200 || status == 500 {
                    self.http += 1;
                }
                if status == 500 {
                    self.errors += 1;
                }
            }
            Proto::Grpc => {
                self.sent_grpc += 1;
                match ans {
                    WireAns::Ok(..) => self.grpc += 1,
                    WireAns::Err(_) => {
                        self.grpc += 1;
                        self.errors += 1;
                    }
                    WireAns::Broken(_) => {}
                }
            }
            Proto::Resp => {
                self.sent_resp += 1;
                match ans {
                    WireAns::Broken(_) => {}
                    WireAns::Err(e) if UNCOUNTED_RESP_ERRORS.contains(&e.as_str()) => {}
                    // decisions AND error replies of a THROTTLE (limiter errors are reported as
                    // `-ERR ...` and recorded as an allowed redis request, not as an error)
                    _ => self.resp += 1,
                }
            }
        }
        match ans {
            WireAns::Ok(true, ..) => self.ans_allowed += 1,
            WireAns::Ok(false, ..) => {
                self.ans_denied += 1;
                self.denied += 1;
            }
            WireAns::Err(_) => self.ans_error += 1,
            WireAns::Broken(_) => self.ans_none += 1,
        }
    }
}

fn printable(b: &[u8]) -> String {
    let s = String::from_utf8_lossy(&b[..b.len().min(160)]).escape_debug().to_string();
    if b.len() > 160 { format!("{s}... ({} bytes)", b.len()) } else { s }
}

fn describe(l: &Logical) -> String {
    format!("key={:?} max_burst={} count_per_period={} period={} quantity={}", l.key, l.b, l.c, l.p, l.q.map(|q| q.to_string()).unwrap_or("omitted".into()))
}

/// one running instance
struct Cx {
    ports: Ports,
    rng: Rng,
    tally: Tally,
    /// human-readable transcript of everything sent in this instance
    log: Vec<String>,
    resp_conn: Option<RespConn>,
    launch: String,
    /// key -> number of times a client was told allowed=false for it
    denied_keys: BTreeMap<String, u64>,
}

/// `throttlecrab_top_denied_keys` samples of an export: (unescaped key, value)
fn top_denied_lines(text: &str) -> Vec<(String, String)> {
    text.split('\n')
        .filter(|l| l.starts_with("throttlecrab_top_denied_keys"))
        .filter_map(|l| lex_sample(l).ok())
        .map(|s| (unescape_label(&s.labels.iter().find(|l| l.0 == "key").map(|l| l.1.clone()).unwrap_or_default()), s.value))
        .collect()
}

impl Cx {
    /// one logical request over the given protocol (HTTP: new connection per request; gRPC: new channel
    /// per request; RESP: a kept connection that is re-opened now and then)
    async fn send(&mut self, proto: Proto, l: &Logical) -> WireAns {
        let (ans, status, desc) = match proto {
            Proto::Http => {
                let body = json_body(&mut self.rng, l);
                let (a, st) = http_throttle(self.ports.http, &body).await;
                (a, st, format!("HTTP POST /throttle {}", body.replace('\n', " ")))
            }
            Proto::Grpc => {
                let a = grpc_call(self.ports.grpc, l).await;
                (a, 0, format!("gRPC Throttle {}", describe(&Logical { q: Some(l.q.unwrap_or(1)), ..l.clone() })))
            }
            Proto::Resp => {
                let cmd = resp_command(&mut self.rng, l);
                if self.resp_conn.is_none() || self.rng.chance(1, 4) {
                    self.resp_conn = RespConn::open(self.ports.resp).await.ok();
                }
                let r = match self.resp_conn.as_mut() {
                    Some(c) => c.call(&cmd).await,
                    None => Err("connect failed".into()),
                };
                if r.is_err() {
                    self.resp_conn = None;
                }
                (resp_answer(r), 0, format!("RESP {}", printable(&cmd)))
            }
        };
        self.tally.account(proto, &ans, status);
        if let WireAns::Ok(false, ..) = ans {
            *self.denied_keys.entry(l.key.clone()).or_insert(0) += 1;
        }
        let desc = if desc.len() > 500 { format!("{}... ({} bytes)", desc.chars().take(400).collect::<String>(), desc.len()) } else { desc };
        self.log.push(format!("{desc} -> {}", ans.show()));
        ans
    }

    /// the keys the denied-keys table must hold (it ignores keys longer than 256 bytes)
    fn tracked_denied(&self) -> Vec<(&String, u64)> {
        self.denied_keys.iter().filter(|(k, _)| k.len() <= 256).map(|(k, c)| (k, *c)).collect()
    }

    /// raw RESP bytes on the given connection; counts as a redis request iff a reply other than the
    /// three early-return errors came back
    async fn resp_raw(&mut self, conn: &mut RespConn, bytes: &[u8]) -> Result<RespValue, String> {
        self.tally.sent_resp += 1;
        let r = conn.call(bytes).await;
        match &r {
            Ok(RespValue::Error(e)) if UNCOUNTED_RESP_ERRORS.contains(&e.as_str()) => {}
            Ok(_) => self.tally.resp += 1,
            Err(_) => {}
        }
        self.log.push(format!(
            "RESP {} -> {}",
            printable(bytes),
            match &r {
                Ok(v) => crate::val::show(v),
                Err(e) => format!("no reply ({e})"),
            }
        ));
        r
    }

    fn tail(&self, from: usize) -> Vec<String> {
        let mut v = vec![format!("# {}", self.launch)];
        v.extend(self.log[from.min(self.log.len())..].iter().map(|l| format!("# {l}")));
        v
    }
}

fn close_enough(a: i64, b: i64) -> bool {
    (a as i128 - b as i128).abs() <= 1
}

// ----------------------------------------------------------------------------------------
// (a) C09
// ----------------------------------------------------------------------------------------
async fn shared_limiter(cx: &mut Cx, inst: usize, out: &mut Out) {
    // sequential: the 6 rotations, in a seed-chosen order, each on a key of its own
    let mut order: Vec<usize> = (0..6).collect();
    for i in (1..6).rev() {
        let j = cx.rng.below(i as u64 + 1) as usize;
        order.swap(i, j);
    }
    for (k, pi) in order.into_iter().enumerate() {
        let perm = PERMS[pi];
        let b = cx.rng.range(2, 6);
        let nreq = b + 4;
        let key = format!("bin{inst}_seq{k}");
        let from = cx.log.len();
        let mut bad: Option<String> = None;
        for i in 0..nreq {
            let proto = perm[(i % 3) as usize];
            let l = Logical { key: key.clone(), b, c: 1, p: 3600, q: Some(1) };
            let ans = cx.send(proto, &l).await;
            let (wa, wr) = (i < b, (b - 1 - i).max(0));
            let ok = matches!(ans, WireAns::Ok(a, lim, rem, _, _) if a == wa && lim == b && rem == wr);
            if !ok && bad.is_none() {
                bad = Some(format!(
                    "request {} of {nreq} on fresh key {key:?} (burst {b}, 1 per 3600 s, rotation {perm:?}) went over {proto:?} and was answered {}, want ok,{},{b},{wr},_,_: the protocols do not share one limiter state",
                    i + 1,
                    ans.show(),
                    wa as u8
                ));
            }
        }
        out.bump("sequential_keys");
        if k == 0 && inst == 0 {
            out.sample(format!("(a) burst {b}: {}", cx.log[from..].join(" | ")));
        }
        if let Some(what) = bad {
            out.violation("C09", what, cx.tail(from));
        }
    }
    // concurrent: N simultaneous unit requests over mixed protocols on a fresh key
    for round in 0..2 {
        let b = cx.rng.range(2, 6);
        let nreq = (b + 4 + if round == 1 { cx.rng.range(0, 12) } else { 0 }) as usize;
        let key = format!("bin{inst}_race{round}");
        let barrier = Arc::new(tokio::sync::Barrier::new(nreq));
        let from = cx.log.len();
        let mut hs = vec![];
        for i in 0..nreq {
            // every protocol takes part (the first three are one of each)
            let proto = if i < 3 { PERMS[0][i] } else { cx.rng.pick(&PERMS[0]) };
            let l = Logical { key: key.clone(), b, c: 1, p: 3600, q: Some(1) };
            let mut r = cx.rng.fork();
            let bar = barrier.clone();
            let (hp, gp, rp) = (cx.ports.http, cx.ports.grpc, cx.ports.resp);
            hs.push(tokio::spawn(async move {
                match proto {
                    Proto::Http => {
                        let body = json_body(&mut r, &l);
                        bar.wait().await;
                        let (a, st) = http_throttle(hp, &body).await;
                        (proto, a, st)
                    }
                    Proto::Grpc => {
                        bar.wait().await;
                        (proto, grpc_call(gp, &l).await, 0)
                    }
                    Proto::Resp => {
                        let cmd = resp_command(&mut r, &l);
                        let c = RespConn::open(rp).await;
                        bar.wait().await;
                        match c {
                            Err(e) => (proto, WireAns::Broken(e), 0),
                            Ok(mut c) => (proto, resp_answer(c.call(&cmd).await), 0),
                        }
                    }
                }
            }));
        }
        let (mut admitted, mut denied) = (0i64, 0i64);
        let mut inverted = 0i64;
        let mut answers = vec![];
        for h in hs {
            let (proto, a, st) = match h.await {
                Ok(x) => x,
                Err(e) => (Proto::Http, WireAns::Broken(format!("client task failed: {e}")), 0),
            };
            cx.tally.account(proto, &a, st);
            if crate::wire::stamp_inverted(&a) {
                inverted += 1;
            }
            match a {
                WireAns::Ok(true, ..) => admitted += 1,
                WireAns::Ok(false, ..) => {
                    denied += 1;
                    *cx.denied_keys.entry(key.clone()).or_insert(0) += 1;
                }
                _ => {}
            }
            answers.push(format!("{proto:?}:{}", a.show()));
        }
        cx.log.push(format!("{nreq} simultaneous unit requests on fresh key {key:?}, burst {b}, 1 per 3600 s: {}", answers.join(" ")));
        out.bump("race_rounds");
        out.add("concurrent_requests", nreq as u64);
        if admitted != b || admitted + denied != nreq as i64 {
            out.violation(
                if admitted + denied == nreq as i64 { crate::wire::race_tag(admitted, b, inverted) } else { "C09" },
                format!("{nreq} simultaneous unit requests over mixed protocols on a fresh key, burst {b}: {admitted} allowed, {denied} denied, {} unanswered; want exactly {b} allowed", nreq as i64 - admitted - denied),
                cx.tail(from),
            );
        }
    }
}

// ----------------------------------------------------------------------------------------
// (b) C12
// ----------------------------------------------------------------------------------------
async fn same_answers(cx: &mut Cx, inst: usize, out: &mut Out) {
    let b = cx.rng.range(2, 5);
    // slow refill: no token comes back while the test runs
    let (c, p) = cx.rng.pick(&[(1i64, 3600i64), (2, 3600), (3, 86400), (1, 86400)]);
    let steps = (b + 3) as usize;
    let mut qs: Vec<Option<i64>> = vec![None];
    for _ in 1..steps {
        qs.push(cx.rng.pick(&[None, None, Some(1), Some(1), Some(2), Some(0)]));
    }
    let from = cx.log.len();
    // previous `remaining` per protocol (Http, Grpc, Resp)
    let mut prev = [b; 3];
    for (step, q) in qs.iter().enumerate() {
        let mut got: Vec<(Proto, WireAns)> = vec![];
        for proto in PERMS[(inst + step) % 6] {
            let l = Logical { key: format!("bin{inst}_same_{proto:?}"), b, c, p, q: *q };
            let a = cx.send(proto, &l).await;
            got.push((proto, a));
        }
        out.bump("equivalence_steps");
        let mut decided = vec![];
        for (proto, a) in &got {
            match a {
                WireAns::Ok(al, li, re, rs, rt) => decided.push((*proto, *al, *li, *re, *rs, *rt)),
                other => out.violation("C12", format!("valid request ({}) got no decision on {proto:?}: {}", describe(&Logical { key: "<fresh per protocol>".into(), b, c, p, q: *q }), other.show()), cx.tail(from)),
            }
        }
        if decided.len() == 3 {
            let f = decided[0];
            for d in &decided[1..] {
                if (d.1, d.2, d.3) != (f.1, f.2, f.3) {
                    out.violation(
                        "C12",
                        format!("step {step} of the same request sequence (burst {b}, {c} per {p} s, quantity {q:?}) on a fresh key per protocol: {:?} answered allowed={} limit={} remaining={}, {:?} answered allowed={} limit={} remaining={}", f.0, f.1, f.2, f.3, d.0, d.1, d.2, d.3),
                        cx.tail(from),
                    );
                } else if !close_enough(d.4, f.4) || !close_enough(d.5, f.5) {
                    out.violation(
                        "C12",
                        format!("step {step} of the same request sequence: reset_after/retry_after {}/{} on {:?} but {}/{} on {:?} (more than 1 s apart)", f.4, f.5, f.0, d.4, d.5, d.0),
                        cx.tail(from),
                    );
                }
            }
        }
        // omitted quantity (HTTP: no field or null; RESP: 5 arguments) = exactly one token
        for (proto, al, _, re, _, _) in &decided {
            let i = match proto {
                Proto::Http => 0,
                Proto::Grpc => 1,
                Proto::Resp => 2,
            };
            if q.is_none() && *proto != Proto::Grpc {
                out.bump("quantity_omitted");
                let want = if prev[i] >= 1 { (true, prev[i] - 1) } else { (false, 0) };
                if (*al, *re) != want {
                    out.violation(
                        "C12",
                        format!("{proto:?} request without quantity with {} tokens left was answered allowed={al} remaining={re}; quantity 1 gives allowed={} remaining={}", prev[i], want.0, want.1),
                        cx.tail(from),
                    );
                }
            }
            prev[i] = *re;
        }
    }
    if inst == 0 {
        out.sample(format!("(b) burst {b}, {c} per {p} s: {}", cx.log[from..].join(" | ")));
    }
}

// ----------------------------------------------------------------------------------------
// (a2) C09 / C12: distinct long keys that share a long prefix
// ----------------------------------------------------------------------------------------
async fn key_families(cx: &mut Cx, inst: usize, out: &mut Out) {
    for round in 0..3usize {
        let k = inst * 2 + round.min(1);
        let prefix = crate::cmd::FAMILY_PREFIXES[k % 5];
        let max_len = if k % 5 >= 3 { 60_000 } else { 6_000 };
        // third pass: near-identical SHORT keys (trailing line break / blank / NUL, case, Unicode composition)
        let fam = if round == 2 {
            crate::cmd::near_family(&mut cx.rng, &format!("bn{inst}_"))
        } else {
            crate::cmd::prefix_family(&mut cx.rng, &format!("bf{inst}_{round}_"), prefix, k % 2 == 1, max_len)
        };
        let b = cx.rng.range(1, 3);
        let start = cx.rng.below(3) as usize;
        let from = cx.log.len();
        cx.log.push(format!("key family: {}; burst {b}, 1 per 86400 s", fam.what));
        for (ki, key) in fam.keys[..3].iter().enumerate() {
            for i in 0..=b {
                let proto = PERMS[0][(start + ki + i as usize) % 3];
                let l = Logical { key: key.clone(), b, c: 1, p: 86400, q: Some(1) };
                let ans = cx.send(proto, &l).await;
                out.bump("family_requests");
                let good = if i < b { matches!(ans, WireAns::Ok(true, lim, rem, _, 0) if lim == b && rem == b - 1 - i) } else { matches!(ans, WireAns::Ok(false, lim, 0, _, _) if lim == b) };
                if !good {
                    let (prop, why) = if matches!(ans, WireAns::Ok(..)) { ("C09", "distinct keys have independent budgets") } else { ("C12", "every protocol answers the request with the limiter's decision") };
                    out.violation(
                        prop,
                        format!("request {} of {} on the so far unused key {} of a family ({}) went over {proto:?} and was answered {}, want ok,{},{b},{},_,_ ({why})", i + 1, b + 1, ki + 1, fam.what, ans.show(), (i < b) as u8, (b - 1 - i).max(0)),
                        cx.tail(from),
                    );
                }
            }
        }
        // key 4 = key 1 (exhausted by now) but for its last byte: N simultaneous requests admit min(N, burst)
        let key = fam.keys[3].clone();
        let nreq = (b + cx.rng.range(1, 6)) as usize;
        let l = Logical { key: key.clone(), b, c: 1, p: 86400, q: Some(1) };
        let answers = simultaneous(&cx.ports, &mut cx.rng, &l, nreq).await;
        let mut admitted = 0i64;
        let mut inverted = 0i64;
        for (proto, a, st) in &answers {
            cx.tally.account(*proto, a, *st);
            if crate::wire::stamp_inverted(a) {
                inverted += 1;
            }
            if let WireAns::Ok(true, ..) = a {
                admitted += 1;
            }
            if let WireAns::Ok(false, ..) = a {
                // (a short key of a near-identical family is one the denied-keys report tracks)
                *cx.denied_keys.entry(key.clone()).or_insert(0) += 1;
            }
        }
        cx.log.push(format!("{nreq} simultaneous unit requests on key 4 ({} bytes): {}", key.len(), answers.iter().map(|x| format!("{:?}:{}", x.0, x.1.show())).collect::<Vec<_>>().join(" ")));
        out.bump("family_races");
        if admitted != (nreq as i64).min(b) {
            out.violation(crate::wire::race_tag(admitted, (nreq as i64).min(b), inverted), format!("{nreq} simultaneous unit requests over mixed protocols on an unused key of {} bytes, burst {b}, while a key that differs from it in the last byte only is exhausted: {admitted} admitted, want {}", key.len(), (nreq as i64).min(b)), cx.tail(from));
        }
    }
}

// ----------------------------------------------------------------------------------------
// (b2) C12: large requests get the same answer on every protocol
// ----------------------------------------------------------------------------------------
async fn large_requests(cx: &mut Cx, inst: usize, out: &mut Out) {
    let (b, c, p) = (10i64, 1i64, 3600i64);
    let all = large_keys(&mut cx.rng, &format!("bl{inst}_"), b, c, p);
    // every instance takes the largest plain key and three of the others (all of them over an instance pair)
    let n_all = all.len();
    let picked: Vec<(String, String)> = all.into_iter().enumerate().filter(|(i, _)| *i == n_all - 1 || (i + inst) % 2 == 0).map(|x| x.1).collect();
    for (what, key) in picked {
        let start = cx.rng.below(3) as usize;
        let from = cx.log.len();
        cx.log.push(format!("one bucket (burst {b}, {c} per {p} s) addressed over RESP, gRPC and HTTP with a key of {what}"));
        for i in 0..3usize {
            let proto = [Proto::Resp, Proto::Grpc, Proto::Http][(start + i) % 3];
            let l = Logical { key: key.clone(), b, c, p, q: if proto == Proto::Grpc { Some(1) } else { None } };
            let ans = if proto == Proto::Resp {
                // the shortest encoding, on a connection of its own (its buffer holds nothing else)
                let r = match RespConn::open(cx.ports.resp).await {
                    Ok(mut conn) => conn.call(&resp_command_min(&l)).await,
                    Err(e) => Err(e),
                };
                let a = resp_answer(r);
                cx.tally.account(Proto::Resp, &a, 0);
                cx.log.push(format!("RESP THROTTLE <key of {} bytes> :{b} :{c} :{p} -> {}", key.len(), a.show()));
                a
            } else {
                cx.send(proto, &l).await
            };
            out.bump("large_requests");
            let want_rem = b - 1 - i as i64;
            if !matches!(ans, WireAns::Ok(true, lim, rem, _, 0) if lim == b && rem == want_rem) {
                let shown = match &ans {
                    WireAns::Err(e) => format!("error {:?}", e.chars().take(120).collect::<String>()),
                    a => a.show(),
                };
                out.violation("C12", format!("key of {what}: request {} on the shared bucket went over {proto:?} and was answered {shown}, want ok,1,{b},{want_rem},_,0 as on the other protocols", i + 1), cx.tail(from));
            }
        }
    }
    // HTTP alone: bodies of 100 KB and 1 MB are below the framework's 2 MB default
    for len in [100_000usize, 1_000_000] {
        let l = Logical { key: format!("bl{inst}_http_{}", "k".repeat(len)), b, c, p, q: None };
        let from = cx.log.len();
        let ans = cx.send(Proto::Http, &l).await;
        out.bump("large_requests");
        if !matches!(ans, WireAns::Ok(true, 10, 9, _, 0)) {
            let shown = match &ans {
                WireAns::Err(e) => format!("error {:?}", e.chars().take(120).collect::<String>()),
                a => a.show(),
            };
            out.violation("C12", format!("HTTP request with a key of {len} bytes (below the 2 MB body limit) was answered {shown}, want ok,1,10,9,_,0"), cx.tail(from));
        }
    }
}

// ----------------------------------------------------------------------------------------
// (b3) C10 / C14 / C12: the slow reader (see slow.rs)
// ----------------------------------------------------------------------------------------
async fn slow_reader(cx: &mut Cx, inst: usize, out: &mut Out) {
    let plan = Arc::new(crate::slow::plan(&mut cx.rng, &format!("bin{inst}")));
    let (p2, port) = (Arc::clone(&plan), cx.ports.resp);
    let o = match tokio::task::spawn_blocking(move || crate::slow::run_blocking(port, &p2)).await {
        Ok(o) => o,
        Err(_) => return,
    };
    // every command is a counted RESP request, all of them allowed
    cx.tally.sent_resp += plan.cmds.len() as u64;
    cx.tally.resp += plan.cmds.len() as u64;
    cx.log.push(format!("slow reader: {} pipelined RESP commands ({} bytes), {} reply bytes read after holding back {} ms", plan.cmds.len(), plan.bytes.len(), o.got.len(), o.held_ms));
    crate::slow::report(out, &plan, &o, &cx.launch.clone());
}

// ----------------------------------------------------------------------------------------
// (e) C15: abandoned requests
// ----------------------------------------------------------------------------------------
fn scrape_counters(text: &str) -> Option<[u64; 7]> {
    let mut vals: BTreeMap<String, u64> = BTreeMap::new();
    for line in text.split('\n') {
        if line.is_empty() || line.starts_with('#') {
            continue;
        }
        if let Ok(s) = lex_sample(line) {
            let k = if s.labels.is_empty() { s.name.clone() } else { format!("{}{{{}}}", s.name, s.labels[0].1) };
            if let Ok(v) = s.value.parse::<u64>() {
                vals.insert(k, v);
            }
        }
    }
    let names = [
        "throttlecrab_requests_total",
        "throttlecrab_requests_by_transport{http}",
        "throttlecrab_requests_by_transport{grpc}",
        "throttlecrab_requests_by_transport{redis}",
        "throttlecrab_requests_allowed",
        "throttlecrab_requests_denied",
        "throttlecrab_requests_errors",
    ];
    let mut o = [0u64; 7];
    for (i, n) in names.iter().enumerate() {
        o[i] = *vals.get(*n)?;
    }
    Some(o)
}

async fn scrape(cx: &Cx) -> Option<[u64; 7]> {
    match http_raw(cx.ports.http, b"GET /metrics HTTP/1.1\r\nHost: x\r\nConnection: close\r\n\r\n").await {
        Ok((200, text)) => scrape_counters(&text),
        _ => None,
    }
}

/// Complete requests whose sender closes (FIN) or aborts (RST) at once without reading the answer, while other
/// connections keep the limiter busy (it matters most with `--buffer-size 1`).  Whether an abandoned request is
/// counted depends on timing; at the quiescent end (GET /metrics unchanged for 300 ms) the identities must hold.
async fn abandoned_requests(cx: &mut Cx, inst: usize, n: usize, out: &mut Out) {
    let Some(before) = scrape(cx).await else {
        out.violation("C15", "GET /metrics failed before the abandoned requests".into(), vec![format!("# {}", cx.launch)]);
        return;
    };
    let nab = (n * 3).clamp(60, 300);
    let mut tasks = vec![];
    let answered = Arc::new([std::sync::atomic::AtomicU64::new(0), std::sync::atomic::AtomicU64::new(0), std::sync::atomic::AtomicU64::new(0)]);
    for f in 0..8usize {
        let mut r = cx.rng.fork();
        let (hp, gp, rp) = (cx.ports.http, cx.ports.grpc, cx.ports.resp);
        let answered = Arc::clone(&answered);
        tasks.push(tokio::spawn(async move {
            use std::sync::atomic::Ordering::SeqCst;
            let mut conn = RespConn::open(rp).await.ok();
            for i in 0..40 {
                let l = Logical { key: format!("bin{inst}_flood{f}_{}", i % 3), b: 2, c: 1, p: 3600, q: Some(1) };
                match (f + i) % 4 {
                    0 => {
                        let body = json_body(&mut r, &l);
                        let (_, st) = http_throttle(hp, &body).await;
                        if st == 200 || st == 500 {
                            answered[0].fetch_add(1, SeqCst);
                        }
                    }
                    1 => {
                        if !matches!(grpc_call(gp, &l).await, WireAns::Broken(_)) {
                            answered[1].fetch_add(1, SeqCst);
                        }
                    }
                    _ => {
                        if let Some(c) = conn.as_mut() {
                            if c.call(&resp_command(&mut r, &l)).await.is_ok() {
                                answered[2].fetch_add(1, SeqCst);
                            }
                        }
                    }
                }
            }
        }));
    }
    let mut sent = [0u64; 3];
    for i in 0..nab {
        let l = Logical { key: format!("bin{inst}_abandoned{}", i % 7), b: 2, c: 1, p: 3600, q: Some(1) };
        let rst = cx.rng.chance(1, 2);
        let linger = cx.rng.pick(&[0u64, 0, 0, 20, 100, 400]);
        match i % 5 {
            0 | 1 | 2 => {
                let req = http_post_bytes(&json_body(&mut cx.rng, &l));
                let p = cx.ports.http;
                sent[0] += 1;
                tasks.push(tokio::spawn(async move {
                    crate::net::abandon(p, req, rst, linger).await;
                }));
            }
            3 => {
                let mut req = resp_command(&mut cx.rng, &l);
                req.extend(resp_command(&mut cx.rng, &l));
                let p = cx.ports.resp;
                sent[2] += 2;
                tasks.push(tokio::spawn(async move {
                    crate::net::abandon(p, req, rst, linger).await;
                }));
            }
            _ => {
                let gp = cx.ports.grpc;
                sent[1] += 1;
                let us = cx.rng.pick(&[50u64, 150, 300, 600, 1500]);
                tasks.push(tokio::spawn(async move {
                    let _ = tokio::time::timeout(Duration::from_micros(us), grpc_call(gp, &l)).await;
                }));
            }
        }
        if i % 16 == 15 {
            tokio::task::yield_now().await;
        }
    }
    for t in tasks {
        let _ = t.await;
    }
    // quiescence: GET /metrics shows the same counters for 300 ms (at most 6 s)
    let t0 = Instant::now();
    let mut last = scrape(cx).await;
    let mut stable_since = Instant::now();
    loop {
        tokio::time::sleep(Duration::from_millis(50)).await;
        let c = scrape(cx).await;
        if c != last {
            last = c;
            stable_since = Instant::now();
        }
        if stable_since.elapsed() >= Duration::from_millis(300) || t0.elapsed() >= Duration::from_secs(6) {
            break;
        }
    }
    let ans: Vec<u64> = answered.iter().map(|a| a.load(std::sync::atomic::Ordering::SeqCst)).collect();
    out.add("abandoned_requests", sent.iter().sum());
    let replay = vec![
        format!("# {}", cx.launch),
        format!(
            "# {} HTTP requests, {} RESP commands and {} RPCs sent complete and abandoned at once (close or RST, nothing read), next to {} + {} + {} answered requests on other connections; /metrics before: total {} http {} grpc {} redis {} allowed {} denied {} errors {}",
            sent[0], sent[2], sent[1], ans[0], ans[1], ans[2], before[0], before[1], before[2], before[3], before[4], before[5], before[6]
        ),
    ];
    let Some(c) = last else {
        out.violation("C15", "GET /metrics failed after the abandoned requests".into(), replay);
        return;
    };
    let (total, http, grpc, redis, allowed, denied, errors) = (c[0], c[1], c[2], c[3], c[4], c[5], c[6]);
    out.add("abandoned_requests_counted", (total - before[0]).saturating_sub(ans.iter().sum()));
    if total != http + grpc + redis || total != allowed + denied + errors {
        out.violation("C15", format!("after abandoned requests, at a quiescent point: total {total} http {http} grpc {grpc} redis {redis} allowed {allowed} denied {denied} errors {errors}: total != http+grpc+redis or total != allowed+denied+errors"), replay.clone());
    }
    for (have, least, name) in [(http, before[1] + ans[0], "http"), (grpc, before[2] + ans[1], "grpc"), (redis, before[3] + ans[2], "redis")] {
        if have < least {
            out.violation("C15", format!("after abandoned requests: {name} counter {have} is below the {least} requests that were answered"), replay.clone());
        }
    }
    let upper = before[0] + ans.iter().sum::<u64>() + sent.iter().sum::<u64>();
    if total > upper {
        out.violation("C15", format!("after abandoned requests: total {total} exceeds everything that was sent ({upper})"), replay);
    }
}

// ----------------------------------------------------------------------------------------
// C15 at any quiescent point: GET /metrics against the running tally
// ----------------------------------------------------------------------------------------
async fn expect_counters(cx: &mut Cx, what: &str, from: usize, out: &mut Out) {
    tokio::time::sleep(Duration::from_millis(30)).await;
    out.bump("metrics_scrapes");
    let Some(c) = scrape(cx).await else {
        out.violation("C15", format!("{what}: GET /metrics failed"), cx.tail(from));
        return;
    };
    let (total, http, grpc, redis, allowed, denied, errors) = (c[0], c[1], c[2], c[3], c[4], c[5], c[6]);
    let t = cx.tally.clone();
    let shown = format!("total {total} http {http} grpc {grpc} redis {redis} allowed {allowed} denied {denied} errors {errors}");
    if total != http + grpc + redis || total != allowed + denied + errors {
        out.violation("C15", format!("{what}: identities broken: {shown}"), cx.tail(from));
    }
    if (http, grpc, redis) != (t.http, t.grpc, t.resp) {
        out.violation("C15", format!("{what}: per-transport counters http {http} grpc {grpc} redis {redis}, but the clients got {} / {} / {} answers that count", t.http, t.grpc, t.resp), cx.tail(from));
    }
    if denied != t.denied {
        out.violation("C15", format!("{what}: requests_denied = {denied} but the clients were told allowed=false {} times", t.denied), cx.tail(from));
    }
    if errors != t.errors {
        out.violation("C15", format!("{what}: requests_errors = {errors} but the clients saw {} internal errors (HTTP 500 / gRPC status)", t.errors), cx.tail(from));
    }
}

// ----------------------------------------------------------------------------------------
// (f) C12 / C09 / C10 / C11 / C15: the protocol-features phase (feat.rs)
// ----------------------------------------------------------------------------------------
async fn protocol_features(cx: &mut Cx, inst: usize, n: usize, out: &mut Out) {
    let from = cx.log.len();
    expect_counters(cx, "before the protocol-features phase", from, out).await;
    let mut fx = crate::feat::Fx::new(cx.ports, cx.rng.fork(), false, format!("bin{inst}_ft_"), cx.launch.clone());
    fx.empty_key = true;
    fx.round = inst;
    // (the gRPC deadlines at volume: on every third instance)
    fx.heavy = inst % 3 == 0;
    fx.run_all(out, (n / 60).max(1)).await;
    // what the phase told its clients goes into the instance's tally (discrepancies were reported by the phase itself)
    let m = fx.moved();
    cx.tally.http += m.http;
    cx.tally.grpc += m.grpc;
    cx.tally.resp += m.resp;
    cx.tally.denied += m.denied;
    cx.tally.errors += m.errors;
    cx.tally.sent_http += fx.sent[Proto::Http as usize];
    cx.tally.sent_grpc += fx.sent[Proto::Grpc as usize];
    cx.tally.sent_resp += fx.sent[Proto::Resp as usize];
    cx.tally.ans_denied += fx.denials.len() as u64;
    for k in &fx.denials {
        *cx.denied_keys.entry(k.clone()).or_insert(0) += 1;
    }
    cx.log.push(format!("protocol-features phase: {} HTTP, {} gRPC, {} RESP requests; counters moved by http +{} grpc +{} redis +{} denied +{} errors +{}", fx.sent[0], fx.sent[1], fx.sent[2], m.http, m.grpc, m.resp, m.denied, m.errors));
}

// ----------------------------------------------------------------------------------------
// (a3) C12 / C09: the DOCUMENTED gRPC schema next to the other clients on one bucket
// ----------------------------------------------------------------------------------------
async fn documented_schema(cx: &mut Cx, inst: usize, out: &mut Out) {
    let b = cx.rng.range(4, 6);
    let key = format!("bin{inst}_docschema");
    let from = cx.log.len();
    cx.log.push(format!("one bucket (fresh key {key:?}, burst {b}, 1 per 3600 s) addressed by four kinds of client in turn; GrpcDocumented = hand-written messages with the documented field numbers (response: allowed=1 limit=2 remaining=3 retry_after=4 reset_after=5)"));
    let (answers, times) = documented_schema_round(&cx.ports, &mut cx.rng, &key, b).await;
    for (i, (who, a, st)) in answers.iter().enumerate() {
        cx.tally.account(who.proto(), a, *st);
        if let WireAns::Ok(false, ..) = a {
            *cx.denied_keys.entry(key.clone()).or_insert(0) += 1;
        }
        cx.log.push(format!("request {} over {who:?} -> {}", i + 1, a.show()));
    }
    out.bump("documented_schema_rounds");
    for (prop, what) in judge_documented_schema(b, &answers, &times) {
        out.violation(prop, what, cx.tail(from));
    }
}

// ----------------------------------------------------------------------------------------
// (a4) C09 / C15: the process is frozen (SIGSTOP) while requests are in flight
// ----------------------------------------------------------------------------------------
fn signal(pid: i32, sig: i32) -> bool {
    // SAFETY: kill(2) on the pid of our own child, which the guard has not reaped yet
    unsafe { libc::kill(pid, sig) == 0 }
}

/// delays between the release of the simultaneous requests and the SIGSTOP, in microseconds
const FREEZE_DELAYS_US: [u64; 6] = [20_000, 5_000, 10_000, 1_000, 20_000, 150];
const FREEZE_ROUNDS: usize = 2;

/// N (8..20) simultaneous unit requests over mixed protocols on a fresh key with burst B (1..3), 1 per 3600 s, every
/// client connected beforehand; 50 us .. 20 ms after they are released the server process is STOPPED for 400 .. 800 ms
/// and then continued.  Meanwhile other connections keep the limiter busy with requests on other keys (all allowed),
/// so that at the moment of the stop requests are in every stage: unread, inside a handler waiting for the limiter,
/// answered.  A pause changes nothing about what the limiter decides: every answer that arrives is one of its decisions,
/// exactly min(N, B) requests are admitted (C09), nobody is left without an answer (C10), the counters agree with what
/// the clients were told (C15).
async fn freeze(cx: &mut Cx, inst: usize, child: &mut ChildGuard, out: &mut Out) {
    use std::sync::atomic::{AtomicBool, Ordering::SeqCst};
    let Some(pid) = child.pid() else { return };
    for rep in 0..FREEZE_ROUNDS {
        let from = cx.log.len();
        let b = cx.rng.range(1, 3);
        let nreq = cx.rng.range(8, 20) as usize;
        let delay_us = FREEZE_DELAYS_US[(inst * FREEZE_ROUNDS + rep) % FREEZE_DELAYS_US.len()];
        let stop_ms = cx.rng.range(400, 800) as u64;
        let key = format!("bin{inst}_freeze{rep}");
        let (hp, gp, rp) = (cx.ports.http, cx.ports.grpc, cx.ports.resp);
        // ---- background load on other keys
        let stop = Arc::new(AtomicBool::new(false));
        let mut flood = vec![];
        for f in 0..48usize {
            let stop = Arc::clone(&stop);
            let mut r = cx.rng.fork();
            // (two in eight carry a key of 1 MB over HTTP / 3 MB over gRPC: the limiter task spends a good part of a
            // millisecond on each of those, so that the requests behind them really wait for it)
            let pad = match f % 8 {
                2 => 1_000_000,
                3 => 3_000_000,
                _ => 0,
            };
            let l = Logical { key: format!("bin{inst}_freeze{rep}_load{f}_{}", "k".repeat(pad)), b: 1_000_000, c: 1_000_000, p: 1, q: Some(1) };
            flood.push(tokio::spawn(async move {
                let mut got: Vec<(Proto, WireAns, u16)> = vec![];
                match f % 8 {
                    0 | 2 => {
                        let req = http_post_bytes(&json_body(&mut r, &l));
                        while !stop.load(SeqCst) {
                            let (a, st) = match TcpStream::connect(("127.0.0.1", hp)).await {
                                Ok(s) => http_answer(http_exchange(s, &req, Duration::from_secs(10)).await),
                                Err(e) => (WireAns::Broken(format!("connect: {e}")), 0),
                            };
                            let broken = matches!(a, WireAns::Broken(_));
                            got.push((Proto::Http, a, st));
                            if broken {
                                break;
                            }
                        }
                    }
                    1 | 3 => {
                        if let Ok(mut g) = doc_grpc_connect(gp).await {
                            while !stop.load(SeqCst) {
                                let a = match tokio::time::timeout(Duration::from_secs(10), doc_grpc_send(&mut g, &l)).await {
                                    Ok(a) => a,
                                    Err(_) => WireAns::Broken("no answer within 10 s".into()),
                                };
                                let broken = matches!(a, WireAns::Broken(_));
                                got.push((Proto::Grpc, a, 0));
                                if broken {
                                    break;
                                }
                            }
                        }
                    }
                    _ => {
                        if let Ok(mut c) = RespConn::open(rp).await {
                            while !stop.load(SeqCst) {
                                let a = resp_answer(c.call(&resp_command(&mut r, &l)).await);
                                let broken = matches!(a, WireAns::Broken(_));
                                got.push((Proto::Resp, a, 0));
                                if broken {
                                    break;
                                }
                            }
                        }
                    }
                }
                got
            }));
        }
        tokio::time::sleep(Duration::from_millis(20)).await;
        // ---- the simultaneous requests: connect first, then wait for the release
        let barrier = Arc::new(tokio::sync::Barrier::new(nreq + 1));
        let mut hs = vec![];
        for i in 0..nreq {
            let proto = if i < 3 { PERMS[0][i] } else { cx.rng.pick(&PERMS[0]) };
            let l = Logical { key: key.clone(), b, c: 1, p: 3600, q: Some(1) };
            let mut r = cx.rng.fork();
            let bar = barrier.clone();
            hs.push(tokio::spawn(async move {
                let wait = Duration::from_secs(10);
                match proto {
                    Proto::Http => {
                        let req = http_post_bytes(&json_body(&mut r, &l));
                        let s = TcpStream::connect(("127.0.0.1", hp)).await;
                        bar.wait().await;
                        match s {
                            Err(e) => (proto, WireAns::Broken(format!("connect: {e}")), 0),
                            Ok(s) => {
                                let _ = s.set_nodelay(true);
                                let (a, st) = http_answer(http_exchange(s, &req, wait).await);
                                (proto, a, st)
                            }
                        }
                    }
                    Proto::Grpc => {
                        let g = doc_grpc_connect(gp).await;
                        bar.wait().await;
                        match g {
                            Err(e) => (proto, WireAns::Broken(e), 0),
                            Ok(mut g) => match tokio::time::timeout(wait, doc_grpc_send(&mut g, &l)).await {
                                Ok(a) => (proto, a, 0),
                                Err(_) => (proto, WireAns::Broken("timeout".into()), 0),
                            },
                        }
                    }
                    Proto::Resp => {
                        let cmd = resp_command(&mut r, &l);
                        let c = RespConn::open(rp).await;
                        bar.wait().await;
                        match c {
                            Err(e) => (proto, WireAns::Broken(e), 0),
                            Ok(mut c) => (proto, resp_answer(c.call(&cmd).await), 0),
                        }
                    }
                }
            }));
        }
        barrier.wait().await;
        // (a busy wait: the timer wheel is far too coarse for 50 us)
        let t0 = Instant::now();
        while t0.elapsed() < Duration::from_micros(delay_us) {
            std::hint::spin_loop();
        }
        let stopped = signal(pid, libc::SIGSTOP);
        tokio::time::sleep(Duration::from_millis(stop_ms)).await;
        let continued = signal(pid, libc::SIGCONT);
        let (mut admitted, mut denied, mut unanswered) = (0i64, 0i64, 0i64);
        let mut inverted = 0i64;
        let mut answers = vec![];
        for h in hs {
            let (proto, a, st) = match h.await {
                Ok(x) => x,
                Err(e) => (Proto::Http, WireAns::Broken(format!("client task failed: {e}")), 0),
            };
            cx.tally.account(proto, &a, st);
            if crate::wire::stamp_inverted(&a) {
                inverted += 1;
            }
            match &a {
                WireAns::Ok(true, ..) => admitted += 1,
                WireAns::Ok(false, ..) => {
                    denied += 1;
                    *cx.denied_keys.entry(key.clone()).or_insert(0) += 1;
                }
                _ => unanswered += 1,
            }
            answers.push(format!("{proto:?}:{}", a.show()));
        }
        stop.store(true, SeqCst);
        let mut load = [0u64; 3];
        let mut load_bad: Vec<String> = vec![];
        for t in flood {
            for (proto, a, st) in t.await.unwrap_or_default() {
                cx.tally.account(proto, &a, st);
                load[proto as usize] += 1;
                if !matches!(a, WireAns::Ok(true, ..)) && load_bad.len() < 5 {
                    load_bad.push(format!("{proto:?}:{}", a.show()));
                }
            }
        }
        cx.log.push(format!(
            "{nreq} simultaneous unit requests on fresh key {key:?}, burst {b}, 1 per 3600 s, every client connected beforehand; {delay_us} us after their release SIGSTOP to the server ({}), SIGCONT {stop_ms} ms later ({}); meanwhile {} HTTP / {} gRPC / {} RESP requests on other keys (burst 1000000) were answered on 48 other connections{}: {}",
            if stopped { "delivered" } else { "FAILED" },
            if continued { "delivered" } else { "FAILED" },
            load[0],
            load[1],
            load[2],
            if load_bad.is_empty() { String::new() } else { format!(", not all of them allowed ({})", load_bad.join(" ")) },
            answers.join(" ")
        ));
        out.bump("freeze_rounds");
        if std::env::var("TCV_DEBUG").is_ok() {
            let buf = cx.launch.split("--buffer-size ").nth(1).and_then(|x| x.split(' ').next()).unwrap_or("?").to_string();
            eprintln!("freeze inst {inst} rep {rep} buffer {buf} delay {delay_us} us stop {stop_ms} ms nreq {nreq} burst {b} admitted {admitted} denied {denied} unanswered {unanswered} load {load:?} http-in-race {}", answers.iter().filter(|a| a.starts_with("Http")).count());
        }
        out.add("freeze_background_requests", load.iter().sum());
        let want = (nreq as i64).min(b);
        if unanswered > 0 {
            out.violation("C10", format!("the server process was stopped for {stop_ms} ms and continued: {unanswered} of {nreq} simultaneous requests got no answer at all within 10 s"), cx.tail(from));
        }
        if admitted > want || (unanswered == 0 && admitted != want) {
            out.violation(
                crate::wire::race_tag(admitted, want, inverted),
                format!("{nreq} simultaneous unit requests over mixed protocols on a fresh key, burst {b}, 1 per 3600 s, the server process being stopped (SIGSTOP) for {stop_ms} ms {delay_us} us after their release: {admitted} allowed, {denied} denied, {unanswered} unanswered; one limiter admits exactly {want} whenever it gets to run"),
                cx.tail(from),
            );
        }
        if !load_bad.is_empty() {
            out.violation("C09", format!("requests on other keys (burst 1000000, 1000000 per second) in flight while the server was stopped for {stop_ms} ms were not all allowed: {}", load_bad.join(" ")), cx.tail(from));
        }
        expect_counters(cx, &format!("after a pause of {stop_ms} ms (SIGSTOP / SIGCONT) with requests in flight"), from, out).await;
        if let Some(st) = child.exited() {
            out.violation("C11", format!("the server process is gone after SIGSTOP / SIGCONT ({st})"), cx.tail(from));
            return;
        }
    }
}

// ----------------------------------------------------------------------------------------
// (c0) C13 / C11: deeply nested RESP frames
// ----------------------------------------------------------------------------------------
/// false = the server process is gone
async fn nested_frames(cx: &mut Cx, child: &mut ChildGuard, out: &mut Out) -> bool {
    let from = cx.log.len();
    for depth in NEST_DEPTHS {
        let frame = nested_frame(depth);
        cx.log.push(format!("new RESP connection; {depth} x `*1` + `:1` ({} bytes), then PING", frame.len()));
        let (reply, ping) = match RespConn::open(cx.ports.resp).await {
            Err(e) => (Err(e), None),
            Ok(mut c) => {
                let r = cx.resp_raw(&mut c, &frame).await;
                let ping = if r.is_ok() { Some(cx.resp_raw(&mut c, b"*1\r\n$4\r\nPING\r\n").await) } else { None };
                (r, ping)
            }
        };
        out.bump("nested_frames");
        if let Some(what) = judge_nested(depth, &reply, &ping) {
            let mut replay = cx.tail(from);
            replay.push(crate::resp::rdec_line(&frame));
            out.violation("C13", what, replay);
        }
        tokio::time::sleep(Duration::from_millis(10)).await;
        if let Some(st) = child.exited() {
            out.violation("C11", format!("the server process is gone after a RESP frame nested {depth} deep ({st})"), cx.tail(from));
            return false;
        }
    }
    true
}

// ----------------------------------------------------------------------------------------
// (c1) C10 / C15: commands in front of a frame the decoder rejects, all in one write
// ----------------------------------------------------------------------------------------
async fn replies_before_rejected_frame(cx: &mut Cx, inst: usize, out: &mut Out) {
    for (fi, (what, bad)) in rejected_frames().into_iter().enumerate() {
        if crate::resp::dec(&bad) != crate::resp::Dec::Error {
            out.bump("rejected_frames_the_decoder_does_not_reject");
            continue;
        }
        let from = cx.log.len();
        let k = cx.rng.range(3, 6);
        let b = cx.rng.range(1, k - 1);
        let l = Logical { key: format!("bin{inst}_pipe{fi}"), b, c: 1, p: 3600, q: Some(1) };
        let mut bytes = vec![];
        for _ in 0..k {
            bytes.extend(resp_command(&mut cx.rng, &l));
        }
        bytes.extend_from_slice(&bad);
        let before = scrape(cx).await;
        let r = resp_write_read_to_end(cx.ports.resp, &bytes, Duration::from_secs(3)).await;
        tokio::time::sleep(Duration::from_millis(30)).await;
        let after = scrape(cx).await;
        out.bump("pipelines_before_a_rejected_frame");
        cx.tally.sent_resp += k as u64;
        let (replies, closed, rest) = match r {
            Ok(x) => x,
            Err(e) => {
                out.violation("C11", format!("cannot open a RESP connection: {e}"), cx.tail(from));
                continue;
            }
        };
        let answers: Vec<WireAns> = replies.into_iter().map(|v| resp_answer(Ok(v))).collect();
        let mut got_denied = 0u64;
        for a in &answers {
            // what the client was told is what the counters must show
            cx.tally.resp += 1;
            match a {
                WireAns::Ok(true, ..) => cx.tally.ans_allowed += 1,
                WireAns::Ok(false, ..) => {
                    got_denied += 1;
                    cx.tally.ans_denied += 1;
                    cx.tally.denied += 1;
                    *cx.denied_keys.entry(l.key.clone()).or_insert(0) += 1;
                }
                _ => cx.tally.ans_error += 1,
            }
        }
        cx.log.push(format!(
            "new RESP connection, ONE write: {k} x THROTTLE {} {b} 1 3600 1, then {what} ({}) -> {} replies [{}], connection closed by the server: {closed}, {rest} more bytes that are no complete reply",
            l.key,
            printable(&bad),
            answers.len(),
            answers.iter().map(|a| a.show()).collect::<Vec<_>>().join(" ")
        ));
        if answers.len() as i64 != k {
            out.violation("C10", format!("{k} complete THROTTLE commands followed by {what} in one write: {} replies arrived before the server closed the connection", answers.len()), cx.tail(from));
        }
        if let (Some(b4), Some(af)) = (before, after) {
            let (d_redis, d_allowed, d_denied) = (af[3] - b4[3], af[4] - b4[4], af[5] - b4[5]);
            if d_redis != answers.len() as u64 || d_denied != got_denied {
                out.violation(
                    "C15",
                    format!("{k} THROTTLE commands followed by {what} in one write: GET /metrics moved by redis +{d_redis} (allowed +{d_allowed}, denied +{d_denied}) but the client received {} replies, {got_denied} of them denials - what was counted is not what clients were told", answers.len()),
                    cx.tail(from),
                );
            }
        }
        for (i, a) in answers.iter().enumerate() {
            let i = i as i64;
            let good = if i < b { matches!(a, WireAns::Ok(true, lim, rem, _, 0) if *lim == b && *rem == b - 1 - i) } else { matches!(a, WireAns::Ok(false, lim, 0, _, _) if *lim == b) };
            if !good {
                out.violation("C12", format!("reply {} of a pipeline of {k} unit requests on a fresh key, burst {b}: {}, want ok,{},{b},{},_,_", i + 1, a.show(), (i < b) as u8, (b - 1 - i).max(0)), cx.tail(from));
                break;
            }
        }
    }
}

// ----------------------------------------------------------------------------------------
// (c2) C11: stalled clients
// ----------------------------------------------------------------------------------------
/// 600 connections per port that sent the beginning of a request and then stay open without another byte; requests
/// on NEW connections of every protocol, GET /health and GET /metrics are served as if they were not there
async fn stalled_clients(cx: &mut Cx, inst: usize, child: &mut ChildGuard, out: &mut Out) {
    let from = cx.log.len();
    let t_open = Instant::now();
    let st = crate::net::open_stalled(cx.ports.http, cx.ports.grpc, cx.ports.resp, 600).await;
    out.add("ms_stalled_open", t_open.elapsed().as_millis() as u64);
    tokio::time::sleep(Duration::from_millis(50)).await;
    out.add("stalled_connections", st.open.iter().sum::<usize>() as u64);
    let what = format!("{} + {} + {} stalled connections open (HTTP: complete head with Content-Length and half of the body; gRPC: HTTP/2 preface, SETTINGS and part of a HEADERS frame; RESP: array header and half of a bulk string)", st.open[0], st.open[1], st.open[2]);
    cx.log.push(what.clone());
    cx.resp_conn = None;
    for proto in [Proto::Http, Proto::Grpc, Proto::Resp] {
        let b = cx.rng.range(2, 6);
        let l = Logical { key: format!("bin{inst}_stallprobe_{proto:?}"), b, c: 1, p: 3600, q: Some(1) };
        if proto == Proto::Resp {
            cx.resp_conn = None;
        }
        let a = cx.send(proto, &l).await;
        out.bump("probes");
        if !matches!(a, WireAns::Ok(true, lim, rem, _, _) if lim == b && rem == b - 1) {
            out.violation("C11", format!("with {what}, a fresh request (burst {b}) on a new {proto:?} connection was answered {}, want ok,1,{b},{},_,_", a.show(), b - 1), cx.tail(from));
        }
    }
    for path in ["/health", "/metrics"] {
        let r = http_raw(cx.ports.http, format!("GET {path} HTTP/1.1\r\nHost: x\r\nConnection: close\r\n\r\n").as_bytes()).await;
        let status = r.map(|x| x.0);
        cx.log.push(format!("GET {path} -> {status:?}"));
        if status != Ok(200) {
            out.violation("C11", format!("with {what}, GET {path} on a new connection gives {status:?}"), cx.tail(from));
        }
    }
    out.add("stalled_connections_closed_by_the_server", st.closed_by_server() as u64);
    st.close();
    cx.resp_conn = None;
    tokio::time::sleep(Duration::from_millis(100)).await;
    if let Some(st) = child.exited() {
        out.violation("C11", format!("the server process is gone after the stalled connections ({st})"), cx.tail(from));
    }
}

// ----------------------------------------------------------------------------------------
/// probes on NEW connections of each protocol: a fresh request, then a request pair allowed + DENIED; the process is
/// still running.  Returns the keys of the denial probes.
async fn probes(cx: &mut Cx, inst: usize, from: usize, child: &mut ChildGuard, out: &mut Out) -> Vec<String> {
    cx.resp_conn = None;
    for proto in [Proto::Http, Proto::Grpc, Proto::Resp] {
        let b = cx.rng.range(2, 6);
        let l = Logical { key: format!("bin{inst}_probe_{proto:?}"), b, c: 1, p: 3600, q: Some(1) };
        if proto == Proto::Resp {
            cx.resp_conn = None;
        }
        let a = cx.send(proto, &l).await;
        out.bump("probes");
        if !matches!(a, WireAns::Ok(true, lim, rem, _, _) if lim == b && rem == b - 1) {
            out.violation("C11", format!("after hostile traffic a fresh request (burst {b}) on a new {proto:?} connection was answered {}, want ok,1,{b},{},_,_", a.show(), b - 1), cx.tail(from));
        }
    }
    // the probe that includes a DENIAL, again on new connections: fresh key, burst 1 -> allowed with nothing
    // remaining, then denied; both must be answered
    let mut probe_keys = vec![];
    for proto in [Proto::Http, Proto::Grpc, Proto::Resp] {
        let key = format!("bin{inst}_dprobe_{proto:?}");
        cx.resp_conn = None;
        for half in 0..2 {
            let l = Logical { key: key.clone(), b: 1, c: 1, p: 3600, q: Some(1) };
            let a = cx.send(proto, &l).await;
            out.bump("probes_with_denial");
            let good = if half == 0 { matches!(a, WireAns::Ok(true, 1, 0, _, _)) } else { matches!(a, WireAns::Ok(false, 1, 0, _, rt) if rt >= 0) };
            if !good {
                out.violation(
                    "C11",
                    format!("after hostile traffic, request {} of the denial probe (fresh key, burst 1, 1 per 3600 s) on a new {proto:?} connection was answered {}, want {}", half + 1, a.show(), if half == 0 { "ok,1,1,0,_,_" } else { "ok,0,1,0,_,>=0" }),
                    cx.tail(from),
                );
            }
        }
        probe_keys.push(key);
    }
    if let Some(st) = child.exited() {
        out.violation("C11", format!("the server process is gone after the hostile traffic ({st})"), cx.tail(from));
    }
    probe_keys
}

// ----------------------------------------------------------------------------------------
// (c) C11
// ----------------------------------------------------------------------------------------
async fn no_poison(cx: &mut Cx, inst: usize, max_denied: u64, verbose_log: bool, n: usize, child: &mut ChildGuard, out: &mut Out) {
    let from = cx.log.len();
    for proto in PERMS[inst % 6] {
        let big = if proto == Proto::Grpc { i32::MAX as i64 } else { i64::MAX };
        let hostile = [
            Logical { key: format!("bin{inst}_big_{proto:?}"), b: big, c: 1, p: big, q: Some(1) },
            Logical { key: format!("bin{inst}_zero_{proto:?}"), b: 0, c: 0, p: 0, q: Some(1) },
            Logical { key: format!("bin{inst}_neg_{proto:?}"), b: 2, c: 1, p: 60, q: Some(-1) },
        ];
        for l in hostile {
            let a = cx.send(proto, &l).await;
            out.bump("hostile_requests");
            if let WireAns::Broken(e) = &a {
                out.violation("C11", format!("hostile request ({}) got no answer at all on {proto:?}: {e}", describe(&l)), cx.tail(from));
            }
        }
    }
    // the hostile numeric lattice one field at a time (`cmd::extreme_requests`: 2^31, 2^32, 2^33, 3 x 2^32, 2^53, 2^63-1, ...
    // in each of max_burst, count_per_period, period, quantity, the other fields valid and small, plus all-extreme
    // combinations) over RESP and HTTP, and over gRPC the values an int32 carries: each is answered by the limiter
    'sweep: for proto in PERMS[(inst + 3) % 6] {
        for (field, b, c, p, q) in crate::cmd::extreme_requests() {
            let l = Logical { key: format!("bin{inst}_x_{proto:?}_{field}"), b, c, p, q: Some(q) };
            if proto == Proto::Grpc && !crate::wire::fits_i32(&l) {
                continue;
            }
            let a = cx.send(proto, &l).await;
            out.bump("extreme_number_requests");
            let gone = matches!(&a, WireAns::Err(e) if e.contains("has shut down") || e.contains("dropped response channel"));
            if gone || matches!(a, WireAns::Broken(_)) {
                let txt = match &a {
                    WireAns::Err(e) => e.chars().take(160).collect::<String>(),
                    a => a.show(),
                };
                out.violation(
                    "C11",
                    format!("a well-formed request with positive numbers ({}: {field} extreme) over {proto:?} was answered {txt:?} - {}", describe(&l), if gone { "the limiter no longer serves" } else { "no answer at all" }),
                    cx.tail(cx.log.len().saturating_sub(4)),
                );
                break 'sweep;
            }
        }
    }
    // hostile KEYS on every protocol, each in a pair burst 1, 1 per 3600 s: allowed, then DENIED - the denial is
    // what hands the key to the server's denied-key tracking
    for (pi, proto) in PERMS[(inst + 1) % 6].into_iter().enumerate() {
        for (what, key) in hostile_keys(&format!("bin{inst}_{proto:?}_"), pi as u32) {
            for half in 0..2 {
                let l = Logical { key: key.clone(), b: 1, c: 1, p: 3600, q: if proto == Proto::Grpc || cx.rng.chance(1, 2) { Some(1) } else { None } };
                let a = cx.send(proto, &l).await;
                out.bump("hostile_key_requests");
                let good = match (&a, half) {
                    (WireAns::Broken(e), _) => {
                        out.violation("C11", format!("request {} of a pair on a hostile key ({what}, {} bytes) got no answer at all on {proto:?}: {e}", half + 1, key.len()), cx.tail(from));
                        true
                    }
                    (WireAns::Ok(true, 1, 0, _, _), 0) => true,
                    (WireAns::Ok(false, 1, 0, _, rt), 1) => {
                        out.bump("hostile_keys_denied");
                        *rt >= 0
                    }
                    _ => false,
                };
                if !good {
                    out.violation(
                        "C12",
                        format!("{proto:?}: request {} of a pair on a fresh hostile key ({what}, {} bytes), burst 1, 1 per 3600 s, answered {}, want {}", half + 1, key.len(), a.show(), if half == 0 { "ok,1,1,0,_,_" } else { "ok,0,1,0,_,>=0" }),
                        cx.tail(from),
                    );
                }
            }
        }
    }
    // requests the limiter REJECTS (burst 0 / count 0 / period 0 / quantity -1: its error path runs) on every hostile key and
    // on keys with a multi-byte character across byte offsets 16 .. 1024, on every protocol: all eight offsets on an
    // instance that logs at debug / trace level (that is where the arguments of debug! / trace! are evaluated), two of
    // them elsewhere
    {
        let offs: Vec<usize> = if verbose_log { crate::cmd::STRADDLE_OFFSETS.to_vec() } else { vec![crate::cmd::STRADDLE_OFFSETS[inst % 8], crate::cmd::STRADDLE_OFFSETS[(inst + 3) % 8]] };
        for (pi, proto) in PERMS[(inst + 2) % 6].into_iter().enumerate() {
            let tag = format!("rj{inst}_{pi}_");
            let mut keys: Vec<(String, String)> = hostile_keys(&tag, pi as u32).into_iter().map(|(w, k)| (w.to_string(), k)).collect();
            keys.extend(crate::cmd::straddle_keys(&tag, &offs));
            for (what, key) in keys {
                for (b, c, p, q) in crate::cmd::REJECTED {
                    let l = Logical { key: key.clone(), b, c, p, q: Some(q) };
                    let a = cx.send(proto, &l).await;
                    out.bump("rejected_hostile_key_requests");
                    match &a {
                        WireAns::Err(e) if !(e.contains("has shut down") || e.contains("dropped response channel")) => {}
                        other => {
                            let txt = match other {
                                WireAns::Err(e) => e.clone(),
                                a => a.show(),
                            };
                            out.violation(
                                "C11",
                                format!("{proto:?}: a request the limiter must reject with an error (key: {what}, {} bytes; limits {b}/{c}/{p}, quantity {q}) was answered {:?}", key.len(), txt.chars().take(160).collect::<String>()),
                                cx.tail(cx.log.len().saturating_sub(6)),
                            );
                        }
                    }
                }
                // ... and one it allows, then one it denies (the hostile keys proper had theirs above)
                if what.contains("char across byte") && key.ends_with("~t") {
                    for half in 0..2 {
                        let l = Logical { key: key.clone(), b: 1, c: 1, p: 3600, q: Some(1) };
                        let a = cx.send(proto, &l).await;
                        out.bump("hostile_key_requests");
                        let good = if half == 0 { matches!(a, WireAns::Ok(true, 1, 0, _, _)) } else { matches!(a, WireAns::Ok(false, 1, 0, _, rt) if rt >= 0) };
                        if !good {
                            let prop = if matches!(a, WireAns::Ok(..)) { "C12" } else { "C11" };
                            out.violation(prop, format!("{proto:?}: request {} of a pair on a fresh key ({what}, {} bytes), burst 1, 1 per 3600 s, answered {}, want {}", half + 1, key.len(), a.show(), if half == 0 { "ok,1,1,0,_,_" } else { "ok,0,1,0,_,>=0" }), cx.tail(cx.log.len().saturating_sub(8)));
                        }
                    }
                }
            }
        }
    }
    // a body the HTTP framework refuses before the handler (not a counted request)
    {
        let body = "{\"key\":\"k\",\"max_burst\":2,";
        let (a, st) = http_throttle(cx.ports.http, body).await;
        cx.tally.account(Proto::Http, &a, st);
        cx.log.push(format!("HTTP POST /throttle {body} -> status {st}"));
        out.bump("hostile_requests");
    }
    // RESP: the three replies that are not counted, one that is, then a frame the parser rejects
    match RespConn::open(cx.ports.resp).await {
        Err(e) => out.violation("C11", format!("cannot open a RESP connection: {e}"), cx.tail(from)),
        Ok(mut conn) => {
            for (bytes, want) in [
                (&b"+hello\r\n"[..], "ERR expected array of commands"),
                (&b"*0\r\n"[..], "ERR empty command"),
                (&b"*1\r\n:5\r\n"[..], "ERR invalid command format"),
                (&b"*1\r\n$4\r\nPING\r\n"[..], "PONG"),
            ] {
                let r = cx.resp_raw(&mut conn, bytes).await;
                out.bump("hostile_requests");
                let good = match &r {
                    Ok(RespValue::Error(e)) => e == want,
                    Ok(RespValue::SimpleString(s)) => s == want,
                    _ => false,
                };
                if !good {
                    out.violation("C11", format!("RESP {} was not answered {want:?}", printable(bytes)), cx.tail(from));
                }
            }
            // garbage: the connection is dropped by the server, nothing is answered
            let r = cx.resp_raw(&mut conn, b"!garbage \x00\xff\xfe\r\n").await;
            out.bump("hostile_requests");
            if r.is_ok() {
                out.violation("C11", "a RESP frame with an invalid type marker was answered".into(), cx.tail(from));
            }
        }
    }
    // deeply nested frames (C13; a dead process: C11), then commands in front of a rejected frame in one write (C10 / C15)
    if !nested_frames(cx, child, out).await {
        return;
    }
    replies_before_rejected_frame(cx, inst, out).await;
    expect_counters(cx, "after the RESP pipelines that end in a rejected frame", from, out).await;
    // 70 KB RESP line without CRLF on a connection of its own
    if let Ok(mut s) = TcpStream::connect(("127.0.0.1", cx.ports.resp)).await {
        let mut g = vec![b'+'];
        g.extend(std::iter::repeat(b'g').take(70_000));
        let _ = s.write_all(&g).await;
        let mut sink = vec![0u8; 1024];
        let r = tokio::time::timeout(Duration::from_millis(1000), s.read(&mut sink)).await;
        cx.tally.sent_resp += 1;
        cx.log.push(format!(
            "RESP '+' followed by 70000 x 'g', no CRLF -> {}",
            match r {
                Ok(Ok(0)) | Ok(Err(_)) => "closed by the server".to_string(),
                Ok(Ok(n)) => format!("{n} bytes answered: {}", printable(&sink[..n])),
                Err(_) => "still open after 1 s".to_string(),
            }
        ));
        out.bump("hostile_requests");
    }
    // connections closed abruptly in the middle of a frame
    for (name, port, bytes) in [
        ("HTTP", cx.ports.http, &b"POST /throttle HTTP/1.1\r\nHost: x\r\nContent-Type: application/json\r\nContent-Length: 100\r\n\r\n{\"key\":"[..]),
        ("RESP", cx.ports.resp, &b"*5\r\n$8\r\nTHROTTLE\r\n$1\r\nk\r\n$1"[..]),
        ("gRPC", cx.ports.grpc, &b"PRI * HTTP/2.0\r\n\r\nSM\r\n\r\n\x00\x00"[..]),
    ] {
        if let Ok(mut s) = TcpStream::connect(("127.0.0.1", port)).await {
            let _ = s.write_all(bytes).await;
            let _ = s.flush().await;
            drop(s);
        }
        cx.log.push(format!("{name} connection closed by the client after {}", printable(bytes)));
        out.bump("hostile_requests");
    }
    // abort storms: connections reset (RST, SO_LINGER 0) right after connect - before the server has accepted them -
    // some with an incomplete request pending, eight threads at once
    for (name, port) in [("http", cx.ports.http), ("grpc", cx.ports.grpc), ("resp", cx.ports.resp)] {
        let partials = crate::net::partial_requests(name);
        let seed2 = cx.rng.next_u64();
        let total = (n * 5).clamp(100, 400);
        let st = tokio::task::spawn_blocking(move || crate::net::abort_storm(port, total, 8, &partials, seed2)).await.unwrap_or_default();
        out.add("aborted_connections", st.connected);
        cx.log.push(format!("abort storm on the {name} port: {} connections reset right after connect, {} of them after writing an incomplete request", st.connected, st.with_data));
    }
    tokio::time::sleep(Duration::from_millis(50)).await;
    let probe_keys = probes(cx, inst, from, child, out).await;
    // GET /metrics still answers and, with tracking enabled, lists the keys denied a moment ago.  A key is
    // certain to be listed when no more than --max-denied-keys distinct keys (of <= 256 bytes) were denied at
    // all: the table never evicts then and the report shows all of it.
    tokio::time::sleep(Duration::from_millis(20)).await;
    let scrape = http_raw(cx.ports.http, b"GET /metrics HTTP/1.1\r\nHost: x\r\nConnection: close\r\n\r\n").await;
    out.bump("metrics_scrapes");
    match scrape {
        Ok((200, text)) => {
            let listed = top_denied_lines(&text);
            let tracked = cx.tracked_denied().len() as u64;
            if max_denied > 0 && tracked <= max_denied {
                for k in &probe_keys {
                    out.bump("probe_keys_expected_in_metrics");
                    match listed.iter().find(|l| &l.0 == k) {
                        Some((_, v)) if v == "1" => {}
                        other => {
                            let mut replay = cx.tail(from);
                            replay.extend(text.split('\n').filter(|l| l.starts_with("throttlecrab_top_denied_keys")).take(40).map(|l| format!("# /metrics: {}", l.chars().take(300).collect::<String>())));
                            out.violation("C16", format!("after the hostile traffic GET /metrics (--max-denied-keys {max_denied}, {tracked} distinct keys denied so far) has for the probe key {k:?}, denied once a moment ago, the top_denied_keys sample {other:?}"), replay);
                        }
                    }
                }
            } else if max_denied > 0 {
                out.bump("probe_keys_rank_undetermined");
                if listed.is_empty() {
                    out.violation("C15", format!("after the hostile traffic GET /metrics (--max-denied-keys {max_denied}) has no throttlecrab_top_denied_keys sample although {tracked} keys were denied"), cx.tail(from));
                }
            }
        }
        other => out.violation("C15", format!("after the hostile traffic GET /metrics failed: {other:?}"), cx.tail(from)),
    }
}

// ----------------------------------------------------------------------------------------
// (d) C15
// ----------------------------------------------------------------------------------------
async fn check_metrics(cx: &mut Cx, inst: usize, max_denied: u64, out: &mut Out) {
    tokio::time::sleep(Duration::from_millis(20)).await;
    let scrape = http_raw(cx.ports.http, b"GET /metrics HTTP/1.1\r\nHost: x\r\nConnection: close\r\n\r\n").await;
    out.bump("metrics_scrapes");
    let t = cx.tally.clone();
    let mut replay = vec![
        format!("# {}", cx.launch),
        format!("# sent: {} HTTP, {} gRPC, {} RESP requests; expected counters http {} grpc {} redis {} denied {} errors {}", t.sent_http, t.sent_grpc, t.sent_resp, t.http, t.grpc, t.resp, t.denied, t.errors),
    ];
    let text = match scrape {
        Ok((200, text)) => text,
        other => {
            out.violation("C15", format!("GET /metrics failed: {other:?}"), replay);
            return;
        }
    };
    let mut vals: BTreeMap<String, u64> = BTreeMap::new();
    let mut top = 0u64;
    let mut top_mentions = 0u64;
    for line in text.split('\n') {
        if line.contains("throttlecrab_top_denied_keys") {
            top_mentions += 1;
        }
        if line.is_empty() || line.starts_with('#') {
            continue;
        }
        replay.push(format!("# /metrics: {line}"));
        match lex_sample(line) {
            Ok(s) => {
                if s.name == "throttlecrab_top_denied_keys" {
                    top += 1;
                    continue;
                }
                let k = if s.labels.is_empty() { s.name.clone() } else { format!("{}{{{}}}", s.name, s.labels[0].1) };
                if let Ok(v) = s.value.parse::<u64>() {
                    vals.insert(k, v);
                }
            }
            Err(e) => out.violation("C16", format!("/metrics line not well-formed ({e}): {line:?}"), vec![format!("# {}", cx.launch)]),
        }
    }
    replay.truncate(60);
    let g = |k: &str| vals.get(k).copied();
    let names = [
        "throttlecrab_requests_total",
        "throttlecrab_requests_by_transport{http}",
        "throttlecrab_requests_by_transport{grpc}",
        "throttlecrab_requests_by_transport{redis}",
        "throttlecrab_requests_allowed",
        "throttlecrab_requests_denied",
        "throttlecrab_requests_errors",
    ];
    let got: Vec<Option<u64>> = names.iter().map(|k| g(k)).collect();
    if got.iter().any(|x| x.is_none()) {
        out.violation("C15", format!("GET /metrics lacks one of {names:?}"), replay);
        return;
    }
    let v: Vec<u64> = got.into_iter().map(|x| x.unwrap()).collect();
    let (total, http, grpc, redis, allowed, denied, errors) = (v[0], v[1], v[2], v[3], v[4], v[5], v[6]);
    if inst == 0 {
        out.sample(format!("(d) /metrics total {total} http {http} grpc {grpc} redis {redis} allowed {allowed} denied {denied} errors {errors} top_denied_keys lines {top} (max {max_denied})"));
    }
    if total != http + grpc + redis || total != allowed + denied + errors {
        out.violation("C15", format!("identities broken: total {total} http {http} grpc {grpc} redis {redis} allowed {allowed} denied {denied} errors {errors}"), replay.clone());
    }
    if (http, grpc, redis) != (t.http, t.grpc, t.resp) {
        out.violation("C15", format!("per-transport counters http {http} grpc {grpc} redis {redis}, but the clients got {} / {} / {} answers that count", t.http, t.grpc, t.resp), replay.clone());
    }
    if denied != t.denied {
        out.violation("C15", format!("requests_denied = {denied} but the clients were told allowed=false {} times", t.denied), replay.clone());
    }
    if errors != t.errors {
        out.violation("C15", format!("requests_errors = {errors} but the clients saw {} internal errors (HTTP 500 / gRPC status)", t.errors), replay.clone());
    }
    out.add("top_denied_key_lines", top);
    // when no more than --max-denied-keys distinct keys were denied, the report is the whole table: one sample
    // per denied key (of <= 256 bytes), valued with the number of denials the clients were told
    let tracked = cx.tracked_denied();
    if max_denied > 0 && tracked.len() as u64 <= max_denied {
        out.bump("exact_reports_checked");
        let mut got = top_denied_lines(&text);
        let mut want: Vec<(String, String)> = tracked.iter().map(|(k, c)| ((*k).clone(), c.to_string())).collect();
        got.sort();
        want.sort();
        if got != want {
            let show = |v: &[(String, String)]| v.iter().map(|(k, c)| format!("{:?}:{c}", k.chars().take(60).collect::<String>())).collect::<Vec<_>>().join(" ");
            out.violation("C16", format!("--max-denied-keys {max_denied} and {} distinct keys denied, so /metrics must list exactly those with their denial counts; listed: {} ; denied: {}", want.len(), show(&got), show(&want)), replay.clone());
        }
    }
    if max_denied == 0 {
        if top_mentions != 0 {
            out.violation("C15", format!("--max-denied-keys 0 but /metrics has {top_mentions} throttlecrab_top_denied_keys lines"), replay.clone());
        }
    } else {
        if top > max_denied {
            out.violation("C15", format!("--max-denied-keys {max_denied} but /metrics lists {top} throttlecrab_top_denied_keys samples"), replay.clone());
        }
        if top == 0 && denied > 0 {
            out.violation("C15", format!("--max-denied-keys {max_denied}, {denied} denials, but no throttlecrab_top_denied_keys sample"), replay.clone());
        }
    }
}

// ----------------------------------------------------------------------------------------
/// the command-line configuration of one instance
#[derive(Clone, Debug)]
struct Plan {
    store: &'static str,
    buffer: u64,
    max_denied: u64,
    log_level: &'static str,
}

/// seed-chosen configurations.  Always (whatever the number of instances) one instance runs at `--log-level debug`
/// with a denied-keys report large enough (1000) to list every key denied in the instance; with two instances or
/// more another one runs at `--log-level trace` and at least one has `--buffer-size 1`.
fn plan_instances(rng: &mut Rng, instances: usize) -> Vec<Plan> {
    let mut plans: Vec<Plan> = (0..instances)
        .map(|_| Plan {
            store: rng.pick(&["periodic", "adaptive", "probabilistic"]),
            buffer: rng.pick(&[1u64, 2, 100_000]),
            max_denied: rng.pick(&[0u64, 5, 100]),
            log_level: rng.pick(&["error", "warn", "info", "debug", "trace"]),
        })
        .collect();
    let i = rng.below(instances as u64) as usize;
    plans[i].log_level = "debug";
    plans[i].max_denied = 1000;
    if instances >= 2 {
        let j = (i + 1 + rng.below(instances as u64 - 1) as usize) % instances;
        plans[j].log_level = "trace";
        if !plans.iter().any(|p| p.buffer == 1) {
            let k = rng.below(instances as u64) as usize;
            plans[k].buffer = 1;
        }
    }
    plans
}

/// Start the server binary with all three transports on free loopback ports plus `extra` arguments and wait (10 s)
/// until the three ports accept.  When the process ends during start-up or a port does not come up - some other
/// process may have taken a port between our look-up and the server's bind - it is started again on new ports, three
/// times in all; only then `C09 binary did not start` is reported.
async fn launch(bin: &str, extra: &[&str], out: &mut Out) -> Option<(ChildGuard, Ports, String)> {
    let mut last = String::new();
    for _attempt in 0..3 {
        let ports = free_ports();
        let mut args: Vec<String> = [
            "--http", "--http-host", "127.0.0.1", "--http-port", &ports.http.to_string(),
            "--grpc", "--grpc-host", "127.0.0.1", "--grpc-port", &ports.grpc.to_string(),
            "--redis", "--redis-host", "127.0.0.1", "--redis-port", &ports.resp.to_string(),
        ]
        .iter()
        .map(|s| s.to_string())
        .collect();
        args.extend(extra.iter().map(|s| s.to_string()));
        let launch = format!("{bin} {}", args.join(" "));
        let mut cmd = Command::new(bin);
        cmd.args(&args).stdin(Stdio::null()).stdout(Stdio::null()).stderr(Stdio::null());
        // the configuration comes from the command line only
        for (k, _) in std::env::vars_os() {
            let ks = k.to_string_lossy();
            if ks.starts_with("THROTTLECRAB_") || ks == "RUST_LOG" {
                cmd.env_remove(&k);
            }
        }
        let mut child = match cmd.spawn() {
            Ok(c) => ChildGuard(Some(c)),
            Err(e) => {
                out.violation("C09", format!("binary did not start: spawn failed: {e}"), vec![format!("# {launch}")]);
                return None;
            }
        };
        // all three ports must accept connections within 10 s
        let deadline = Instant::now() + Duration::from_secs(10);
        let mut up = [false; 3];
        let failed = loop {
            for (i, p) in [ports.http, ports.grpc, ports.resp].into_iter().enumerate() {
                if !up[i] {
                    if let Ok(s) = TcpStream::connect(("127.0.0.1", p)).await {
                        drop(s);
                        up[i] = true;
                    }
                }
            }
            if let Some(st) = child.exited() {
                break Some(format!("binary did not start: the process ended during start-up ({st})"));
            }
            if up.iter().all(|x| *x) {
                break None;
            }
            if Instant::now() >= deadline {
                break Some(format!("binary did not start: ports accepting after 10 s (http, grpc, redis): {up:?}"));
            }
            tokio::time::sleep(Duration::from_millis(10)).await;
        };
        match failed {
            None => {
                // the probe connections carry no request and count for nothing
                tokio::time::sleep(Duration::from_millis(20)).await;
                if let Some(st) = child.exited() {
                    last = format!("binary did not start: the process ended during start-up ({st})\n# {launch}");
                    out.bump("launch_retries");
                    continue;
                }
                return Some((child, ports, launch));
            }
            Some(why) => {
                last = format!("{why}\n# {launch}");
                out.bump("launch_retries");
            }
        }
    }
    let (why, launch) = last.split_once('\n').unwrap_or((&last, ""));
    out.violation("C09", format!("{why} (3 attempts on different ports)"), vec![launch.to_string()]);
    None
}

// ----------------------------------------------------------------------------------------
// (g) process lifecycle and configuration: partial transport sets, store tuning flags, environment variables, SIGTERM
// ----------------------------------------------------------------------------------------
/// `--store-cleanup-interval` -> `THROTTLECRAB_STORE_CLEANUP_INTERVAL`
fn env_name(flag: &str) -> String {
    format!("THROTTLECRAB_{}", flag.trim_start_matches('-').replace('-', "_").to_ascii_uppercase())
}

const TRANSPORT_NAMES: [&str; 3] = ["http", "grpc", "redis"];

/// Start the binary with the transports `enabled` (host and port of ALL three are configured, so that the port a
/// disabled transport would use is known) and the options `opts` (flag, value), given on the command line or - `via_env`
/// - through `THROTTLECRAB_*` variables.  `decoy`: the environment names ANOTHER free port for every transport while the
/// command line names the real one (documented: the command line wins).  Waits until the enabled ports accept.
async fn launch_custom(bin: &str, enabled: [bool; 3], opts: &[(String, String)], via_env: bool, decoy: bool, out: &mut Out) -> Option<(ChildGuard, Ports, String)> {
    let mut last = String::new();
    for _attempt in 0..3 {
        let ports = free_ports();
        let plist = [ports.http, ports.grpc, ports.resp];
        let mut args: Vec<String> = vec![];
        let mut envs: Vec<(String, String)> = vec![];
        let decoys = free_ports();
        let dlist = [decoys.http, decoys.grpc, decoys.resp];
        for i in 0..3 {
            let t = TRANSPORT_NAMES[i];
            let mut put = |flag: String, value: Option<String>, force_cli: bool| {
                if via_env && !force_cli {
                    envs.push((env_name(&flag), value.unwrap_or("true".into())));
                } else {
                    args.push(flag);
                    if let Some(v) = value {
                        args.push(v);
                    }
                }
            };
            if enabled[i] {
                put(format!("--{t}"), None, false);
            }
            put(format!("--{t}-host"), Some("127.0.0.1".into()), false);
            put(format!("--{t}-port"), Some(plist[i].to_string()), decoy);
            if decoy {
                envs.push((env_name(&format!("--{t}-port")), dlist[i].to_string()));
            }
        }
        for (flag, value) in opts {
            if via_env {
                envs.push((env_name(flag), value.clone()));
            } else {
                args.push(flag.clone());
                args.push(value.clone());
            }
        }
        let launch = format!("{}{bin} {}", envs.iter().map(|(k, v)| format!("{k}={v} ")).collect::<String>(), args.join(" "));
        let mut cmd = Command::new(bin);
        cmd.args(&args).stdin(Stdio::null()).stdout(Stdio::null()).stderr(Stdio::null());
        for (k, _) in std::env::vars_os() {
            let ks = k.to_string_lossy();
            if ks.starts_with("THROTTLECRAB_") || ks == "RUST_LOG" {
                cmd.env_remove(&k);
            }
        }
        for (k, v) in &envs {
            cmd.env(k, v);
        }
        let mut child = match cmd.spawn() {
            Ok(c) => ChildGuard(Some(c)),
            Err(e) => {
                out.violation("C09", format!("binary did not start: spawn failed: {e}"), vec![format!("# {launch}")]);
                return None;
            }
        };
        let deadline = Instant::now() + Duration::from_secs(10);
        let mut up = [false; 3];
        let failed = loop {
            for i in 0..3 {
                if enabled[i] && !up[i] {
                    if let Ok(s) = TcpStream::connect(("127.0.0.1", plist[i])).await {
                        drop(s);
                        up[i] = true;
                    }
                }
            }
            if let Some(st) = child.exited() {
                break Some(format!("binary did not start: the process ended during start-up ({st})"));
            }
            if (0..3).all(|i| up[i] || !enabled[i]) {
                break None;
            }
            if Instant::now() >= deadline {
                break Some(format!("binary did not start: enabled (http, grpc, redis) = {enabled:?}, ports accepting after 10 s: {up:?}"));
            }
            tokio::time::sleep(Duration::from_millis(10)).await;
        };
        match failed {
            None => {
                tokio::time::sleep(Duration::from_millis(30)).await;
                if child.exited().is_none() {
                    // the decoy ports are nobody's
                    if decoy {
                        for i in 0..3 {
                            if TcpStream::connect(("127.0.0.1", dlist[i])).await.is_ok() {
                                out.violation("C09", format!("the environment names port {} for the {} transport, the command line port {}: the command line wins (documented), but the port from the environment accepts connections", dlist[i], TRANSPORT_NAMES[i], plist[i]), vec![format!("# {launch}")]);
                            }
                        }
                    }
                    return Some((child, ports, launch));
                }
                last = format!("binary did not start: the process ended during start-up\n# {launch}");
                out.bump("launch_retries");
            }
            Some(why) => {
                last = format!("{why}\n# {launch}");
                out.bump("launch_retries");
            }
        }
    }
    let (why, launch) = last.split_once('\n').unwrap_or((&last, ""));
    out.violation("C09", format!("{why} (3 attempts on different ports)"), vec![launch.to_string()]);
    None
}

/// one request by a simple client (new connection) over `proto`
async fn simple_request(ports: &Ports, rng: &mut Rng, proto: Proto, l: &Logical) -> (WireAns, u16) {
    match proto {
        Proto::Http => http_throttle(ports.http, &json_body(rng, l)).await,
        Proto::Grpc => (grpc_call(ports.grpc, l).await, 0),
        Proto::Resp => match RespConn::open(ports.resp).await {
            Ok(mut c) => (resp_answer(c.call(&resp_command(rng, l)).await), 0),
            Err(e) => (WireAns::Broken(e), 0),
        },
    }
}

/// what happened around a SIGTERM: violations (property, what, transcript lines) and a few numbers
#[derive(Default)]
struct ShutdownReport {
    viol: Vec<(String, String, Vec<String>)>,
    in_flight_clients: u64,
    answered_before: u64,
    answered_after: u64,
    failed: u64,
    exit_ms: u64,
}

/// SIGTERM while 20..50 clients - on every enabled protocol, each on a connection of its own - have a request in
/// flight at any moment.  What main.rs promises: the transports stop, the process ends (about 100 ms later) with
/// status 0.  So every request is answered with a decision of the limiter or not at all (connection error / error
/// reply): an exhausted key is never allowed, a key with burst 3 admits 3 in all, a key that is never short of tokens
/// is never denied; and the process is gone within 5 s.
async fn graceful_shutdown(mut child: ChildGuard, ports: Ports, enabled: [bool; 3], mut rng: Rng, tag: String, launch: String) -> ShutdownReport {
    use std::sync::atomic::{AtomicBool, Ordering::SeqCst};
    let mut rep = ShutdownReport::default();
    let Some(pid) = child.pid() else { return rep };
    let protos: Vec<Proto> = PERMS[0].into_iter().filter(|p| enabled[*p as usize]).collect();
    let kx = format!("{tag}_term_exhausted");
    let kf = format!("{tag}_term_fresh");
    let kg = format!("{tag}_term_free");
    let lx = Logical { key: kx.clone(), b: 1, c: 1, p: 3600, q: Some(1) };
    let lf = Logical { key: kf.clone(), b: 3, c: 1, p: 3600, q: Some(1) };
    let lg = Logical { key: kg.clone(), b: 1_000_000, c: 1_000_000, p: 1, q: Some(1) };
    let mut log = vec![format!("# {launch}")];
    let (a, _) = simple_request(&ports, &mut rng, protos[0], &lx).await;
    log.push(format!("# key {kx:?} (burst 1, 1 per 3600 s) exhausted beforehand over {:?}: {}", protos[0], a.show()));
    let nclients = rng.range(20, 50) as usize;
    rep.in_flight_clients = nclients as u64;
    let signalled = Arc::new(AtomicBool::new(false));
    let mut hs = vec![];
    for ci in 0..nclients {
        let proto = protos[ci % protos.len()];
        let l = match ci % 4 {
            0 => lx.clone(),
            1 => lf.clone(),
            _ => lg.clone(),
        };
        let mut r = rng.fork();
        let signalled = Arc::clone(&signalled);
        hs.push(tokio::spawn(async move {
            // (kind of key, answer, the SIGTERM had been sent when the request was started)
            let mut got: Vec<(usize, WireAns, bool)> = vec![];
            let kind = ci % 4;
            let t_end = Instant::now() + Duration::from_secs(4);
            match proto {
                Proto::Http => {
                    let Ok(mut c) = crate::feat::HttpConn::open(ports.http).await else { return (proto, got) };
                    while Instant::now() < t_end {
                        let after = signalled.load(SeqCst);
                        let body = json_body(&mut r, &l);
                        let req = crate::feat::request_pieces(&mut r, "POST", "/throttle", Some(body.as_bytes()), &crate::feat::Style::plain()).concat();
                        let resp = match c.send(&req).await {
                            Ok(()) => c.response(Duration::from_secs(3)).await,
                            Err(e) => Err(e),
                        };
                        let (a, _) = http_answer(resp.map(|x| (x.status, x.body)));
                        let stop = !matches!(a, WireAns::Ok(..));
                        got.push((kind, a, after));
                        if stop {
                            break;
                        }
                    }
                }
                Proto::Grpc => {
                    let Ok(mut g) = doc_grpc_connect(ports.grpc).await else { return (proto, got) };
                    while Instant::now() < t_end {
                        let after = signalled.load(SeqCst);
                        let a = match tokio::time::timeout(Duration::from_secs(3), doc_grpc_send(&mut g, &l)).await {
                            Ok(a) => a,
                            Err(_) => WireAns::Broken("no answer within 3 s".into()),
                        };
                        let stop = !matches!(a, WireAns::Ok(..));
                        got.push((kind, a, after));
                        if stop {
                            break;
                        }
                    }
                }
                Proto::Resp => {
                    let Ok(mut c) = RespConn::open(ports.resp).await else { return (proto, got) };
                    while Instant::now() < t_end {
                        let after = signalled.load(SeqCst);
                        let a = match tokio::time::timeout(Duration::from_secs(3), c.call(&resp_command(&mut r, &l))).await {
                            Ok(x) => resp_answer(x),
                            Err(_) => WireAns::Broken("no reply within 3 s".into()),
                        };
                        let stop = !matches!(a, WireAns::Ok(..));
                        got.push((kind, a, after));
                        if stop {
                            break;
                        }
                    }
                }
            }
            (proto, got)
        }));
    }
    // 48 more RESP connections that keep PIPELINING unit requests on the exhausted key (32 commands per write): whatever
    // reply arrives before such a connection closes is a denial
    let mut pipes = vec![];
    if enabled[Proto::Resp as usize] {
        for _ in 0..48 {
            let mut r = rng.fork();
            let l = lx.clone();
            let signalled = Arc::clone(&signalled);
            pipes.push(tokio::spawn(async move {
                // (replies that say allowed, replies in all, replies after the signal)
                let (mut allowed, mut replies, mut after) = (0u64, 0u64, 0u64);
                let mut sample: Option<String> = None;
                let Ok(mut c) = RespConn::open(ports.resp).await else { return (allowed, replies, after, sample) };
                let t_end = Instant::now() + Duration::from_secs(4);
                'conn: while Instant::now() < t_end {
                    let mut bytes = vec![];
                    for _ in 0..32 {
                        bytes.extend(resp_command(&mut r, &l));
                    }
                    for k in 0..32 {
                        let sig = signalled.load(SeqCst);
                        let x = match tokio::time::timeout(Duration::from_secs(3), c.call(if k == 0 { &bytes } else { b"" })).await {
                            Ok(x) => x,
                            Err(_) => break 'conn,
                        };
                        match resp_answer(x) {
                            WireAns::Broken(_) => break 'conn,
                            a => {
                                replies += 1;
                                if sig {
                                    after += 1;
                                }
                                if matches!(a, WireAns::Ok(true, ..)) {
                                    allowed += 1;
                                    if sample.is_none() {
                                        sample = Some(format!("{}{}", a.show(), if sig { " (read after the SIGTERM was sent)" } else { "" }));
                                    }
                                }
                            }
                        }
                    }
                }
                (allowed, replies, after, sample)
            }));
        }
    }
    tokio::time::sleep(Duration::from_millis(rng.range(60, 160) as u64)).await;
    signalled.store(true, SeqCst);
    let t_sig = Instant::now();
    let delivered = signal(pid, libc::SIGTERM);
    // the process must end by itself
    let mut status: Option<std::process::ExitStatus> = None;
    while t_sig.elapsed() < Duration::from_secs(5) {
        if let Some(c) = child.0.as_mut() {
            if let Ok(Some(st)) = c.try_wait() {
                status = Some(st);
                break;
            }
        }
        tokio::time::sleep(Duration::from_millis(5)).await;
    }
    rep.exit_ms = t_sig.elapsed().as_millis() as u64;
    log.push(format!("# {nclients} clients ({protos:?} in turn, a connection each) sending one request after the other on keys {kx:?} (exhausted), {kf:?} (fresh, burst 3), {kg:?} (burst 1000000, 1000000 per second); SIGTERM {} after they had started; process status {} ms later: {}", if delivered { "sent" } else { "NOT DELIVERED" }, rep.exit_ms, status.map(|s| s.to_string()).unwrap_or("still running".into())));
    match status {
        None => rep.viol.push(("C11".into(), "5 s after SIGTERM the server process is still running (main.rs: stop the transports, wait 100 ms, exit)".into(), log.clone())),
        Some(st) if !st.success() => rep.viol.push(("C11".into(), format!("after SIGTERM the server process ended with `{st}`, not with status 0: no graceful shutdown"), log.clone())),
        _ => {}
    }
    drop(child); // (kills it if it is still there: the clients below must not wait for it)
    let mut fresh_allowed = 0u64;
    let mut bad: Vec<String> = vec![];
    let mut summary: Vec<String> = vec![];
    for h in hs {
        let Ok((proto, got)) = h.await else { continue };
        let mut line = vec![];
        for (kind, a, after) in got {
            match &a {
                WireAns::Ok(al, lim, rem, _, _) => {
                    if after { rep.answered_after += 1 } else { rep.answered_before += 1 }
                    let fine = match kind {
                        0 => !*al && *lim == 1 && *rem == 0,
                        1 => {
                            if *al {
                                fresh_allowed += 1;
                            }
                            *lim == 3 && (0..3).contains(rem) && (*al || *rem == 0)
                        }
                        _ => *al && *lim == 1_000_000,
                    };
                    if !fine {
                        bad.push(format!("{proto:?} on the {} key{}: {}", ["exhausted (burst 1)", "fresh (burst 3)", "never-short (burst 1000000)", "never-short (burst 1000000)"][kind], if after { " (request started after the SIGTERM)" } else { "" }, a.show()));
                    }
                }
                _ => rep.failed += 1,
            }
            if line.len() < 6 {
                line.push(format!("{}{}", if after { "*" } else { "" }, match &a { WireAns::Err(e) => format!("err({})", e.chars().take(60).collect::<String>()), a => a.show() }));
            }
        }
        if summary.len() < 12 {
            summary.push(format!("# {proto:?}: {}", line.join(" ")));
        }
    }
    log.extend(summary);
    let (mut p_allowed, mut p_replies, mut p_after) = (0u64, 0u64, 0u64);
    let mut p_sample = None;
    for h in pipes {
        if let Ok((a, n, af, s)) = h.await {
            p_allowed += a;
            p_replies += n;
            p_after += af;
            p_sample = p_sample.or(s);
        }
    }
    rep.answered_after += p_after;
    rep.answered_before += p_replies - p_after;
    if p_replies > 0 {
        log.push(format!("# 48 RESP connections pipelining unit requests on the exhausted key {kx:?} (32 per write): {p_replies} replies, {p_after} of them read after the SIGTERM was sent, {p_allowed} say allowed"));
    }
    if p_allowed > 0 {
        rep.viol.push(("C09".into(), format!("an exhausted key (burst 1, 1 per 3600 s) hammered over 48 pipelining RESP connections while the server gets a SIGTERM: {p_allowed} of {p_replies} replies say ALLOWED (e.g. {}) - a server that is going down must not fabricate decisions", p_sample.unwrap_or_default()), log.clone()));
    }
    if !bad.is_empty() {
        rep.viol.push(("C09".into(), format!("around a SIGTERM with requests in flight {} answers are not decisions of the limiter (an exhausted key allowed / a key that is never short of tokens denied / wrong limit): {}", bad.len(), bad.iter().take(4).cloned().collect::<Vec<_>>().join("; ")), log.clone()));
    }
    if fresh_allowed > 3 {
        rep.viol.push(("C09".into(), format!("around a SIGTERM with requests in flight a fresh key with burst 3 (1 per 3600 s) was allowed {fresh_allowed} times"), log.clone()));
    }
    rep
}

fn merge_shutdown(rep: ShutdownReport, out: &mut Out) {
    out.bump("sigterm_shutdowns");
    out.add("sigterm_clients_in_flight", rep.in_flight_clients);
    out.add("sigterm_requests_answered_before", rep.answered_before);
    out.add("sigterm_requests_answered_after_the_signal", rep.answered_after);
    out.add("sigterm_requests_failed", rep.failed);
    out.add("ms_sigterm_to_exit", rep.exit_ms);
    for (p, w, r) in rep.viol {
        out.violation(&p, w, r);
    }
}

/// (g1) instances with one or two of the three transports: the enabled ones share one limiter, the ports of the others
/// refuse connections, their counters stay 0; every other instance is configured through the environment; each ends
/// with a SIGTERM while requests are in flight
async fn partial_transports(bin: &str, n: usize, rng: &mut Rng, out: &mut Out) {
    let mut subsets: Vec<[bool; 3]> = vec![[true, false, false], [false, true, false], [false, false, true], [true, true, false], [true, false, true], [false, true, true]];
    for i in (1..subsets.len()).rev() {
        let j = rng.below(i as u64 + 1) as usize;
        subsets.swap(i, j);
    }
    let count = (n / 10).clamp(2, 6);
    for (si, enabled) in subsets.into_iter().take(count).enumerate() {
        let via_env = si % 2 == 1;
        let decoy = si % 3 == 0;
        let store = rng.pick(&["periodic", "adaptive", "probabilistic"]);
        let opts = vec![("--store".to_string(), store.to_string()), ("--log-level".to_string(), rng.pick(&["error", "info", "debug"]).to_string())];
        let Some((mut child, ports, launch)) = launch_custom(bin, enabled, &opts, via_env, decoy && !via_env, out).await else { continue };
        out.bump("partial_transport_instances");
        let names: Vec<&str> = (0..3).filter(|i| enabled[*i]).map(|i| TRANSPORT_NAMES[i]).collect();
        let mut log = vec![format!("# {launch}"), format!("# enabled transports: {names:?}{}", if via_env { " (configured through THROTTLECRAB_* variables)" } else { "" })];
        let plist = [ports.http, ports.grpc, ports.resp];
        // the ports of the transports that are not enabled
        for i in 0..3 {
            if !enabled[i] {
                let r = TcpStream::connect(("127.0.0.1", plist[i])).await;
                log.push(format!("# connect to the configured {} port {} -> {}", TRANSPORT_NAMES[i], plist[i], match &r { Ok(_) => "accepted".to_string(), Err(e) => e.kind().to_string() }));
                if r.is_ok() {
                    out.violation("C09", format!("only {names:?} enabled, but the port configured for the {} transport accepts connections", TRANSPORT_NAMES[i]), log.clone());
                }
            }
        }
        // one bucket over the enabled protocols in turn
        let protos: Vec<Proto> = PERMS[0].into_iter().filter(|p| enabled[*p as usize]).collect();
        let b = rng.range(2, 5);
        let key = format!("part{si}_shared");
        let mut sent = [0u64; 3];
        let mut denied = 0u64;
        for i in 0..(b + 2) {
            let proto = protos[(i as usize + si) % protos.len()];
            let l = Logical { key: key.clone(), b, c: 1, p: 3600, q: Some(1) };
            let (a, _) = simple_request(&ports, rng, proto, &l).await;
            sent[proto as usize] += 1;
            log.push(format!("# request {} on key {key:?} (burst {b}) over {proto:?} -> {}", i + 1, a.show()));
            out.bump("partial_transport_requests");
            let (wa, wr) = (i < b, (b - 1 - i).max(0));
            if !wa {
                denied += 1;
            }
            if !matches!(a, WireAns::Ok(al, lim, rem, _, _) if al == wa && lim == b && rem == wr) {
                let prop = if matches!(a, WireAns::Ok(..)) { "C09" } else { "C11" };
                out.violation(prop, format!("instance with only {names:?} enabled: request {} on one bucket (burst {b}) over {proto:?} answered {}, want ok,{},{b},{wr},_,_", i + 1, a.show(), wa as u8), log.clone());
            }
        }
        if enabled[0] {
            match crate::feat::scrape_counters(ports.http).await {
                Some(c) => {
                    log.push(format!("# GET /metrics: total {} http {} grpc {} redis {} allowed {} denied {} errors {}", c[0], c[1], c[2], c[3], c[4], c[5], c[6]));
                    if [c[1], c[2], c[3]] != sent || c[5] != denied || c[0] != c[1] + c[2] + c[3] || c[0] != c[4] + c[5] + c[6] {
                        out.violation("C15", format!("instance with only {names:?} enabled: /metrics shows http {} grpc {} redis {} denied {}, the clients sent {} / {} / {} requests and were denied {denied} times (a transport that is not enabled counts nothing)", c[1], c[2], c[3], c[5], sent[0], sent[1], sent[2]), log.clone());
                    }
                }
                None => out.violation("C15", format!("instance with only {names:?} enabled: GET /metrics failed"), log.clone()),
            }
        }
        for i in 0..3 {
            if !enabled[i] && TcpStream::connect(("127.0.0.1", plist[i])).await.is_ok() {
                out.violation("C09", format!("only {names:?} enabled, but after some traffic the port configured for the {} transport accepts connections", TRANSPORT_NAMES[i]), log.clone());
            }
        }
        if let Some(st) = child.exited() {
            out.violation("C11", format!("instance with only {names:?} enabled ended by itself ({st})"), log.clone());
            continue;
        }
        let rep = graceful_shutdown(child, ports, enabled, rng.fork(), format!("part{si}"), launch).await;
        merge_shutdown(rep, out);
    }
}

/// GET /metrics: (counters, top_denied_keys samples as (key, value))
async fn scrape_full(ports: &Ports) -> Option<([u64; 7], Vec<(String, String)>, u64)> {
    match http_raw(ports.http, b"GET /metrics HTTP/1.1\r\nHost: x\r\nConnection: close\r\n\r\n").await {
        Ok((200, text)) => {
            let mentions = text.split('\n').filter(|l| l.contains("throttlecrab_top_denied_keys")).count() as u64;
            Some((crate::feat::parse_counters(&text)?, top_denied_lines(&text), mentions))
        }
        _ => None,
    }
}

/// (g3) `--max-denied-keys 5000 / 10000`: /metrics scraped again and again within a few milliseconds, traffic (denials
/// included) in between: every scrape shows everything that was answered before it (C15) and lists every key denied so
/// far with its count (C16).  (g4) `--store-capacity 4 / 0` with `--max-denied-keys 50`: 12 distinct keys denied, all 12
/// are listed - the report has nothing to do with the store's capacity (C16).  (g5) `--max-denied-keys 0`: keys are
/// keys all the same - two fresh keys with burst 1 are both admitted over HTTP and found exhausted over RESP / gRPC.
/// Every other instance is configured through the environment; each ends with a SIGTERM under load.
async fn special_instances(bin: &str, rng: &mut Rng, out: &mut Out) {
    let o = |pairs: &[(&str, String)]| -> Vec<(String, String)> { pairs.iter().map(|(a, b)| (a.to_string(), b.clone())).collect() };
    // (what, options, via_env)
    let specs: Vec<(&str, Vec<(String, String)>, bool)> = vec![
        ("fresh-scrapes", o(&[("--max-denied-keys", "5000".into()), ("--log-level", "error".into())]), false),
        ("fresh-scrapes", o(&[("--max-denied-keys", "10000".into()), ("--store", "adaptive".into())]), true),
        ("tracker-vs-capacity", o(&[("--store-capacity", "4".into()), ("--max-denied-keys", "50".into())]), true),
        ("tracker-vs-capacity", o(&[("--store-capacity", "0".into()), ("--max-denied-keys", "50".into()), ("--store", rng.pick(&["probabilistic", "adaptive"]).to_string())]), false),
        ("no-tracking", o(&[("--max-denied-keys", "0".into())]), rng.chance(1, 2)),
    ];
    for (si, (what, opts, via_env)) in specs.into_iter().enumerate() {
        let Some((mut child, ports, launch)) = launch_custom(bin, [true, true, true], &opts, via_env, false, out).await else { continue };
        out.bump(&format!("special_instances_{}", what.replace('-', "_")));
        let mut log = vec![format!("# {launch}")];
        let mut sent = [0u64; 3];
        let mut denied_total = 0u64;
        let mut denied_keys: BTreeMap<String, u64> = BTreeMap::new();
        let mut step = 0usize;
        // one request; the tally follows what the client is told
        macro_rules! req {
            ($key:expr, $b:expr, $proto:expr) => {{
                let l = Logical { key: $key.clone(), b: $b, c: 1, p: 3600, q: Some(1) };
                let (a, st) = simple_request(&ports, rng, $proto, &l).await;
                let counted = match $proto {
                    Proto::Http => st == 200 || st == 500,
                    _ => !matches!(a, WireAns::Broken(_)),
                };
                if counted {
                    sent[$proto as usize] += 1;
                }
                if let WireAns::Ok(false, ..) = a {
                    denied_total += 1;
                    *denied_keys.entry($key.clone()).or_insert(0) += 1;
                }
                log.push(format!("# {:?} key {:?} burst {} -> {}", $proto, $key, $b, a.show()));
                step += 1;
                a
            }};
        }
        match what {
            "fresh-scrapes" => {
                let mut last_scrape = Instant::now();
                for round in 0..4usize {
                    // two keys denied (once and twice), a few requests allowed, over all protocols
                    for k in 0..2usize {
                        let key = format!("fresh{si}_{round}_{k} \"é\"");
                        for j in 0..(2 + k) {
                            let proto = PERMS[0][(round + k + j) % 3];
                            let a = req!(key, 1i64, proto);
                            let good = if j == 0 { matches!(a, WireAns::Ok(true, 1, 0, ..)) } else { matches!(a, WireAns::Ok(false, 1, 0, ..)) };
                            if !good {
                                out.violation("C09", format!("request {} on fresh key {key:?} (burst 1) answered {}", j + 1, a.show()), log.clone());
                            }
                        }
                    }
                    for j in 0..rng.range(1, 4) as usize {
                        let key = format!("fresh{si}_{round}_free");
                        let _ = req!(key, 1000i64, PERMS[0][(round + j) % 3]);
                    }
                    let gap = last_scrape.elapsed().as_millis();
                    let Some((c, top, _)) = scrape_full(&ports).await else {
                        out.violation("C15", "GET /metrics failed".into(), log.clone());
                        break;
                    };
                    last_scrape = Instant::now();
                    log.push(format!("# GET /metrics {gap} ms after the scrape before it: total {} http {} grpc {} redis {} allowed {} denied {} errors {}; {} top_denied_keys samples", c[0], c[1], c[2], c[3], c[4], c[5], c[6], top.len()));
                    out.bump("fresh_scrapes");
                    out.add("ms_between_fresh_scrapes", gap as u64);
                    if [c[1], c[2], c[3]] != sent || c[5] != denied_total || c[0] != c[1] + c[2] + c[3] || c[0] != c[4] + c[5] + c[6] {
                        out.violation("C15", format!("GET /metrics {gap} ms after the scrape before it shows http {} grpc {} redis {} denied {} (total {}), but {} / {} / {} requests had been answered by then, {denied_total} of them denied: every scrape reflects everything answered before it", c[1], c[2], c[3], c[5], c[0], sent[0], sent[1], sent[2]), log.clone());
                        break;
                    }
                    let mut got = top.clone();
                    let mut want: Vec<(String, String)> = denied_keys.iter().map(|(k, n)| (k.clone(), n.to_string())).collect();
                    got.sort();
                    want.sort();
                    if got != want {
                        out.violation("C16", format!("GET /metrics {gap} ms after the scrape before it lists {} denied keys {:?}, the clients were denied on {} keys so far: {:?}", got.len(), got.iter().take(12).collect::<Vec<_>>(), want.len(), want.iter().take(12).collect::<Vec<_>>()), log.clone());
                        break;
                    }
                }
            }
            "tracker-vs-capacity" => {
                for k in 0..12usize {
                    let key = format!("cap{si}_key{k}");
                    for j in 0..2usize {
                        let a = req!(key, 1i64, PERMS[0][(k + j) % 3]);
                        let good = if j == 0 { matches!(a, WireAns::Ok(true, 1, 0, ..)) } else { matches!(a, WireAns::Ok(false, 1, 0, ..)) };
                        if !good {
                            out.violation("C09", format!("request {} on fresh key {key:?} (burst 1) answered {} - a small --store-capacity is a sizing hint, not a limit", j + 1, a.show()), log.clone());
                        }
                    }
                }
                match scrape_full(&ports).await {
                    Some((c, top, _)) => {
                        log.push(format!("# GET /metrics: total {} denied {}; top_denied_keys: {:?}", c[0], c[5], top));
                        let mut got = top.clone();
                        let mut want: Vec<(String, String)> = denied_keys.iter().map(|(k, n)| (k.clone(), n.to_string())).collect();
                        got.sort();
                        want.sort();
                        if got != want {
                            out.violation("C16", format!("--max-denied-keys 50 and 12 distinct keys denied once each: /metrics lists {} of them ({:?}) - the report is bounded by --max-denied-keys, not by the store's capacity", got.len(), got.iter().take(12).collect::<Vec<_>>()), log.clone());
                        }
                        if [c[1], c[2], c[3]] != sent || c[5] != denied_total {
                            out.violation("C15", format!("/metrics shows http {} grpc {} redis {} denied {}, the clients got {} / {} / {} answers, {denied_total} of them denials", c[1], c[2], c[3], c[5], sent[0], sent[1], sent[2]), log.clone());
                        }
                    }
                    None => out.violation("C15", "GET /metrics failed".into(), log.clone()),
                }
            }
            _ => {
                // keys are keys with the denied-key tracking switched off
                let keys = [format!("nt{si}_a"), format!("nt{si}_b"), String::new()];
                for (k, key) in keys.iter().enumerate() {
                    let a = req!(key, 1i64, Proto::Http);
                    if !matches!(a, WireAns::Ok(true, 1, 0, ..)) {
                        out.violation("C12", format!("--max-denied-keys 0: the first HTTP request on fresh key {key:?} (burst 1; the {} fresh key in a row) answered {}, want ok,1,1,0,_,_ as on RESP and gRPC - every key has a budget of its own", ["first", "second", "third"][k], a.show()), log.clone());
                    }
                }
                for (k, key) in keys.iter().enumerate() {
                    for proto in [PERMS[0][1 + k % 2], Proto::Http] {
                        let a = req!(key, 1i64, proto);
                        if !matches!(a, WireAns::Ok(false, 1, 0, ..)) {
                            out.violation("C09", format!("--max-denied-keys 0: key {key:?} (burst 1) was used up over HTTP, a request over {proto:?} answered {}, want ok,0,1,0,_,_", a.show()), log.clone());
                        }
                    }
                }
                match scrape_full(&ports).await {
                    Some((c, _, mentions)) => {
                        if mentions != 0 || [c[1], c[2], c[3]] != sent || c[5] != denied_total {
                            out.violation("C15", format!("--max-denied-keys 0: /metrics has {mentions} lines about top_denied_keys (want none), http {} grpc {} redis {} denied {}; the clients got {} / {} / {} answers, {denied_total} denials", c[1], c[2], c[3], c[5], sent[0], sent[1], sent[2]), log.clone());
                        }
                    }
                    None => out.violation("C15", "GET /metrics failed".into(), log.clone()),
                }
            }
        }
        out.add("special_instance_requests", step as u64);
        if let Some(st) = child.exited() {
            out.violation("C11", format!("the server process ended by itself ({st})"), log.clone());
            continue;
        }
        let rep = graceful_shutdown(child, ports, [true, true, true], rng.fork(), format!("spec{si}"), launch).await;
        merge_shutdown(rep, out);
    }
}

/// everything of (g), run NEXT TO the ordinary instances: its own processes, its own output (merged at the end)
async fn lifecycle(bin: String, n: usize, mut rng: Rng) -> Out {
    let mut out = Out::default();
    let t_g = Instant::now();
    let tasks = store_tunings(&bin, &mut rng, &mut out).await;
    partial_transports(&bin, n, &mut rng, &mut out).await;
    out.add("ms_partial_transports", t_g.elapsed().as_millis() as u64);
    let t_s = Instant::now();
    special_instances(&bin, &mut rng, &mut out).await;
    out.add("ms_special_instances", t_s.elapsed().as_millis() as u64);
    let mut results = vec![];
    for t in tasks {
        if let Ok(r) = t.await {
            results.push(r);
        }
    }
    judge_store_tunings(results, &mut out);
    out.add("ms_lifecycle", t_g.elapsed().as_millis() as u64);
    out
}

/// one step of the store-tuning script: what was sent and what came back
#[derive(Clone, Debug)]
struct ScriptStep {
    what: String,
    ans: WireAns,
    /// judged against the reference instance (false: depends on sub-second timing that was not met)
    compare: bool,
}

/// The same request sequence for every store configuration (g2): slow buckets with quantities 0..5, a bucket of 1 token
/// per second that refills during a pause of 2.6 s, 40 short-lived keys that expire during the pause (so that the
/// clean-up of a store tuned to sweep every second / every operation has something to remove) and are used again.
async fn store_script(ports: Ports, mut rng: Rng, tag: String) -> Vec<ScriptStep> {
    let mut steps: Vec<ScriptStep> = vec![];
    let mut conn: Option<RespConn> = None;
    let mut i = 0usize;
    // (protocols in rotation; RESP on one kept connection)
    let mut send = async |l: Logical, steps: &mut Vec<ScriptStep>, compare: bool, rng: &mut Rng| {
        let proto = PERMS[0][i % 3];
        i += 1;
        let a = match proto {
            Proto::Resp => {
                if conn.is_none() {
                    conn = RespConn::open(ports.resp).await.ok();
                }
                match conn.as_mut() {
                    Some(c) => resp_answer(c.call(&resp_command(rng, &l)).await),
                    None => WireAns::Broken("connect failed".into()),
                }
            }
            p => simple_request(&ports, rng, p, &l).await.0,
        };
        steps.push(ScriptStep { what: format!("{proto:?} {}", describe(&l)), ans: a, compare });
    };
    let ka = format!("{tag}_slow");
    let kq = format!("{tag}_quantities");
    let ke = format!("{tag}_per_second");
    for _ in 0..5 {
        send(Logical { key: ka.clone(), b: 3, c: 1, p: 3600, q: Some(1) }, &mut steps, true, &mut rng).await;
    }
    for q in [3i64, 0, 4, 5, 3, 1] {
        send(Logical { key: kq.clone(), b: 10, c: 2, p: 3600, q: Some(q) }, &mut steps, true, &mut rng).await;
    }
    let t0 = Instant::now();
    let at = steps.len();
    for _ in 0..3 {
        send(Logical { key: ke.clone(), b: 2, c: 1, p: 1, q: Some(1) }, &mut steps, true, &mut rng).await;
    }
    if t0.elapsed() > Duration::from_millis(600) {
        // too slow for "two tokens, the third request within the same second"
        for s in &mut steps[at..] {
            s.compare = false;
        }
    }
    let t1 = Instant::now();
    let at = steps.len();
    for f in 0..40 {
        send(Logical { key: format!("{tag}_short_lived_{f}"), b: 1, c: 1, p: 1, q: Some(1) }, &mut steps, true, &mut rng).await;
    }
    let fill_ms = t1.elapsed().as_millis();
    let _ = at;
    tokio::time::sleep(Duration::from_millis(2600)).await;
    // after the pause: everything that refills within a second is full again, the slow buckets are where they were
    send(Logical { key: ke.clone(), b: 2, c: 1, p: 1, q: Some(1) }, &mut steps, true, &mut rng).await;
    for f in 0..40 {
        send(Logical { key: format!("{tag}_short_lived_{f}"), b: 1, c: 1, p: 1, q: Some(1) }, &mut steps, fill_ms < 1500, &mut rng).await;
    }
    send(Logical { key: ka.clone(), b: 3, c: 1, p: 3600, q: Some(1) }, &mut steps, true, &mut rng).await;
    send(Logical { key: kq.clone(), b: 10, c: 2, p: 3600, q: Some(1) }, &mut steps, true, &mut rng).await;
    send(Logical { key: format!("{tag}_new_after_the_pause"), b: 2, c: 1, p: 3600, q: Some(1) }, &mut steps, true, &mut rng).await;
    steps
}

/// (g2) every store type with non-default tuning flags, small values included, on the command line or through the
/// environment: the decisions are those of the default configuration for the same request sequence
async fn store_tunings(bin: &str, rng: &mut Rng, out: &mut Out) -> Vec<tokio::task::JoinHandle<(String, Vec<ScriptStep>, Option<ShutdownReport>)>> {
    let o = |pairs: &[(&str, &str)]| -> Vec<(String, String)> { pairs.iter().map(|(a, b)| (a.to_string(), b.to_string())).collect() };
    let cap_small = rng.pick(&["1", "2", "16"]);
    let configs: Vec<(Vec<(String, String)>, bool)> = vec![
        (vec![], false), // the reference: every default
        (o(&[("--store", "periodic"), ("--store-cleanup-interval", "1"), ("--store-capacity", cap_small)]), false),
        (o(&[("--store", "periodic"), ("--store-cleanup-interval", "2"), ("--store-capacity", "1000")]), true),
        (o(&[("--store", "adaptive"), ("--store-min-interval", "1"), ("--store-max-interval", "1"), ("--store-max-operations", "1"), ("--store-capacity", cap_small)]), false),
        (o(&[("--store", "adaptive"), ("--store-min-interval", "1"), ("--store-max-interval", "2"), ("--store-max-operations", "2")]), true),
        (o(&[("--store", "probabilistic"), ("--store-cleanup-probability", "1"), ("--store-capacity", cap_small)]), false),
        (o(&[("--store", "probabilistic"), ("--store-cleanup-probability", "2")]), true),
        (o(&[("--store", "probabilistic"), ("--store-cleanup-probability", "3"), ("--store-capacity", "1"), ("--buffer-size", "1")]), false),
        (o(&[("--store", "adaptive"), ("--store-max-operations", "3"), ("--buffer-size", "2"), ("--max-denied-keys", "1")]), true),
    ];
    let mut tasks = vec![];
    for (ci, (opts, via_env)) in configs.into_iter().enumerate() {
        let Some((child, ports, launch)) = launch_custom(bin, [true, true, true], &opts, via_env, false, out).await else { continue };
        out.bump("store_tuning_instances");
        let r = rng.fork();
        let r2 = rng.fork();
        tasks.push(tokio::spawn(async move {
            let mut child = child;
            let steps = store_script(ports, r, "tune".to_string()).await;
            let rep = if child.exited().is_none() { Some(graceful_shutdown(child, ports, [true, true, true], r2, format!("tune{ci}"), launch.clone()).await) } else { None };
            (launch, steps, rep)
        }));
    }
    tasks
}

fn judge_store_tunings(results: Vec<(String, Vec<ScriptStep>, Option<ShutdownReport>)>, out: &mut Out) {
    let mut reference: Option<(String, Vec<ScriptStep>)> = None;
    for (launch, steps, rep) in results {
        match rep {
            Some(rep) => merge_shutdown(rep, out),
            None => out.violation("C11", "the server process ended by itself during the store-tuning script".into(), vec![format!("# {launch}")]),
        }
        out.add("store_tuning_requests", steps.len() as u64);
        let transcript = |steps: &[ScriptStep], upto: usize| -> Vec<String> { steps[..=upto.min(steps.len() - 1)].iter().enumerate().map(|(i, s)| format!("# [{}] {} -> {}", i + 1, s.what, s.ans.show())).collect() };
        match &reference {
            None => {
                // the reference itself: what does not depend on the store at all
                for (i, s) in steps.iter().enumerate() {
                    let want: Option<(bool, i64, i64)> = match i {
                        0..=2 => Some((true, 3, 2 - i as i64)),
                        3 | 4 => Some((false, 3, 0)),
                        11 | 12 => Some((true, 2, 12 - i as i64)),
                        13 => Some((false, 2, 0)),
                        14..=53 => Some((true, 1, 0)),
                        54 => Some((true, 2, 1)),
                        55..=94 => Some((true, 1, 0)),
                        95 => Some((false, 3, 0)),
                        97 => Some((true, 2, 1)),
                        _ => None,
                    };
                    if let (Some((a, l, r)), true) = (want, s.compare) {
                        if !matches!(&s.ans, WireAns::Ok(al, lim, rem, _, _) if (*al, *lim, *rem) == (a, l, r)) {
                            let mut t = vec![format!("# {launch}")];
                            t.extend(transcript(&steps, i));
                            out.violation("C09", format!("default configuration, step {} of the store script ({}): answered {}, want ok,{},{l},{r},_,_", i + 1, s.what, s.ans.show(), a as u8), t);
                            break;
                        }
                    }
                }
                reference = Some((launch, steps));
            }
            Some((ref_launch, ref_steps)) => {
                for (i, (s, r)) in steps.iter().zip(ref_steps.iter()).enumerate() {
                    if !(s.compare && r.compare) {
                        out.bump("store_tuning_steps_not_compared_timing");
                        continue;
                    }
                    let same = match (&s.ans, &r.ans) {
                        (WireAns::Ok(a1, l1, r1, rs1, rt1), WireAns::Ok(a2, l2, r2, rs2, rt2)) => (a1, l1, r1) == (a2, l2, r2) && (rs1 - rs2).abs() <= 1 && (rt1 - rt2).abs() <= 1,
                        (WireAns::Err(_), WireAns::Err(_)) => true,
                        _ => false,
                    };
                    if !same {
                        let mut t = vec![format!("# {launch}"), format!("# reference: {ref_launch}")];
                        t.extend(transcript(&steps, i));
                        t.push(format!("# reference, step {}: {} -> {}", i + 1, r.what, r.ans.show()));
                        out.violation("C09", format!("step {} of the same request sequence ({}): this store configuration answers {}, the default configuration {} - the stores and their tuning must not change a decision", i + 1, s.what, s.ans.show(), r.ans.show()), t);
                        break;
                    }
                }
            }
        }
    }
}

async fn instance(inst: usize, bin: &str, plan: &Plan, with_slow_reader: bool, n: usize, rng: &mut Rng, out: &mut Out) {
    let Plan { store, buffer, max_denied, log_level } = plan.clone();
    let descr = format!("instance {inst} store {store} buffer-size {buffer} max-denied-keys {max_denied} log-level {log_level}");
    let (buffer_s, max_denied_s) = (buffer.to_string(), max_denied.to_string());
    let Some((mut child, ports, launch)) = launch(bin, &["--store", store, "--buffer-size", &buffer_s, "--max-denied-keys", &max_denied_s, "--log-level", log_level], out).await else {
        return;
    };
    out.bump("instances");
    out.bump(&format!("store_{store}"));
    out.bump(&format!("log_level_{log_level}"));
    out.sample(format!("launched: {launch}"));
    let mut cx = Cx { ports, rng: rng.fork(), tally: Tally::default(), log: vec![], resp_conn: None, launch, denied_keys: BTreeMap::new() };
    let t0 = Instant::now();
    let mut phase_t = Instant::now();
    let mut phase = |out: &mut Out, name: &str| {
        out.add(&format!("ms_{name}"), phase_t.elapsed().as_millis() as u64);
        phase_t = Instant::now();
    };

    shared_limiter(&mut cx, inst, out).await;
    key_families(&mut cx, inst, out).await;
    documented_schema(&mut cx, inst, out).await;
    same_answers(&mut cx, inst, out).await;
    phase(out, "shared_limiter_families_same_answers");
    large_requests(&mut cx, inst, out).await;
    if with_slow_reader {
        slow_reader(&mut cx, inst, out).await;
    }
    phase(out, "large_requests_slow_reader");
    protocol_features(&mut cx, inst, n, out).await;
    phase(out, "protocol_features");
    freeze(&mut cx, inst, &mut child, out).await;
    phase(out, "freeze");
    no_poison(&mut cx, inst, max_denied, log_level == "debug" || log_level == "trace", n, &mut child, out).await;
    phase(out, "no_poison");
    if child.exited().is_none() {
        stalled_clients(&mut cx, inst, &mut child, out).await;
        phase(out, "stalled_clients");
        check_metrics(&mut cx, inst, max_denied, out).await;
        abandoned_requests(&mut cx, inst, n, out).await;
        phase(out, "metrics_abandoned");
    }
    if let Some(st) = child.exited() {
        out.violation("C11", format!("the server process ended by itself ({st})"), cx.tail(cx.log.len().saturating_sub(20)));
    }
    out.add("ms_instances", t0.elapsed().as_millis() as u64);

    let t = &cx.tally;
    out.add("requests_http", t.sent_http);
    out.add("requests_grpc", t.sent_grpc);
    out.add("requests_resp", t.sent_resp);
    out.add("answers_allowed", t.ans_allowed);
    out.add("answers_denied", t.ans_denied);
    out.add("answers_error", t.ans_error);
    out.add("answers_none", t.ans_none);
    let note = format!("note binary {descr} requests http {} grpc {} resp {}", t.sent_http, t.sent_grpc, t.sent_resp);
    out.note_case(&note);
    out.line(note.clone(), note);
    // `child` dropped here: kill + wait
}

/// ONE extra instance against a DEBUG build of the server (`$TCV_SERVER_BIN_DEBUG`; default log level, periodic store):
/// the nested-frame traffic and the probes only.  What a nesting level costs on the stack depends on the build; the
/// other checks run the release binary.
async fn debug_instance(bin: &str, rng: &mut Rng, out: &mut Out) {
    let Some((mut child, ports, launch)) = launch(bin, &["--store", "periodic"], out).await else {
        return;
    };
    out.bump("debug_build_instances");
    let mut cx = Cx { ports, rng: rng.fork(), tally: Tally::default(), log: vec![], resp_conn: None, launch, denied_keys: BTreeMap::new() };
    let inst = 900;
    if nested_frames(&mut cx, &mut child, out).await {
        probes(&mut cx, inst, 0, &mut child, out).await;
        expect_counters(&mut cx, "debug build, after the nested frames and the probes", 0, out).await;
    }
    let t = &cx.tally;
    let note = format!("note binary debug-build instance store periodic log-level default requests http {} grpc {} resp {}", t.sent_http, t.sent_grpc, t.sent_resp);
    out.line(note.clone(), note);
}

pub fn run(seed: u64, n: usize, out: &mut Out) {
    let bin = match std::env::var("TCV_SERVER_BIN") {
        Ok(b) if std::path::Path::new(&b).is_file() => b,
        other => {
            out.violation("C09", format!("server binary not available (TCV_SERVER_BIN = {:?})", other.ok()), vec![]);
            return;
        }
    };
    let rt = tokio::runtime::Builder::new_multi_thread().worker_threads(4).enable_all().build().unwrap();
    let mut rng = Rng::new(seed);
    let instances = (n / 10).clamp(1, 12);
    let plans = plan_instances(&mut rng, instances);
    // the slow reader (12 .. 16 MB through one RESP connection) runs on one instance, two with 6 instances or more
    let slow_at = [rng.below(instances as u64) as usize, if instances >= 6 { rng.below(instances as u64) as usize } else { usize::MAX }];
    rt.block_on(async {
        // (g) lifecycle and configuration: other processes, next to the ordinary instances
        let lc = tokio::spawn(lifecycle(bin.clone(), n, rng.fork()));
        for (inst, plan) in plans.iter().enumerate() {
            instance(inst, &bin, plan, slow_at.contains(&inst), n, &mut rng, out).await;
        }
        let t_wait = Instant::now();
        match lc.await {
            Ok(lo) => {
                for (p, w, r) in lo.viol {
                    out.violation(&p, w, r);
                }
                for (k, v) in lo.stats {
                    if !k.starts_with("violations_") {
                        out.add(&k, v);
                    }
                }
            }
            Err(e) => out.violation("C11", format!("the lifecycle checks of mode binary failed: {e}"), vec![]),
        }
        out.add("ms_waiting_for_lifecycle", t_wait.elapsed().as_millis() as u64);
        if let Ok(dbg) = std::env::var("TCV_SERVER_BIN_DEBUG") {
            if std::path::Path::new(&dbg).is_file() {
                debug_instance(&dbg, &mut rng, out).await;
            }
        }
        out.add("grpc_calls_with_the_documented_schema", crate::wire::GRPC_DOC_CALLS.load(std::sync::atomic::Ordering::Relaxed));
    });
    rt.shutdown_background();
}
