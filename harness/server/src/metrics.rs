// mode `metrics`: counters (C15) and the denied-keys table / exporter (C16).
//
// lines:
//   mrun <ev> <ev> ...                      -> total http grpc redis allowed denied errors
//        ev = h1|h0|g1|g0|r1|r0 (record_request http/grpc/redis allowed 1/0) | he|ge|re (record_error)
//   mtab                                    -> fixed answer (the code's structure, see below)
//   tstep <max> <before> <keyhex|-> <after> -> ok        tables: hex:count,hex:count sorted by key, `-` = empty table;
//                                                       the empty KEY inside a table has empty hex (`:3`)
//   treport <max> <table> <report>          -> ok        report in export order
//   tclamp <n>                              -> <report length after min(n,20000)+5 distinct keys> <enabled|disabled>
//   esc <hex|->                             -> hex of the escaped label
use crate::cmd::counters;
use crate::util::*;
use crate::val::hx;
use std::collections::BTreeMap;
use std::panic::{catch_unwind, AssertUnwindSafe};
use std::sync::{Arc, Barrier};
use throttlecrab_server::metrics::{Metrics, Transport};

pub fn apply_event(m: &Metrics, ev: &str) -> bool {
    match ev {
        "h1" => m.record_request(Transport::Http, true),
        "h0" => m.record_request(Transport::Http, false),
        "g1" => m.record_request(Transport::Grpc, true),
        "g0" => m.record_request(Transport::Grpc, false),
        "r1" => m.record_request(Transport::Redis, true),
        "r0" => m.record_request(Transport::Redis, false),
        "he" => m.record_error(Transport::Http),
        "ge" => m.record_error(Transport::Grpc),
        "re" => m.record_error(Transport::Redis),
        _ => return false,
    }
    true
}

pub const EVENTS: [&str; 9] = ["h1", "h0", "g1", "g0", "r1", "r0", "he", "ge", "re"];

pub fn mrun_answer(evs: &[&str]) -> String {
    let m = Metrics::builder().max_denied_keys(0).build();
    for e in evs {
        apply_event(&m, e);
    }
    let c = counters(&m);
    format!("{} {} {} {} {} {} {}", c.total, c.http, c.grpc, c.redis, c.allowed, c.denied, c.errors)
}

pub fn table_text(t: &[(String, u64)]) -> String {
    if t.is_empty() {
        return "-".into();
    }
    let mut v: Vec<(&[u8], u64)> = t.iter().map(|(k, c)| (k.as_bytes(), *c)).collect();
    v.sort();
    v.iter().map(|(k, c)| format!("{}:{c}", crate::util::hex(k))).collect::<Vec<_>>().join(",")
}

pub fn report_text(t: &[(String, u64)]) -> String {
    if t.is_empty() {
        return "-".into();
    }
    t.iter().map(|(k, c)| format!("{}:{c}", crate::util::hex(k.as_bytes()))).collect::<Vec<_>>().join(",")
}

pub fn esc_answer(key: &str) -> String {
    hx(Metrics::verif_escape_label(key).as_bytes())
}

/// the documented cap of the denied-keys report ("non-zero values are capped at 10,000")
pub const DOCUMENTED_TRACKER_CAP: usize = 10_000;
/// requested tracker sizes of the `tclamp` lines
pub const TCLAMP_SIZES: [usize; 21] = [
    0,
    1,
    2,
    3,
    10,
    100,
    300,
    9999,
    10_000,
    10_001,
    20_000,
    1 << 31,
    (1 << 32) - 1,
    1 << 32,
    (1 << 32) + 1,
    (1 << 32) + 7,
    (1 << 32) + 9999,
    1 << 33,
    1 << 40,
    (1 << 63) + 5,
    usize::MAX,
];

pub fn tclamp_answer(n: usize) -> String {
    let r = catch_unwind(AssertUnwindSafe(|| {
        let m = Metrics::builder().max_denied_keys(n).build();
        let enabled = m.verif_denied_table().is_some();
        let k = n.min(20000) + 5;
        for i in 0..k {
            m.record_request_with_key(Transport::Http, false, &format!("c{i}"));
        }
        let len = m.verif_top_denied().map(|r| r.len()).unwrap_or(0);
        format!("{len} {}", if enabled { "enabled" } else { "disabled" })
    }));
    r.unwrap_or_else(|_| "panic".into())
}

// ----------------------------------------------------------------------------------------
// exporter lexer
// ----------------------------------------------------------------------------------------
#[derive(Debug)]
pub struct Sample {
    pub name: String,
    pub labels: Vec<(String, String)>, // raw (still escaped) label values
    pub value: String,
}

/// `name{l="v",l2="v2"} value` | `name value`; label values end at the first unescaped quote
pub fn lex_sample(line: &str) -> Result<Sample, String> {
    let cs: Vec<char> = line.chars().collect();
    let mut i = 0;
    let is_name = |c: char| c.is_ascii_alphanumeric() || c == '_' || c == ':';
    while i < cs.len() && is_name(cs[i]) {
        i += 1;
    }
    if i == 0 {
        return Err("no metric name".into());
    }
    let name: String = cs[..i].iter().collect();
    let mut labels = vec![];
    if i < cs.len() && cs[i] == '{' {
        i += 1;
        loop {
            let s = i;
            while i < cs.len() && is_name(cs[i]) {
                i += 1;
            }
            if i == s {
                return Err(format!("label name expected at column {i}"));
            }
            let lname: String = cs[s..i].iter().collect();
            if cs.get(i) != Some(&'=') || cs.get(i + 1) != Some(&'"') {
                return Err(format!("=\" expected at column {i}"));
            }
            i += 2;
            let vs = i;
            loop {
                match cs.get(i) {
                    None => return Err("unterminated label value".into()),
                    Some('\\') => {
                        if i + 1 >= cs.len() {
                            return Err("dangling backslash".into());
                        }
                        i += 2;
                    }
                    Some('"') => break,
                    Some(_) => i += 1,
                }
            }
            labels.push((lname, cs[vs..i].iter().collect()));
            i += 1;
            match cs.get(i) {
                Some(',') => i += 1,
                Some('}') => {
                    i += 1;
                    break;
                }
                _ => return Err(format!("',' or '}}' expected at column {i}")),
            }
        }
    }
    if cs.get(i) != Some(&' ') {
        return Err(format!("space before the value expected at column {i}"));
    }
    let value: String = cs[i + 1..].iter().collect();
    if value.is_empty() || value.parse::<f64>().is_err() {
        return Err(format!("value '{value}' is not a number"));
    }
    Ok(Sample { name, labels, value })
}

/// undo the exporter's label escaping (`\\ \" \n \r \t \xNN`); None when the text is not a sequence of
/// complete escapes (a lone trailing backslash, a cut `\xN`, an unknown escape letter)
pub fn unescape_label_strict(s: &str) -> Option<String> {
    let cs: Vec<char> = s.chars().collect();
    let mut o = String::new();
    let mut i = 0;
    while i < cs.len() {
        if cs[i] == '\\' {
            i += 1;
            match cs.get(i)? {
                '\\' => o.push('\\'),
                '"' => o.push('"'),
                'n' => o.push('\n'),
                'r' => o.push('\r'),
                't' => o.push('\t'),
                'x' => {
                    let h: String = cs.get(i + 1..i + 3)?.iter().collect();
                    o.push(u8::from_str_radix(&h, 16).ok()? as char);
                    i += 2;
                }
                _ => return None,
            }
        } else {
            o.push(cs[i]);
        }
        i += 1;
    }
    Some(o)
}

/// lenient form used where a malformed label is reported by another check
pub fn unescape_label(s: &str) -> String {
    unescape_label_strict(s).unwrap_or_else(|| format!("<not a sequence of complete escapes: {}>", s.chars().take(80).collect::<String>()))
}

/// C16 oracle for one key: its escaped form is one label value that lexes inside a sample line and un-escapes
/// to the key itself
pub fn escape_roundtrip_problem(k: &str) -> Option<String> {
    let e = Metrics::verif_escape_label(k);
    if e.contains('\n') {
        return Some("the escaped label contains a raw newline".into());
    }
    let line = format!("throttlecrab_top_denied_keys{{key=\"{e}\",rank=\"1\"}} 1");
    match lex_sample(&line) {
        Ok(s) if s.labels.len() == 2 && s.labels[0].1 == e && s.labels[1] == ("rank".to_string(), "1".to_string()) => {}
        other => return Some(format!("the sample line built from the escaped label does not lex as key + rank: {}", format!("{other:?}").chars().take(160).collect::<String>())),
    }
    match unescape_label_strict(&e) {
        Some(u) if u == k => None,
        Some(u) => Some(format!("the escaped label ({} bytes) un-escapes to a different key ({} bytes instead of {})", e.len(), u.len(), k.len())),
        None => Some(format!("the escaped label ({} bytes) is not a sequence of complete escapes (ends {:?})", e.len(), e.chars().rev().take(6).collect::<Vec<_>>().into_iter().rev().collect::<String>())),
    }
}

/// Trackable keys (200..=256 bytes) that the exporter expands a lot - mostly `"` `\` newline CR TAB (2 bytes
/// escaped) and other control characters (`\xNN`, 4 bytes; escaped length up to 1024) - built so that a given
/// byte offset of the ESCAPED text (64 .. 1000, among them 255 256 257 511 512 513) falls INSIDE an escape
/// sequence, at every phase of it.  Fillers are seed-chosen.
pub fn escape_boundary_keys(rng: &mut Rng) -> Vec<String> {
    const C4: [char; 6] = ['\u{1}', '\u{0}', '\u{1f}', '\u{7f}', '\u{b}', '\u{1b}']; // 1 byte -> 4
    const C2: [char; 5] = ['"', '\\', '\n', '\r', '\t']; // 1 byte -> 2
    const C1: [char; 6] = ['a', 'k', ':', ' ', 'x', '7']; // 1 byte -> 1
    let mut keys = vec![];
    // (escape under test, bytes in the key, bytes escaped)
    let under_test: [(char, usize, usize); 5] = [('"', 1, 2), ('\\', 1, 2), ('\n', 1, 2), ('\u{1}', 1, 4), ('\u{85}', 2, 4)];
    for target in [64usize, 128, 255, 256, 257, 300, 511, 512, 513, 768, 1000] {
        for (ch, kb, el) in under_test {
            for phase in 1..el {
                // the escape starts at `start` in the escaped text: start < target < start + el
                let start = target - phase;
                let budget = 256 - kb; // key bytes available for the rest
                // prefix: n4 x 4 + n2 x 2 + n1 = start, n4 + n2 + n1 <= budget (leave room for a tail when possible)
                let max4 = start / 4;
                let fits = |n4: usize| {
                    let r = start - 4 * n4;
                    n4 + r.div_ceil(2) <= budget
                };
                let lo4 = (0..=max4).find(|&n4| fits(n4));
                let Some(lo4) = lo4 else { continue };
                let n4 = rng.range(lo4 as i64, max4 as i64) as usize;
                let r = start - 4 * n4;
                let lo2 = (n4 + r).saturating_sub(budget);
                let n2 = rng.range(lo2 as i64, (r / 2) as i64) as usize;
                let n1 = r - 2 * n2;
                let mut items: Vec<char> = vec![];
                items.extend((0..n4).map(|_| rng.pick(&C4)));
                items.extend((0..n2).map(|_| rng.pick(&C2)));
                items.extend((0..n1).map(|_| rng.pick(&C1)));
                for i in (1..items.len()).rev() {
                    let j = rng.below(i as u64 + 1) as usize;
                    items.swap(i, j);
                }
                let mut k: String = items.into_iter().collect();
                debug_assert_eq!(Metrics::verif_escape_label(&k).len(), start);
                k.push(ch);
                // tail: up to a total of 200..=256 bytes, again mostly characters that need escaping
                let total = (rng.range(200, 256) as usize).max(k.len());
                while k.len() < total {
                    let c = match rng.below(10) {
                        0..=3 => rng.pick(&C4),
                        4..=7 => rng.pick(&C2),
                        8 => rng.pick(&C1),
                        _ => 'é',
                    };
                    if k.len() + c.len_utf8() > total {
                        break;
                    }
                    k.push(c);
                }
                debug_assert!(k.len() <= 256);
                keys.push(k);
            }
        }
    }
    // keys made of ONE kind of escape, lengths around the limits
    for ch in ['"', '\\', '\n', '\u{1}', '\u{7f}'] {
        for len in [127usize, 128, 129, 200, 255, 256] {
            keys.push(ch.to_string().repeat(len));
            keys.push(format!("a{}", ch.to_string().repeat(len - 1)));
        }
    }
    keys
}

/// all well-formedness + value checks of one export; returns violation texts
pub fn check_export(m: &Metrics) -> Vec<(&'static str, String)> {
    let mut bad = vec![];
    let c0 = counters(m);
    let report = m.verif_top_denied();
    let text = m.export_prometheus();
    let mut top_lines: Vec<Sample> = vec![];
    let mut seen: BTreeMap<String, String> = BTreeMap::new();
    for line in text.split('\n') {
        if line.is_empty() || line.starts_with('#') {
            continue;
        }
        match lex_sample(line) {
            Err(e) => bad.push(("C16", format!("export line is not a well-formed sample ({e}): {:?}", &line[..line.len().min(120)]))),
            Ok(s) => {
                if s.name == "throttlecrab_top_denied_keys" {
                    top_lines.push(s);
                } else {
                    let k = if s.labels.is_empty() { s.name.clone() } else { format!("{}{{{}}}", s.name, s.labels[0].1) };
                    seen.insert(k, s.value);
                }
            }
        }
    }
    let want = [
        ("throttlecrab_requests_total", c0.total),
        ("throttlecrab_requests_by_transport{http}", c0.http),
        ("throttlecrab_requests_by_transport{grpc}", c0.grpc),
        ("throttlecrab_requests_by_transport{redis}", c0.redis),
        ("throttlecrab_requests_allowed", c0.allowed),
        ("throttlecrab_requests_denied", c0.denied),
        ("throttlecrab_requests_errors", c0.errors),
    ];
    for (k, v) in want {
        match seen.get(k) {
            Some(x) if *x == v.to_string() => {}
            other => bad.push(("C15", format!("export shows {k} = {other:?}, the counter is {v}"))),
        }
    }
    match report {
        None => {
            if !top_lines.is_empty() || text.contains("throttlecrab_top_denied_keys") {
                bad.push(("C16", "tracking disabled but top_denied_keys is exported".into()));
            }
        }
        Some(rep) => {
            if top_lines.len() != rep.len() {
                bad.push(("C16", format!("{} top_denied_keys sample lines for {} reported keys", top_lines.len(), rep.len())));
            } else {
                // the report is re-sorted at export time: compare as multisets of (escaped key, count), ranks 1..k
                let mut a: Vec<(String, String)> = rep.iter().map(|(k, c)| (Metrics::verif_escape_label(k), c.to_string())).collect();
                let mut b: Vec<(String, String)> = vec![];
                for (i, s) in top_lines.iter().enumerate() {
                    let key = s.labels.iter().find(|l| l.0 == "key").map(|l| l.1.clone());
                    let rank = s.labels.iter().find(|l| l.0 == "rank").map(|l| l.1.clone());
                    if s.labels.len() != 2 || key.is_none() || rank != Some((i + 1).to_string()) {
                        bad.push(("C16", format!("top_denied_keys line {} has labels {:?}", i + 1, s.labels)));
                    }
                    b.push((key.unwrap_or_default(), s.value.clone()));
                }
                a.sort();
                b.sort();
                if a != b {
                    bad.push(("C16", "exported (key,count) pairs differ from the report".into()));
                }
                // the exported label un-escapes to the reported key itself
                let mut want: Vec<(String, String)> = rep.iter().map(|(k, c)| (k.clone(), c.to_string())).collect();
                let mut got: Vec<(String, String)> = b.iter().map(|(k, c)| (unescape_label(k), c.clone())).collect();
                want.sort();
                got.sort();
                if want != got {
                    let firstbad = got.iter().zip(&want).find(|(g, w)| g != w).map(|(g, w)| format!("{:?} ({} bytes) for key {} ({} bytes)", g.0.chars().take(40).collect::<String>(), g.0.len(), hx(w.0.as_bytes()).chars().take(80).collect::<String>(), w.0.len()));
                    bad.push(("C16", format!("exported key labels do not un-escape to the reported keys, e.g. {firstbad:?}")));
                }
            }
        }
    }
    bad
}

// ----------------------------------------------------------------------------------------
pub fn special_keys() -> Vec<String> {
    let mut v: Vec<String> = vec![
        "".into(),
        "x".repeat(255),
        "x".repeat(256),
        "x".repeat(257),
        "é".repeat(128), // 256 bytes
        format!("{}a", "é".repeat(128)), // 257 bytes
        "\"".into(),
        "a\"b".into(),
        "\\".into(),
        "a\\".into(),
        "\\\"".into(),
        "a\",rank=\"0".into(),
        "a\"} 999\nthrottlecrab_requests_total 0".into(),
        "\n".into(),
        "\r".into(),
        "\r\n".into(),
        "\t".into(),
        "\u{7f}".into(),
        "é".into(),
        "日本語".into(),
        "\u{10348}".into(),
        "😀k".into(),
        "\u{2028}".into(),
        "\u{feff}".into(),
        "{}".into(),
        "k=v,".into(),
        " ".into(),
        "\\n".into(),
        "\\x41".into(),
    ];
    for c in 0u32..=0x9f {
        if c < 0x20 || c >= 0x7f {
            v.push(format!("c{}", char::from_u32(c).unwrap()));
        }
    }
    v
}

struct TopK<'a> {
    out: &'a mut Out,
}

impl TopK<'_> {
    /// feed `stream` into a fresh tracker of size `max`, emitting tstep/treport and judging C16
    fn run_stream(&mut self, max: usize, stream: &[String], name: &str) {
        let m = Metrics::builder().max_denied_keys(max).build();
        let mut truth: BTreeMap<String, u64> = BTreeMap::new();
        let mut replay: Vec<String> = vec![];
        let mut exact_so_far = true;
        for (i, key) in stream.iter().enumerate() {
            let before = m.verif_denied_table().unwrap_or_default();
            m.record_request_with_key(Transport::Redis, false, key);
            let after = m.verif_denied_table().unwrap_or_default();
            *truth.entry(key.clone()).or_insert(0) += 1;
            let line = format!("tstep {max} {} {} {}", table_text(&before), hx(key.as_bytes()), table_text(&after));
            if before.len() <= 400 && after.len() <= 400 {
                self.out.line(line.clone(), "ok".into());
                // a distinct non-trivial case = an update that evicts, or meets a key already tracked
                if after.len() < before.len() || before.iter().any(|(k, _)| k == key) {
                    self.out.note_case(&line);
                }
                if self.out.samples.len() < 4 && line.len() < 300 && after.len() >= 2 {
                    self.out.sample(line.clone());
                }
            }
            if replay.len() < 40 {
                replay.push(line.clone());
            }
            self.out.bump("topk_updates");
            // --- oracles
            if after.len() > 3 * max {
                self.out.violation("C16", format!("table holds {} keys, more than 3 x {max} ({name}, update {i})", after.len()), vec![line.clone()]);
            }
            for (k, c) in &after {
                let t = truth.get(k).copied().unwrap_or(0);
                if *c > t {
                    self.out.violation("C16", format!("key {} shown with {c} denials, it really had {t} ({name})", hx(k.as_bytes())), vec![line.clone()]);
                }
                if k.len() > 256 {
                    self.out.violation("C16", format!("a key of {} bytes is tracked ({name})", k.len()), vec![line.clone()]);
                }
            }
            let distinct_tracked = truth.keys().filter(|k| k.len() <= 256).count();
            if distinct_tracked > max {
                exact_so_far = false;
            }
            if exact_so_far {
                let want: Vec<(String, u64)> = truth.iter().filter(|(k, _)| k.len() <= 256).map(|(k, c)| (k.clone(), *c)).collect();
                if want != after {
                    self.out.violation("C16", format!("only {distinct_tracked} distinct keys (max {max}) but the table is not exact ({name})"), replay.clone());
                }
            }
            let rep = m.verif_top_denied().unwrap_or_default();
            if rep.len() > max {
                self.out.violation("C16", format!("report lists {} keys, max is {max} ({name})", rep.len()), vec![line.clone()]);
            }
            if rep.windows(2).any(|w| w[0].1 < w[1].1) {
                self.out.violation("C16", format!("report is not in non-increasing count order ({name})"), vec![line.clone()]);
            }
            if i % 20 == 19 || i + 1 == stream.len() {
                if after.len() <= 400 {
                    self.out.line(format!("treport {max} {} {}", table_text(&after), report_text(&rep)), "ok".into());
                }
                for (p, what) in check_export(&m) {
                    self.out.violation(p, format!("{what} ({name})"), vec![line.clone()]);
                }
                self.out.bump("exports_checked");
            }
        }
        self.out.note_case(&format!("{name}:{max}:{}", stream.len()));
    }
}

/// all threads pass the k-th `wait` together (spinning: the point is to start within nanoseconds of each other)
struct SpinBarrier {
    arrived: std::sync::atomic::AtomicUsize,
    threads: usize,
}

impl SpinBarrier {
    fn wait(&self, k: usize) {
        use std::sync::atomic::Ordering::SeqCst;
        self.arrived.fetch_add(1, SeqCst);
        let want = (k + 1) * self.threads;
        let mut spins = 0u32;
        while self.arrived.load(SeqCst) < want {
            spins += 1;
            if spins % 2000 == 0 {
                std::thread::yield_now();
            } else {
                std::hint::spin_loop();
            }
        }
    }
}

/// `threads` OS threads call `record_request_with_key(_, false, keys[i])` for i = 0, 1, ... - every thread the
/// SAME key at the same moment (spin barrier before each key)
fn race_keys(m: &Arc<Metrics>, keys: &Arc<Vec<String>>, threads: usize) {
    let bar = Arc::new(SpinBarrier { arrived: std::sync::atomic::AtomicUsize::new(0), threads });
    let hs: Vec<_> = (0..threads)
        .map(|t| {
            let (m, keys, bar) = (Arc::clone(m), Arc::clone(keys), Arc::clone(&bar));
            std::thread::spawn(move || {
                let tr = [Transport::Http, Transport::Grpc, Transport::Redis][t % 3];
                for (i, k) in keys.iter().enumerate() {
                    bar.wait(i);
                    m.record_request_with_key(tr, false, k);
                }
            })
        })
        .collect();
    for h in hs {
        let _ = h.join();
    }
}

/// C16 under contention.  (1) Thousands of fresh keys, each denied for the first time by 8 / 12 / 16 threads at
/// once, in a tracker whose `max` exceeds the number of distinct keys: every count must equal the number of
/// denials exactly.  (2) A small tracker (max 8) after a clean-up: keys that were just evicted (and keys never
/// seen) are denied by all threads at once while the table is too small for another clean-up to run - the table
/// afterwards must be the table before with that key's count raised by the number of denials (what ANY sequential
/// order of the same updates gives).
fn first_denial_races(rng: &mut Rng, n: usize, out: &mut Out) {
    let replay = |what: &str| vec![format!("# metrics first-denial races: {what}")];
    // (1)
    let per_round = (n * 20).clamp(200, 3000);
    let m = Arc::new(Metrics::builder().max_denied_keys(10_000).build());
    let mut total_calls = 0u64;
    for (round, threads) in [8usize, 12, 16].into_iter().enumerate() {
        let tag = rng.below(1_000_000);
        let keys: Arc<Vec<String>> = Arc::new(
            (0..per_round)
                .map(|i| match i % 4 {
                    // long keys (up to the 256-byte limit) take longer to copy
                    1 => format!("fd{round}_{tag}_{i}_{}", "p".repeat(rng.range(150, 230) as usize)),
                    2 => format!("fd{round}_{tag}_{i}_é\"\\\n"),
                    _ => format!("fd{round}_{tag}_{i}"),
                })
                .collect(),
        );
        race_keys(&m, &keys, threads);
        total_calls += (threads * per_round) as u64;
        out.add("first_denial_race_keys", per_round as u64);
        let tab: BTreeMap<String, u64> = m.verif_denied_table().unwrap_or_default().into_iter().collect();
        let wrong: Vec<(&String, u64)> = keys.iter().map(|k| (k, tab.get(k).copied().unwrap_or(0))).filter(|(_, c)| *c != threads as u64).collect();
        if let Some((k, c)) = wrong.first() {
            let below = wrong.iter().filter(|w| w.1 < threads as u64).count();
            out.violation(
                "C16",
                format!(
                    "{} of {per_round} fresh keys, each denied once by {threads} threads at the same moment ({} distinct keys so far, max 10000), do not show {threads} denials ({below} below, {} above); e.g. key {} shows {c}",
                    wrong.len(),
                    tab.len(),
                    wrong.len() - below,
                    hx(k.as_bytes()).chars().take(60).collect::<String>()
                ),
                replay(&format!("round {round}, {threads} threads x {per_round} keys, max_denied_keys 10000")),
            );
        }
        let c = counters(&m);
        if c.denied != total_calls || c.total != total_calls || c.total != c.http + c.grpc + c.redis || c.total != c.allowed + c.denied + c.errors {
            out.violation("C15", format!("after {total_calls} concurrent keyed denials: total {} denied {} http {} grpc {} redis {}", c.total, c.denied, c.http, c.grpc, c.redis), replay("counters"));
        }
    }
    // (2)
    let max = 8usize;
    let threads = 8usize;
    let steps = (n * 5).clamp(60, 600);
    let m = Arc::new(Metrics::builder().max_denied_keys(max).build());
    let mut truth: BTreeMap<String, u64> = BTreeMap::new();
    let mut pool: Vec<String> = vec![];
    let fill = |m: &Metrics, truth: &mut BTreeMap<String, u64>, pool: &mut Vec<String>, gno: usize| {
        // 3 x max + 1 distinct keys: the last one triggers the clean-up, which keeps `max` of them
        for i in 0..3 * max + 1 {
            let k = format!("ev{gno}_{i}");
            m.record_request_with_key(Transport::Redis, false, &k);
            *truth.entry(k.clone()).or_insert(0) += 1;
            pool.push(k);
        }
    };
    fill(&m, &mut truth, &mut pool, 0);
    let mut gno = 1usize;
    let mut done = 0usize;
    while done < steps {
        let before: BTreeMap<String, u64> = m.verif_denied_table().unwrap_or_default().into_iter().collect();
        if before.len() + 1 > 3 * max {
            // the next new key would trigger a clean-up, whose outcome among ties is arbitrary: refill instead
            fill(&m, &mut truth, &mut pool, gno);
            gno += 1;
            continue;
        }
        // a batch of keys that fits below the clean-up threshold: evicted ones (in `pool`, not in the table),
        // brand-new ones and a few that are still tracked
        let room = 3 * max - before.len();
        let evicted: Vec<String> = pool.iter().filter(|k| !before.contains_key(*k)).cloned().collect();
        let mut batch: Vec<String> = vec![];
        while batch.len() < room.min(6) {
            let k = match rng.below(4) {
                0 if !before.is_empty() => before.keys().nth(rng.below(before.len() as u64) as usize).unwrap().clone(),
                1 => format!("new{gno}_{done}_{}", batch.len()),
                _ if !evicted.is_empty() => rng.pick(&evicted),
                _ => format!("new{gno}_{done}_{}", batch.len()),
            };
            // distinct new keys only (a repeated key is fine, it just adds `threads` again; keep the room exact)
            if !batch.contains(&k) {
                batch.push(k);
            }
        }
        let keys = Arc::new(batch.clone());
        race_keys(&m, &keys, threads);
        done += batch.len();
        out.add("evicted_key_races", batch.len() as u64);
        let after: BTreeMap<String, u64> = m.verif_denied_table().unwrap_or_default().into_iter().collect();
        let mut want = before.clone();
        for k in &batch {
            *want.entry(k.clone()).or_insert(0) += threads as u64;
            *truth.entry(k.clone()).or_insert(0) += threads as u64;
        }
        if after != want {
            let diff: Vec<String> = want.iter().filter(|(k, c)| after.get(*k) != Some(*c)).take(4).map(|(k, c)| format!("{k}: {:?} instead of {c}", after.get(k))).collect();
            out.violation(
                "C16",
                format!("{threads} threads denied each of {} keys (evicted a moment ago / new / tracked) at the same moment, table {} -> {} entries, no clean-up possible: counts differ from before + {threads}: {}", batch.len(), before.len(), after.len(), diff.join("; ")),
                replay(&format!("max_denied_keys {max}, keys {batch:?}, table before {}", table_text(&before.clone().into_iter().collect::<Vec<_>>()))),
            );
        }
        for (k, c) in &after {
            if *c > truth.get(k).copied().unwrap_or(0) {
                out.violation("C16", format!("key {k} shown with {c} denials, it really had {:?}", truth.get(k)), replay("evicted-key races"));
            }
        }
    }
}

pub fn run(seed: u64, n: usize, out: &mut Out) {
    let mut rng = Rng::new(seed);
    // (a) single-threaded counter runs
    out.line(
        "mtab".into(),
        // cannot be computed from the implementation: this is the structure of record_request /
        // record_error as read from the code (counters bumped by a decision | by an error)
        "grpc_requests,http_requests,redis_requests,requests_allowed,requests_denied,total_requests|grpc_requests,http_requests,redis_requests,requests_errors,total_requests".into(),
    );
    for i in 0..n * 5 {
        let len = if i < 10 { i } else { rng.pick(&[1usize, 5, 20, 60, 200]) };
        let bias = rng.below(4);
        let evs: Vec<&str> = (0..len)
            .map(|_| match bias {
                0 => rng.pick(&EVENTS),
                1 => rng.pick(&["h1", "h0", "he"]),
                2 => rng.pick(&["r0", "g0", "h0", "re"]),
                _ => rng.pick(&["g1", "r1", "ge", "re", "he"]),
            })
            .collect();
        let ans = mrun_answer(&evs);
        let f: Vec<u64> = ans.split(' ').map(|x| x.parse().unwrap()).collect();
        let line = format!("mrun {}", evs.join(" ")).trim_end().to_string();
        if f[0] != f[1] + f[2] + f[3] || f[0] != f[4] + f[5] + f[6] || f[0] != len as u64 {
            out.violation("C15", format!("identities broken after a single-threaded run: {ans}"), vec![line.clone()]);
        }
        let cnt = |p: &dyn Fn(&&str) -> bool| evs.iter().filter(|e| p(e)).count() as u64;
        let want = [
            len as u64,
            cnt(&|e| e.starts_with('h')),
            cnt(&|e| e.starts_with('g')),
            cnt(&|e| e.starts_with('r')),
            cnt(&|e| e.ends_with('1')),
            cnt(&|e| e.ends_with('0')),
            cnt(&|e| e.ends_with('e')),
        ];
        if f != want {
            out.violation("C15", format!("counters {ans} after events counted as {want:?}"), vec![line.clone()]);
        }
        out.line(line, ans);
        out.bump("mrun");
    }

    // (b) concurrent recorders
    let rounds = 6;
    let threads = 8usize;
    let per = (n * 2000).max(1000);
    let m = Arc::new(Metrics::builder().max_denied_keys(3).build());
    let mut expect = [0u64; 7];
    for round in 0..rounds {
        let barrier = Arc::new(Barrier::new(threads));
        let mut hs = vec![];
        for _ in 0..threads {
            let mut r = rng.fork();
            let (m2, b2) = (Arc::clone(&m), Arc::clone(&barrier));
            hs.push(std::thread::spawn(move || {
                let mut local = [0u64; 7];
                let evs: Vec<usize> = (0..per).map(|_| r.below(12) as usize).collect();
                b2.wait();
                for e in evs {
                    if e < 9 {
                        let ev = EVENTS[e];
                        apply_event(&m2, ev);
                        local[0] += 1;
                        local[match &ev[..1] {
                            "h" => 1,
                            "g" => 2,
                            _ => 3,
                        }] += 1;
                        local[match &ev[1..] {
                            "1" => 4,
                            "0" => 5,
                            _ => 6,
                        }] += 1;
                    } else {
                        // keyed denials hit the table mutex as well
                        m2.record_request_with_key(Transport::Redis, false, ["a", "b", "c"][e - 9]);
                        local[0] += 1;
                        local[3] += 1;
                        local[5] += 1;
                    }
                }
                local
            }));
        }
        for h in hs {
            let l = h.join().unwrap();
            for i in 0..7 {
                expect[i] += l[i];
            }
        }
        // quiescent point
        let c = counters(&m);
        let got = [c.total, c.http, c.grpc, c.redis, c.allowed, c.denied, c.errors];
        out.bump("stress_rounds");
        out.add("stress_events", (threads * per) as u64);
        if got != expect {
            out.violation("C15", format!("round {round}: {threads} threads recorded {expect:?} events, counters show {got:?}"), vec![format!("# metrics stress seed {seed} n {n}")]);
        }
        if c.total != c.http + c.grpc + c.redis || c.total != c.allowed + c.denied + c.errors {
            out.violation("C15", format!("round {round}: identities broken at a quiescent point: {got:?}"), vec![format!("# metrics stress seed {seed} n {n}")]);
        }
        for (p, what) in check_export(&m) {
            out.violation(p, format!("{what} (stress round {round})"), vec![]);
        }
        let tab = m.verif_denied_table().unwrap_or_default();
        let tsum: u64 = tab.iter().map(|x| x.1).sum();
        if tab.len() > 3 || tsum > c.denied {
            out.violation("C16", format!("stress: table {tab:?} inconsistent with {} denials", c.denied), vec![]);
        }
    }

    // (b2) the FIRST denial of one fresh key recorded by many threads at the same moment
    first_denial_races(&mut rng, n, out);

    // (c) the denied-keys table
    let specials = special_keys();
    for k in &specials {
        out.line(format!("esc {}", hx(k.as_bytes())), esc_answer(k));
        // one escaped label value must lex as exactly one label value
        let line = format!("m{{key=\"{}\",rank=\"1\"}} 1", Metrics::verif_escape_label(k));
        match lex_sample(&line) {
            Ok(s) if s.labels.len() == 2 && !Metrics::verif_escape_label(k).contains('\n') => {}
            other => out.violation("C16", format!("escaped key does not stay one label value: {other:?}"), vec![format!("esc {}", hx(k.as_bytes()))]),
        }
    }
    for _ in 0..n {
        let mut r = rng.fork();
        let s = crate::resp::gen_string(&mut r, true);
        out.line(format!("esc {}", hx(s.as_bytes())), esc_answer(&s));
        // (only keys of at most 256 bytes are ever tracked and exported)
        if s.len() <= 256 {
            if let Some(what) = escape_roundtrip_problem(&s) {
                out.violation("C16", what, vec![format!("esc {}", hx(s.as_bytes()))]);
            }
        }
    }
    // keys that expand a lot when escaped, with escape sequences across given offsets of the escaped text
    let boundary = escape_boundary_keys(&mut rng);
    for k in specials.iter().chain(&boundary).filter(|k| k.len() <= 256) {
        if let Some(what) = escape_roundtrip_problem(k) {
            out.violation("C16", what, vec![format!("esc {}", hx(k.as_bytes()))]);
        }
    }
    for group in boundary.chunks(25) {
        for k in group {
            out.line(format!("esc {}", hx(k.as_bytes())), esc_answer(k));
            out.bump("esc_boundary_keys");
        }
        // the same keys through the real exporter: each denied once or twice in a tracker that holds them all
        let m = Metrics::builder().max_denied_keys(400).build();
        for (i, k) in group.iter().enumerate() {
            for _ in 0..1 + i % 2 {
                m.record_request_with_key(Transport::Grpc, false, k);
            }
        }
        for (p, what) in check_export(&m) {
            let replay: Vec<String> = group.iter().map(|k| format!("esc {}", hx(k.as_bytes()))).collect();
            out.violation(p, format!("{what} (keys that expand when escaped, {} keys denied)", group.len()), replay);
        }
        out.bump("exports_checked");
    }
    // requested tracker sizes: in range, just out of range, and far out of range on both sides of every power of
    // two an intermediate integer type could have (the documented contract: 0 disables tracking, any other request
    // is capped at 10 000).  Direct oracle next to the model line: report length = min(n, 10 000) after more distinct
    // denied keys than that, tracking enabled iff n >= 1
    for nn in TCLAMP_SIZES {
        let ans = tclamp_answer(nn);
        out.line(format!("tclamp {nn}"), ans.clone());
        out.bump("tclamp_sizes");
        let want = format!("{} {}", nn.min(DOCUMENTED_TRACKER_CAP), if nn >= 1 { "enabled" } else { "disabled" });
        if ans != want {
            out.violation(
                "C16",
                format!("MetricsBuilder::max_denied_keys({nn}): after {} distinct denied keys the report lists / tracking is `{ans}`, the documented contract (non-zero requests are capped at {DOCUMENTED_TRACKER_CAP}) gives `{want}`", nn.min(20000) + 5),
                vec![format!("tclamp {nn}")],
            );
        }
    }
    let mut tk = TopK { out };
    let reps = (n / 50).max(1);
    for max in [1usize, 2, 3, 10, 100] {
        for rep in 0..reps {
            let len = (max * 7).clamp(40, 450);
            // unbounded distinct keys
            let s: Vec<String> = (0..len).map(|i| format!("u{rep}_{i}")).collect();
            tk.run_stream(max, &s, "distinct");
            // heavy hitter arriving late
            let mut s: Vec<String> = (0..len * 2 / 3).map(|i| format!("d{i}")).collect();
            for i in 0..len / 3 {
                s.push("HEAVY".into());
                if i % 3 == 0 {
                    s.push(format!("noise{i}"));
                }
            }
            tk.run_stream(max, &s, "late-heavy-hitter");
            // all ties, round robin over more keys than the table may hold
            let m = 3 * max + 2;
            let s: Vec<String> = (0..len).map(|i| format!("t{}", i % m)).collect();
            tk.run_stream(max, &s, "ties");
            // within capacity: must stay exact
            let s: Vec<String> = (0..len).map(|_| format!("e{}", rng.below(max as u64))).collect();
            tk.run_stream(max, &s, "within-max");
            // random mix with skew and special keys
            let s: Vec<String> = (0..len)
                .map(|_| {
                    if rng.chance(1, 4) {
                        rng.pick(&specials)
                    } else if rng.chance(1, 2) {
                        format!("hot{}", rng.below(3))
                    } else {
                        format!("cold{}", rng.below(1000))
                    }
                })
                .collect();
            tk.run_stream(max, &s, "mixed-special");
        }
    }
    // every special key through a tracker that can hold them all
    tk.run_stream(400, &specials, "all-special");
    // tracking disabled: nothing kept, nothing exported
    let m = Metrics::builder().max_denied_keys(0).build();
    for k in specials.iter().take(20) {
        m.record_request_with_key(Transport::Http, false, k);
    }
    if m.verif_denied_table().is_some() || m.export_prometheus().contains("top_denied") {
        tk.out.violation("C16", "tracking disabled but keys are kept or exported".into(), vec!["tclamp 0".into()]);
    }
    for (p, what) in check_export(&m) {
        tk.out.violation(p, format!("{what} (tracking disabled)"), vec![]);
    }
}
