// mode `metrics`: counters (C15) and the denied-keys table / exporter (C16).
//
// lines:
//   mrun <ev> <ev> ...                      -> total http grpc redis allowed denied errors
//        ev = h1|h0|g1|g0|r1|r0 (record_request http/grpc/redis allowed 1/0) | he|ge|re (record_error)
//   mtab                                    -> fixed answer (the code's structure, see below)
//   tstep <max> <before> <keyhex|-> <after> -> ok        tables: hex:count,hex:count sorted by key, `-` = empty table;
//                                                       the empty KEY inside a table has empty hex (`:3`)
//   treport <max> <table> <report>          -> ok        report in export order
//   tclamp <n>                              -> <report length after min(n,20000)+5 distinct keys> <enabled|disabled>
//   esc <hex|->                             -> hex of the escaped label
use crate::cmd::counters;
use crate::util::*;
use crate::val::hx;
use std::collections::BTreeMap;
use std::panic::{catch_unwind, AssertUnwindSafe};
use std::sync::{Arc, Barrier};
use throttlecrab_server::metrics::{Metrics, Transport};

pub fn apply_event(m: &Metrics, ev: &str) -> bool {
    match ev {
        "h1" => m.record_request(Transport::Http, true),
        "h0" => m.record_request(Transport::Http, false),
        "g1" => m.record_request(Transport::Grpc, true),
        "g0" => m.record_request(Transport::Grpc, false),
        "r1" => m.record_request(Transport::Redis, true),
        "r0" => m.record_request(Transport::Redis, false),
        "he" => m.record_error(Transport::Http),
        "ge" => m.record_error(Transport::Grpc),
        "re" => m.record_error(Transport::Redis),
        _ => return false,
    }
    true
}

pub const EVENTS: [&str; 9] = ["h1", "h0", "g1", "g0", "r1", "r0", "he", "ge", "re"];

pub fn mrun_answer(evs: &[&str]) -> String {
    let m = Metrics::builder().max_denied_keys(0).build();
    for e in evs {
        apply_event(&m, e);
    }
    let c = counters(&m);
    format!("{} {} {} {} {} {} {}", c.total, c.http, c.grpc, c.redis, c.allowed, c.denied, c.errors)
}

pub fn table_text(t: &[(String, u64)]) -> String {
    if t.is_empty() {
        return "-".into();
    }
    let mut v: Vec<(&[u8], u64)> = t.iter().map(|(k, c)| (k.as_bytes(), *c)).collect();
    v.sort();
    v.iter().map(|(k, c)| format!("{}:{c}", crate::util::hex(k))).collect::<Vec<_>>().join(",")
}

pub fn report_text(t: &[(String, u64)]) -> String {
    if t.is_empty() {
        return "-".into();
    }
    t.iter().map(|(k, c)| format!("{}:{c}", crate::util::hex(k.as_bytes()))).collect::<Vec<_>>().join(",")
}

pub fn esc_answer(key: &str) -> String {
    hx(Metrics::verif_escape_label(key).as_bytes())
}

pub fn tclamp_answer(n: usize) -> String {
    let r = catch_unwind(AssertUnwindSafe(|| {
        let m = Metrics::builder().max_denied_keys(n).build();
        let enabled = m.verif_denied_table().is_some();
        let k = n.min(20000) + 5;
        for i in 0..k {
            m.record_request_with_key(Transport::Http, false, &format!("c{i}"));
        }
        let len = m.verif_top_denied().map(|r| r.len()).unwrap_or(0);
        format!("{len} {}", if enabled { "enabled" } else { "disabled" })
    }));
    r.unwrap_or_else(|_| "panic".into())
}

// ----------------------------------------------------------------------------------------
// exporter lexer
// ----------------------------------------------------------------------------------------
#[derive(Debug)]
pub struct Sample {
    pub name: String,
    pub labels: Vec<(String, String)>, // raw (still escaped) label values
    pub value: String,
}

/// `name{l="v",l2="v2"} value` | `name value`; label values end at the first unescaped quote
pub fn lex_sample(line: &str) -> Result<Sample, String> {
    let cs: Vec<char> = line.chars().collect();
    let mut i = 0;
    let is_name = |c: char| c.is_ascii_alphanumeric() || c == '_' || c == ':';
    while i < cs.len() && is_name(cs[i]) {
        i += 1;
    }
    if i == 0 {
        return Err("no metric name".into());
    }
    let name: String = cs[..i].iter().collect();
    let mut labels = vec![];
    if i < cs.len() && cs[i] == '{' {
        i += 1;
        loop {
            let s = i;
            while i < cs.len() && is_name(cs[i]) {
                i += 1;
            }
            if i == s {
                return Err(format!("label name expected at column {i}"));
            }
            let lname: String = cs[s..i].iter().collect();
            if cs.get(i) != Some(&'=') || cs.get(i + 1) != Some(&'"') {
                return Err(format!("=\" expected at column {i}"));
            }
            i += 2;
            let vs = i;
            loop {
                match cs.get(i) {
                    None => return Err("unterminated label value".into()),
                    Some('\\') => {
                        if i + 1 >= cs.len() {
                            return Err("dangling backslash".into());
                        }
                        i += 2;
                    }
                    Some('"') => break,
                    Some(_) => i += 1,
                }
            }
            labels.push((lname, cs[vs..i].iter().collect()));
            i += 1;
            match cs.get(i) {
                Some(',') => i += 1,
                Some('}') => {
                    i += 1;
                    break;
                }
                _ => return Err(format!("',' or '}}' expected at column {i}")),
            }
        }
    }
    if cs.get(i) != Some(&' ') {
        return Err(format!("space before the value expected at column {i}"));
    }
    let value: String = cs[i + 1..].iter().collect();
    if value.is_empty() || value.parse::<f64>().is_err() {
        return Err(format!("value '{value}' is not a number"));
    }
    Ok(Sample { name, labels, value })
}

/// all well-formedness + value checks of one export; returns violation texts
pub fn check_export(m: &Metrics) -> Vec<(&'static str, String)> {
    let mut bad = vec![];
    let c0 = counters(m);
    let report = m.verif_top_denied();
    let text = m.export_prometheus();
    let mut top_lines: Vec<Sample> = vec![];
    let mut seen: BTreeMap<String, String> = BTreeMap::new();
    for line in text.split('\n') {
        if line.is_empty() || line.starts_with('#') {
            continue;
        }
        match lex_sample(line) {
            Err(e) => bad.push(("C16", format!("export line is not a well-formed sample ({e}): {:?}", &line[..line.len().min(120)]))),
            Ok(s) => {
                if s.name == "throttlecrab_top_denied_keys" {
                    top_lines.push(s);
                } else {
                    let k = if s.labels.is_empty() { s.name.clone() } else { format!("{}{{{}}}", s.name, s.labels[0].1) };
                    seen.insert(k, s.value);
                }
            }
        }
    }
    let want = [
        ("throttlecrab_requests_total", c0.total),
        ("throttlecrab_requests_by_transport{http}", c0.http),
        ("throttlecrab_requests_by_transport{grpc}", c0.grpc),
        ("throttlecrab_requests_by_transport{redis}", c0.redis),
        ("throttlecrab_requests_allowed", c0.allowed),
        ("throttlecrab_requests_denied", c0.denied),
        ("throttlecrab_requests_errors", c0.errors),
    ];
    for (k, v) in want {
        match seen.get(k) {
            Some(x) if *x == v.to_string() => {}
            other => bad.push(("C15", format!("export shows {k} = {other:?}, the counter is {v}"))),
        }
    }
    match report {
        None => {
            if !top_lines.is_empty() || text.contains("throttlecrab_top_denied_keys") {
                bad.push(("C16", "tracking disabled but top_denied_keys is exported".into()));
            }
        }
        Some(rep) => {
            if top_lines.len() != rep.len() {
                bad.push(("C16", format!("{} top_denied_keys sample lines for {} reported keys", top_lines.len(), rep.len())));
            } else {
                // the report is re-sorted at export time: compare as multisets of (escaped key, count), ranks 1..k
                let mut a: Vec<(String, String)> = rep.iter().map(|(k, c)| (Metrics::verif_escape_label(k), c.to_string())).collect();
                let mut b: Vec<(String, String)> = vec![];
                for (i, s) in top_lines.iter().enumerate() {
                    let key = s.labels.iter().find(|l| l.0 == "key").map(|l| l.1.clone());
                    let rank = s.labels.iter().find(|l| l.0 == "rank").map(|l| l.1.clone());
                    if s.labels.len() != 2 || key.is_none() || rank != Some((i + 1).to_string()) {
                        bad.push(("C16", format!("top_denied_keys line {} has labels {:?}", i + 1, s.labels)));
                    }
                    b.push((key.unwrap_or_default(), s.value.clone()));
                }
                a.sort();
                b.sort();
                if a != b {
                    bad.push(("C16", "exported (key,count) pairs differ from the report".into()));
                }
            }
        }
    }
    bad
}

// ----------------------------------------------------------------------------------------
pub fn special_keys() -> Vec<String> {
    let mut v: Vec<String> = vec![
        "".into(),
        "x".repeat(255),
        "x".repeat(256),
        "x".repeat(257),
        "é".repeat(128), // 256 bytes
        format!("{}a", "é".repeat(128)), // 257 bytes
        "\"".into(),
        "a\"b".into(),
        "\\".into(),
        "a\\".into(),
        "\\\"".into(),
        "a\",rank=\"0".into(),
        "a\"} 999\nthrottlecrab_requests_total 0".into(),
        "\n".into(),
        "\r".into(),
        "\r\n".into(),
        "\t".into(),
        "\u{7f}".into(),
        "é".into(),
        "日本語".into(),
        "\u{10348}".into(),
        "😀k".into(),
        "\u{2028}".into(),
        "\u{feff}".into(),
        "{}".into(),
        "k=v,".into(),
        " ".into(),
        "\\n".into(),
        "\\x41".into(),
    ];
    for c in 0u32..=0x9f {
        if c < 0x20 || c >= 0x7f {
            v.push(format!("c{}", char::from_u32(c).unwrap()));
        }
    }
    v
}

struct TopK<'a> {
    out: &'a mut Out,
}

impl TopK<'_> {
    /// feed `stream` into a fresh tracker of size `max`, emitting tstep/treport and judging C16
    fn run_stream(&mut self, max: usize, stream: &[String], name: &str) {
        let m = Metrics::builder().max_denied_keys(max).build();
        let mut truth: BTreeMap<String, u64> = BTreeMap::new();
        let mut replay: Vec<String> = vec![];
        let mut exact_so_far = true;
        for (i, key) in stream.iter().enumerate() {
            let before = m.verif_denied_table().unwrap_or_default();
            m.record_request_with_key(Transport::Redis, false, key);
            let after = m.verif_denied_table().unwrap_or_default();
            *truth.entry(key.clone()).or_insert(0) += 1;
            let line = format!("tstep {max} {} {} {}", table_text(&before), hx(key.as_bytes()), table_text(&after));
            if before.len() <= 400 && after.len() <= 400 {
                self.out.line(line.clone(), "ok".into());
                // a distinct non-trivial case = an update that evicts, or meets a key already tracked
                if after.len() < before.len() || before.iter().any(|(k, _)| k == key) {
                    self.out.note_case(&line);
                }
                if self.out.samples.len() < 4 && line.len() < 300 && after.len() >= 2 {
                    self.out.sample(line.clone());
                }
            }
            if replay.len() < 40 {
                replay.push(line.clone());
            }
            self.out.bump("topk_updates");
            // --- oracles
            if after.len() > 3 * max {
                self.out.violation("C16", format!("table holds {} keys, more than 3 x {max} ({name}, update {i})", after.len()), vec![line.clone()]);
            }
            for (k, c) in &after {
                let t = truth.get(k).copied().unwrap_or(0);
                if *c > t {
                    self.out.violation("C16", format!("key {} shown with {c} denials, it really had {t} ({name})", hx(k.as_bytes())), vec![line.clone()]);
                }
                if k.len() > 256 {
                    self.out.violation("C16", format!("a key of {} bytes is tracked ({name})", k.len()), vec![line.clone()]);
                }
            }
            let distinct_tracked = truth.keys().filter(|k| k.len() <= 256).count();
            if distinct_tracked > max {
                exact_so_far = false;
            }
            if exact_so_far {
                let want: Vec<(String, u64)> = truth.iter().filter(|(k, _)| k.len() <= 256).map(|(k, c)| (k.clone(), *c)).collect();
                if want != after {
                    self.out.violation("C16", format!("only {distinct_tracked} distinct keys (max {max}) but the table is not exact ({name})"), replay.clone());
                }
            }
            let rep = m.verif_top_denied().unwrap_or_default();
            if rep.len() > max {
                self.out.violation("C16", format!("report lists {} keys, max is {max} ({name})", rep.len()), vec![line.clone()]);
            }
            if rep.windows(2).any(|w| w[0].1 < w[1].1) {
                self.out.violation("C16", format!("report is not in non-increasing count order ({name})"), vec![line.clone()]);
            }
            if i % 20 == 19 || i + 1 == stream.len() {
                if after.len() <= 400 {
                    self.out.line(format!("treport {max} {} {}", table_text(&after), report_text(&rep)), "ok".into());
                }
                for (p, what) in check_export(&m) {
                    self.out.violation(p, format!("{what} ({name})"), vec![line.clone()]);
                }
                self.out.bump("exports_checked");
            }
        }
        self.out.note_case(&format!("{name}:{max}:{}", stream.len()));
    }
}

pub fn run(seed: u64, n: usize, out: &mut Out) {
    let mut rng = Rng::new(seed);
    // (a) single-threaded counter runs
    out.line(
        "mtab".into(),
        // cannot be computed from the implementation: this is the structure of record_request /
        // record_error as read from the code (counters bumped by a decision | by an error)
        "grpc_requests,http_requests,redis_requests,requests_allowed,requests_denied,total_requests|grpc_requests,http_requests,redis_requests,requests_errors,total_requests".into(),
    );
    for i in 0..n * 5 {
        let len = if i < 10 { i } else { rng.pick(&[1usize, 5, 20, 60, 200]) };
        let bias = rng.below(4);
        let evs: Vec<&str> = (0..len)
            .map(|_| match bias {
                0 => rng.pick(&EVENTS),
                1 => rng.pick(&["h1", "h0", "he"]),
                2 => rng.pick(&["r0", "g0", "h0", "re"]),
                _ => rng.pick(&["g1", "r1", "ge", "re", "he"]),
            })
            .collect();
        let ans = mrun_answer(&evs);
        let f: Vec<u64> = ans.split(' ').map(|x| x.parse().unwrap()).collect();
        let line = format!("mrun {}", evs.join(" ")).trim_end().to_string();
        if f[0] != f[1] + f[2] + f[3] || f[0] != f[4] + f[5] + f[6] || f[0] != len as u64 {
            out.violation("C15", format!("identities broken after a single-threaded run: {ans}"), vec![line.clone()]);
        }
        let cnt = |p: &dyn Fn(&&str) -> bool| evs.iter().filter(|e| p(e)).count() as u64;
        let want = [
            len as u64,
            cnt(&|e| e.starts_with('h')),
            cnt(&|e| e.starts_with('g')),
            cnt(&|e| e.starts_with('r')),
            cnt(&|e| e.ends_with('1')),
            cnt(&|e| e.ends_with('0')),
            cnt(&|e| e.ends_with('e')),
        ];
        if f != want {
            out.violation("C15", format!("counters {ans} after events counted as {want:?}"), vec![line.clone()]);
        }
        out.line(line, ans);
        out.bump("mrun");
    }

    // (b) concurrent recorders
    let rounds = 6;
    let threads = 8usize;
    let per = (n * 2000).max(1000);
    let m = Arc::new(Metrics::builder().max_denied_keys(3).build());
    let mut expect = [0u64; 7];
    for round in 0..rounds {
        let barrier = Arc::new(Barrier::new(threads));
        let mut hs = vec![];
        for _ in 0..threads {
            let mut r = rng.fork();
            let (m2, b2) = (Arc::clone(&m), Arc::clone(&barrier));
            hs.push(std::thread::spawn(move || {
                let mut local = [0u64; 7];
                let evs: Vec<usize> = (0..per).map(|_| r.below(12) as usize).collect();
                b2.wait();
                for e in evs {
                    if e < 9 {
                        let ev = EVENTS[e];
                        apply_event(&m2, ev);
                        local[0] += 1;
                        local[match &ev[..1] {
                            "h" => 1,
                            "g" => 2,
                            _ => 3,
                        }] += 1;
                        local[match &ev[1..] {
                            "1" => 4,
                            "0" => 5,
                            _ => 6,
                        }] += 1;
                    } else {
                        // keyed denials hit the table mutex as well
                        m2.record_request_with_key(Transport::Redis, false, ["a", "b", "c"][e - 9]);
                        local[0] += 1;
                        local[3] += 1;
                        local[5] += 1;
                    }
                }
                local
            }));
        }
        for h in hs {
            let l = h.join().unwrap();
            for i in 0..7 {
                expect[i] += l[i];
            }
        }
        // quiescent point
        let c = counters(&m);
        let got = [c.total, c.http, c.grpc, c.redis, c.allowed, c.denied, c.errors];
        out.bump("stress_rounds");
        out.add("stress_events", (threads * per) as u64);
        if got != expect {
            out.violation("C15", format!("round {round}: {threads} threads recorded {expect:?} events, counters show {got:?}"), vec![format!("# metrics stress seed {seed} n {n}")]);
        }
        if c.total != c.http + c.grpc + c.redis || c.total != c.allowed + c.denied + c.errors {
            out.violation("C15", format!("round {round}: identities broken at a quiescent point: {got:?}"), vec![format!("# metrics stress seed {seed} n {n}")]);
        }
        for (p, what) in check_export(&m) {
            out.violation(p, format!("{what} (stress round {round})"), vec![]);
        }
        let tab = m.verif_denied_table().unwrap_or_default();
        let tsum: u64 = tab.iter().map(|x| x.1).sum();
        if tab.len() > 3 || tsum > c.denied {
            out.violation("C16", format!("stress: table {tab:?} inconsistent with {} denials", c.denied), vec![]);
        }
    }

    // (c) the denied-keys table
    let specials = special_keys();
    for k in &specials {
        out.line(format!("esc {}", hx(k.as_bytes())), esc_answer(k));
        // one escaped label value must lex as exactly one label value
        let line = format!("m{{key=\"{}\",rank=\"1\"}} 1", Metrics::verif_escape_label(k));
        match lex_sample(&line) {
            Ok(s) if s.labels.len() == 2 && !Metrics::verif_escape_label(k).contains('\n') => {}
            other => out.violation("C16", format!("escaped key does not stay one label value: {other:?}"), vec![format!("esc {}", hx(k.as_bytes()))]),
        }
    }
    for _ in 0..n {
        let mut r = rng.fork();
        let s = crate::resp::gen_string(&mut r, true);
        out.line(format!("esc {}", hx(s.as_bytes())), esc_answer(&s));
    }
    for nn in [0usize, 1, 2, 3, 10, 100, 300, 9999, 10000, 10001, 20000, usize::MAX] {
        out.line(format!("tclamp {nn}"), tclamp_answer(nn));
    }
    let mut tk = TopK { out };
    let reps = (n / 50).max(1);
    for max in [1usize, 2, 3, 10, 100] {
        for rep in 0..reps {
            let len = (max * 7).clamp(40, 450);
            // unbounded distinct keys
            let s: Vec<String> = (0..len).map(|i| format!("u{rep}_{i}")).collect();
            tk.run_stream(max, &s, "distinct");
            // heavy hitter arriving late
            let mut s: Vec<String> = (0..len * 2 / 3).map(|i| format!("d{i}")).collect();
            for i in 0..len / 3 {
                s.push("HEAVY".into());
                if i % 3 == 0 {
                    s.push(format!("noise{i}"));
                }
            }
            tk.run_stream(max, &s, "late-heavy-hitter");
            // all ties, round robin over more keys than the table may hold
            let m = 3 * max + 2;
            let s: Vec<String> = (0..len).map(|i| format!("t{}", i % m)).collect();
            tk.run_stream(max, &s, "ties");
            // within capacity: must stay exact
            let s: Vec<String> = (0..len).map(|_| format!("e{}", rng.below(max as u64))).collect();
            tk.run_stream(max, &s, "within-max");
            // random mix with skew and special keys
            let s: Vec<String> = (0..len)
                .map(|_| {
                    if rng.chance(1, 4) {
                        rng.pick(&specials)
                    } else if rng.chance(1, 2) {
                        format!("hot{}", rng.below(3))
                    } else {
                        format!("cold{}", rng.below(1000))
                    }
                })
                .collect();
            tk.run_stream(max, &s, "mixed-special");
        }
    }
    // every special key through a tracker that can hold them all
    tk.run_stream(400, &specials, "all-special");
    // tracking disabled: nothing kept, nothing exported
    let m = Metrics::builder().max_denied_keys(0).build();
    for k in specials.iter().take(20) {
        m.record_request_with_key(Transport::Http, false, k);
    }
    if m.verif_denied_table().is_some() || m.export_prometheus().contains("top_denied") {
        tk.out.violation("C16", "tracking disabled but keys are kept or exported".into(), vec!["tclamp 0".into()]);
    }
    for (p, what) in check_export(&m) {
        tk.out.violation(p, format!("{what} (tracking disabled)"), vec![]);
    }
}
