// The "slow reader" (C10 / C14 / C12 under back-pressure on the reply direction of ONE RESP connection), shared by
// the modes `conn` (in-process transport) and `binary` (real process).  No model line: the expected reply stream is
// known byte for byte (PING echoes) or field by field (THROTTLE decisions on a key of its own).
//
// One connection.  A writer thread pipelines a few hundred `PING <msg>` commands (msg 20 000 .. 60 000 bytes, every
// command below the 64 KiB connection buffer) with a small `THROTTLE` every few dozen commands - 12 .. 16 MB of
// replies in all, far more than the socket buffers hold (the client's receive buffer is fixed at 64 KiB) - while the
// reader does NOT read until the writer has made no progress for 250 ms (everything is backed up: the server sits in
// its reply write) or has finished.  Then everything is read.  The reply stream must be exactly one complete reply
// per command, in command order.
use crate::resp::{parse_with, Dec};
use crate::util::Rng;
use std::io::{Read, Write};
use std::net::{SocketAddr, TcpStream};
use std::sync::atomic::{AtomicBool, AtomicUsize, Ordering::SeqCst};
use std::sync::Arc;
use std::time::{Duration, Instant};
use throttlecrab_server::transport::redis::resp::{RespParser, RespValue};

pub enum SlowCmd {
    /// `PING <msg>`: msg = `head` followed by `len` bytes of the shared block starting at `off`
    Ping { head: String, off: usize, len: usize },
    /// the j-th `THROTTLE <key> <burst> 1 3600` on the key of this run
    Throttle { j: i64 },
}

pub struct SlowPlan {
    pub key: String,
    pub burst: i64,
    pub cmds: Vec<SlowCmd>,
    /// the whole command stream
    pub bytes: Vec<u8>,
    block: Vec<u8>,
    /// sum of the PING reply lengths
    pub ping_reply_bytes: usize,
}

impl SlowPlan {
    fn msg(&self, c: &SlowCmd) -> Vec<u8> {
        match c {
            SlowCmd::Ping { head, off, len } => {
                let mut m = head.clone().into_bytes();
                m.extend_from_slice(&self.block[*off..*off + *len]);
                m
            }
            _ => vec![],
        }
    }
    pub fn throttles(&self) -> usize {
        self.cmds.iter().filter(|c| matches!(c, SlowCmd::Throttle { .. })).count()
    }
}

fn bulk(v: &mut Vec<u8>, b: &[u8]) {
    v.extend_from_slice(format!("${}\r\n", b.len()).as_bytes());
    v.extend_from_slice(b);
    v.extend_from_slice(b"\r\n");
}

pub fn plan(rng: &mut Rng, tag: &str) -> SlowPlan {
    let block: Vec<u8> = (0..70_000).map(|_| b"abcdefghijklmnopqrstuvwxyz0123456789 :-_"[rng.below(40) as usize]).collect();
    let target = rng.range(12_000_000, 16_000_000) as usize;
    let mut p = SlowPlan { key: format!("slow-reader-{tag}"), burst: 0, cmds: vec![], bytes: vec![], block, ping_reply_bytes: 0 };
    let mut total = 0usize;
    let mut next_throttle = rng.range(3, 30) as usize;
    let mut j = 0i64;
    let mut i = 0usize;
    while total < target {
        if i == next_throttle {
            p.cmds.push(SlowCmd::Throttle { j });
            j += 1;
            next_throttle = i + rng.range(15, 60) as usize;
        } else {
            let head = format!("m{i}:");
            let len = rng.pick(&[20_000usize, 32_768, 48_000, 60_000, 0]);
            let len = if len == 0 { rng.range(20_000, 60_000) as usize } else { len } - head.len();
            let off = rng.below((p.block.len() - len) as u64) as usize;
            total += len + head.len() + 10;
            p.cmds.push(SlowCmd::Ping { head, off, len });
        }
        i += 1;
    }
    // the tail: two more decisions among the last commands, then a short sentinel
    for k in 0..4 {
        if k % 2 == 0 {
            p.cmds.push(SlowCmd::Throttle { j });
            j += 1;
        } else {
            let head = format!("m{}:", p.cmds.len());
            p.cmds.push(SlowCmd::Ping { head, off: rng.below(1000) as usize, len: 25_000 });
        }
    }
    p.cmds.push(SlowCmd::Ping { head: format!("end-of-slow-reader-{tag}"), off: 0, len: 0 });
    p.burst = j + 5;
    let mut bytes = Vec::with_capacity(total + 100_000);
    let mut ping_reply_bytes = 0usize;
    for c in &p.cmds {
        match c {
            SlowCmd::Ping { .. } => {
                let m = p.msg(c);
                bytes.extend_from_slice(b"*2\r\n$4\r\nPING\r\n");
                bulk(&mut bytes, &m);
                ping_reply_bytes += m.len() + m.len().to_string().len() + 5;
            }
            SlowCmd::Throttle { .. } => {
                bytes.extend_from_slice(b"*5\r\n$8\r\nTHROTTLE\r\n");
                bulk(&mut bytes, p.key.as_bytes());
                bulk(&mut bytes, p.burst.to_string().as_bytes());
                bytes.extend_from_slice(b":1\r\n$4\r\n3600\r\n");
            }
        }
    }
    p.bytes = bytes;
    p.ping_reply_bytes = ping_reply_bytes;
    p
}

pub struct SlowOutcome {
    pub got: Vec<u8>,
    pub written: usize,
    pub write_error: Option<String>,
    pub connect_error: Option<String>,
    /// how long the reader held back, and whether the writer was stalled by then
    pub held_ms: u128,
    pub writer_stalled: bool,
    pub total_ms: u128,
}

/// blocking; uses two OS threads of its own
pub fn run_blocking(port: u16, plan: &Arc<SlowPlan>) -> SlowOutcome {
    let t0 = Instant::now();
    let mut o = SlowOutcome { got: vec![], written: 0, write_error: None, connect_error: None, held_ms: 0, writer_stalled: false, total_ms: 0 };
    // a fixed, small receive buffer (set before connect): the replies back up into the server's send buffer
    let sock = match socket2::Socket::new(socket2::Domain::IPV4, socket2::Type::STREAM, None) {
        Ok(s) => s,
        Err(e) => {
            o.connect_error = Some(e.to_string());
            return o;
        }
    };
    let _ = sock.set_recv_buffer_size(64 * 1024);
    let addr: SocketAddr = format!("127.0.0.1:{port}").parse().unwrap();
    if let Err(e) = sock.connect(&addr.into()) {
        o.connect_error = Some(e.to_string());
        return o;
    }
    let mut rd: TcpStream = sock.into();
    let _ = rd.set_nodelay(true);
    let mut wr = match rd.try_clone() {
        Ok(w) => w,
        Err(e) => {
            o.connect_error = Some(e.to_string());
            return o;
        }
    };
    let written = Arc::new(AtomicUsize::new(0));
    let done = Arc::new(AtomicBool::new(false));
    let (w2, d2, p2) = (written.clone(), done.clone(), plan.clone());
    let writer = std::thread::spawn(move || -> Option<String> {
        let mut err = None;
        for piece in p2.bytes.chunks(32 * 1024) {
            if let Err(e) = wr.write_all(piece) {
                err = Some(e.to_string());
                break;
            }
            w2.fetch_add(piece.len(), SeqCst);
        }
        d2.store(true, SeqCst);
        err
    });
    // hold back until the writer has been stuck for 250 ms (or is done); at most 4 s
    let mut last = (written.load(SeqCst), Instant::now());
    loop {
        std::thread::sleep(Duration::from_millis(10));
        if done.load(SeqCst) {
            break;
        }
        let w = written.load(SeqCst);
        if w != last.0 {
            last = (w, Instant::now());
        } else if last.1.elapsed() >= Duration::from_millis(250) {
            o.writer_stalled = true;
            break;
        }
        if t0.elapsed() >= Duration::from_secs(4) {
            break;
        }
    }
    o.held_ms = t0.elapsed().as_millis();
    // now read everything: until the reply to the sentinel has arrived, the server closes, or nothing comes for 2 s
    let sentinel = match plan.cmds.last() {
        Some(c @ SlowCmd::Ping { .. }) => {
            let m = plan.msg(c);
            let mut v = vec![];
            bulk(&mut v, &m);
            v
        }
        _ => vec![],
    };
    let _ = rd.set_read_timeout(Some(Duration::from_millis(2000)));
    let mut buf = vec![0u8; 256 * 1024];
    let deadline = Instant::now() + Duration::from_secs(40);
    loop {
        match rd.read(&mut buf) {
            Ok(0) => break,
            Ok(n) => {
                o.got.extend_from_slice(&buf[..n]);
                if o.got.len() >= plan.ping_reply_bytes && o.got.ends_with(&sentinel) {
                    break;
                }
            }
            Err(_) => break, // timeout (2 s without a byte) or reset
        }
        if Instant::now() >= deadline {
            break;
        }
    }
    // unblock a writer that is still stuck (the server stopped reading), then collect it
    let _ = rd.shutdown(std::net::Shutdown::Both);
    o.write_error = writer.join().unwrap_or(Some("writer thread panicked".into()));
    o.written = written.load(SeqCst);
    o.total_ms = t0.elapsed().as_millis();
    o
}

pub struct SlowVerdict {
    pub what: String,
    /// a THROTTLE reply lies at or after the first bad position (it cannot be read as the decision it is)
    pub throttle_affected: bool,
}

/// None = the reply stream is exactly one complete reply per command, in order
pub fn judge(plan: &SlowPlan, o: &SlowOutcome) -> Option<SlowVerdict> {
    if let Some(e) = &o.connect_error {
        return Some(SlowVerdict { what: format!("cannot connect: {e}"), throttle_affected: false });
    }
    let got = &o.got;
    let mut off = 0usize;
    let ncmd = plan.cmds.len();
    let mut parser = RespParser::new();
    for (i, c) in plan.cmds.iter().enumerate() {
        let bad = |why: String| {
            let later_throttle = plan.cmds[i..].iter().any(|c| matches!(c, SlowCmd::Throttle { .. }));
            Some(SlowVerdict {
                what: format!(
                    "slow reader: {ncmd} pipelined commands ({} bytes, {} THROTTLE among them), reader held back {} ms (writer {}): reply {} of {ncmd} at byte {off} of the reply stream {why}; {} reply bytes received in all, {} command bytes written{}",
                    plan.bytes.len(),
                    plan.throttles(),
                    o.held_ms,
                    if o.writer_stalled { "stalled by back-pressure" } else { "finished" },
                    i + 1,
                    got.len(),
                    o.written,
                    o.write_error.as_ref().map(|e| format!(", write error: {e}")).unwrap_or_default()
                ),
                throttle_affected: later_throttle,
            })
        };
        match c {
            SlowCmd::Ping { .. } => {
                let m = plan.msg(c);
                let mut want = Vec::with_capacity(m.len() + 16);
                bulk(&mut want, &m);
                let have = &got[off.min(got.len())..(off + want.len()).min(got.len())];
                if have != &want[..] {
                    let common = have.iter().zip(&want).take_while(|(a, b)| a == b).count();
                    return bad(format!("is not the echo of the {}-byte message (a bulk string of {} bytes): the streams part {} bytes into this reply{}", m.len(), want.len(), common, if have.len() < want.len() && common == have.len() { " (the stream ends there)" } else { "" }));
                }
                off += want.len();
            }
            SlowCmd::Throttle { j } => {
                let end = (off + 200).min(got.len());
                match parse_with(&mut parser, &got[off.min(end)..end]) {
                    Dec::Ok(RespValue::Array(xs), n) => {
                        let ints: Vec<i64> = xs.iter().filter_map(|x| if let RespValue::Integer(v) = x { Some(*v) } else { None }).collect();
                        if ints.len() != 5 || xs.len() != 5 || ints[0] != 1 || ints[1] != plan.burst || ints[2] != plan.burst - 1 - j || ints[3] < 0 || ints[4] != 0 {
                            return bad(format!("is {} where THROTTLE number {} on a key of its own (burst {}) must be answered 1,{},{},_,0", crate::val::show(&RespValue::Array(xs)), j + 1, plan.burst, plan.burst, plan.burst - 1 - j));
                        }
                        off += n;
                    }
                    other => {
                        let s = other.show();
                        return bad(format!("does not decode as the 5-integer array a THROTTLE is answered with ({})", &s[..s.len().min(80)]));
                    }
                }
            }
        }
    }
    if off != got.len() {
        return Some(SlowVerdict {
            what: format!("slow reader: {} bytes follow the reply to the last of {ncmd} commands", got.len() - off),
            throttle_affected: false,
        });
    }
    None
}

/// stats + the violation records: the same finding under C10 (not exactly one reply per command in order), C14 (a
/// reply that is not one well-formed frame) and - when a THROTTLE decision can no longer be read - C12
pub fn report(out: &mut crate::util::Out, plan: &SlowPlan, o: &SlowOutcome, context: &str) {
    out.bump("slow_reader_runs");
    out.add("slow_reader_commands", plan.cmds.len() as u64);
    out.add("slow_reader_reply_bytes", o.got.len() as u64);
    out.add("slow_reader_ms", o.total_ms as u64);
    if o.writer_stalled {
        out.bump("slow_reader_runs_with_stalled_writer");
    }
    if let Some(v) = judge(plan, o) {
        let replay = vec![
            format!("# {context}"),
            format!("# one RESP connection (client receive buffer 64 KiB); a writer thread sends {} commands back to back: PING <msg of 20000..60000 bytes> and, every 15..60 commands, THROTTLE {} {} 1 3600; the reader starts reading after {} ms", plan.cmds.len(), plan.key, plan.burst, o.held_ms),
        ];
        out.violation("C10", v.what.clone(), replay.clone());
        out.violation("C14", format!("a reply is not one well-formed frame: {}", v.what), replay.clone());
        if v.throttle_affected {
            out.violation("C12", format!("a THROTTLE decision on RESP cannot be read as allowed/limit/remaining: {}", v.what), replay);
        }
    }
}
