// Text syntax of RESP values shared with the Lean driver (no spaces):
//   S<hex|->  E<hex|->  I<int>  B<hex|->  N  A[v,v,...]
use crate::util::{hex, unhex};
use throttlecrab_server::transport::redis::resp::RespValue;

pub fn hx(b: &[u8]) -> String {
    if b.is_empty() { "-".into() } else { hex(b) }
}

pub fn unhx(s: &str) -> Option<Vec<u8>> {
    if s == "-" {
        return Some(vec![]);
    }
    if s.is_empty() || s.len() % 2 != 0 || !s.bytes().all(|c| c.is_ascii_hexdigit()) {
        return None;
    }
    Some(unhex(s))
}

/// iterative-enough printer (recursion depth = nesting depth, at most ~130 here)
pub fn show(v: &RespValue) -> String {
    let mut s = String::new();
    show_into(v, &mut s);
    s
}

fn show_into(v: &RespValue, s: &mut String) {
    match v {
        RespValue::SimpleString(x) => {
            s.push('S');
            s.push_str(&hx(x.as_bytes()));
        }
        RespValue::Error(x) => {
            s.push('E');
            s.push_str(&hx(x.as_bytes()));
        }
        RespValue::Integer(n) => {
            s.push('I');
            s.push_str(&n.to_string());
        }
        RespValue::BulkString(None) => s.push('N'),
        RespValue::BulkString(Some(x)) => {
            s.push('B');
            s.push_str(&hx(x.as_bytes()));
        }
        RespValue::Array(xs) => {
            s.push_str("A[");
            for (i, x) in xs.iter().enumerate() {
                if i > 0 {
                    s.push(',');
                }
                show_into(x, s);
            }
            s.push(']');
        }
    }
}

/// parser of the text syntax (used by `replay`)
pub fn parse(s: &str) -> Option<RespValue> {
    let b = s.as_bytes();
    let (v, n) = parse_at(b, 0)?;
    if n == b.len() { Some(v) } else { None }
}

fn tok_end(b: &[u8], mut i: usize) -> usize {
    while i < b.len() && b[i] != b',' && b[i] != b']' {
        i += 1;
    }
    i
}

fn parse_at(b: &[u8], i: usize) -> Option<(RespValue, usize)> {
    if i >= b.len() {
        return None;
    }
    let str_tok = |i: usize| -> Option<(String, usize)> {
        let e = tok_end(b, i);
        let bytes = unhx(std::str::from_utf8(&b[i..e]).ok()?)?;
        Some((String::from_utf8(bytes).ok()?, e))
    };
    match b[i] {
        b'S' => str_tok(i + 1).map(|(s, e)| (RespValue::SimpleString(s), e)),
        b'E' => str_tok(i + 1).map(|(s, e)| (RespValue::Error(s), e)),
        b'B' => str_tok(i + 1).map(|(s, e)| (RespValue::BulkString(Some(s)), e)),
        b'N' => Some((RespValue::BulkString(None), i + 1)),
        b'I' => {
            let e = tok_end(b, i + 1);
            let n: i64 = std::str::from_utf8(&b[i + 1..e]).ok()?.parse().ok()?;
            Some((RespValue::Integer(n), e))
        }
        b'A' => {
            if b.get(i + 1) != Some(&b'[') {
                return None;
            }
            let mut j = i + 2;
            let mut xs = vec![];
            if b.get(j) == Some(&b']') {
                return Some((RespValue::Array(xs), j + 1));
            }
            loop {
                let (v, e) = parse_at(b, j)?;
                xs.push(v);
                match b.get(e) {
                    Some(b',') => j = e + 1,
                    Some(b']') => return Some((RespValue::Array(xs), e + 1)),
                    _ => return None,
                }
            }
        }
        _ => None,
    }
}

pub fn bulk(s: &str) -> RespValue {
    RespValue::BulkString(Some(s.to_string()))
}

/// `<upperhex|->` argument of rplan / rmetric
pub fn upper_of(v: &RespValue) -> String {
    match v {
        RespValue::Array(xs) => match xs.first() {
            Some(RespValue::BulkString(Some(c))) => hx(c.to_uppercase().as_bytes()),
            _ => "-".into(),
        },
        _ => "-".into(),
    }
}
