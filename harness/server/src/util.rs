// Shared helpers: deterministic PRNG (every random choice derives from VERIF_SEED),
// hex, time conversion, output sinks.
use std::fmt::Write as _;
use std::time::{Duration, SystemTime, UNIX_EPOCH};

#[derive(Clone)]
pub struct Rng(pub u64);

impl Rng {
    pub fn new(seed: u64) -> Self {
        Rng(seed ^ 0x9E37_79B9_7F4A_7C15)
    }
    pub fn next_u64(&mut self) -> u64 {
        self.0 = self.0.wrapping_add(0x9E37_79B9_7F4A_7C15);
        let mut z = self.0;
        z = (z ^ (z >> 30)).wrapping_mul(0xBF58_476D_1CE4_E5B9);
        z = (z ^ (z >> 27)).wrapping_mul(0x94D0_49BB_1331_11EB);
        z ^ (z >> 31)
    }
    pub fn below(&mut self, n: u64) -> u64 {
        if n == 0 { 0 } else { self.next_u64() % n }
    }
    pub fn range(&mut self, lo: i64, hi: i64) -> i64 {
        // inclusive
        if hi <= lo {
            return lo;
        }
        let span = (hi as i128 - lo as i128 + 1) as u128;
        let r = ((self.next_u64() as u128) << 64 | self.next_u64() as u128) % span;
        (lo as i128 + r as i128) as i64
    }
    pub fn chance(&mut self, num: u64, den: u64) -> bool {
        self.below(den) < num
    }
    pub fn pick<T: Clone>(&mut self, xs: &[T]) -> T {
        xs[self.below(xs.len() as u64) as usize].clone()
    }
    pub fn fork(&mut self) -> Rng {
        Rng::new(self.next_u64())
    }
}

pub fn hex(b: &[u8]) -> String {
    let mut s = String::with_capacity(b.len() * 2);
    for x in b {
        let _ = write!(s, "{x:02x}");
    }
    s
}

pub fn unhex(s: &str) -> Vec<u8> {
    (0..s.len() / 2)
        .map(|i| u8::from_str_radix(&s[2 * i..2 * i + 2], 16).unwrap())
        .collect()
}

pub fn ns_to_time(ns: i64) -> SystemTime {
    if ns >= 0 {
        UNIX_EPOCH + Duration::from_nanos(ns as u64)
    } else {
        UNIX_EPOCH - Duration::from_nanos(ns.unsigned_abs())
    }
}

pub fn wall_ns() -> i64 {
    SystemTime::now().duration_since(UNIX_EPOCH).unwrap().as_nanos() as i64
}

/// Collected output of one harness run.
#[derive(Default)]
pub struct Out {
    /// request lines for the Lean driver
    pub ops: Vec<String>,
    /// what the implementation answered for the same line
    pub imp: Vec<String>,
    /// property-level violations found on the implementation: (property, description, replay lines)
    pub viol: Vec<(String, String, Vec<String>)>,
    pub stats: std::collections::BTreeMap<String, u64>,
    pub samples: Vec<String>,
    pub distinct: std::collections::HashSet<u64>,
}

impl Out {
    pub fn line(&mut self, op: String, imp: String) {
        self.ops.push(op);
        self.imp.push(imp);
    }
    pub fn bump(&mut self, k: &str) {
        *self.stats.entry(k.to_string()).or_insert(0) += 1;
    }
    pub fn add(&mut self, k: &str, n: u64) {
        *self.stats.entry(k.to_string()).or_insert(0) += n;
    }
    pub fn violation(&mut self, prop: &str, what: String, replay: Vec<String>) {
        // keep the first few per property; count all
        self.bump(&format!("violations_{prop}"));
        if self.viol.iter().filter(|v| v.0 == prop).count() < 5 {
            self.viol.push((prop.to_string(), what, replay));
        }
    }
    pub fn note_case(&mut self, canonical: &str) {
        let mut h: u64 = 0xcbf29ce484222325;
        for b in canonical.bytes() {
            h ^= b as u64;
            h = h.wrapping_mul(0x100000001b3);
        }
        self.distinct.insert(h);
    }
    pub fn sample(&mut self, s: String) {
        if self.samples.len() < 6 {
            self.samples.push(s);
        }
    }
}

pub fn json_escape(s: &str) -> String {
    let mut o = String::new();
    for c in s.chars() {
        match c {
            '"' => o.push_str("\\\""),
            '\\' => o.push_str("\\\\"),
            '\n' => o.push_str("\\n"),
            '\r' => o.push_str("\\r"),
            '\t' => o.push_str("\\t"),
            c if (c as u32) < 0x20 => {
                let _ = write!(o, "\\u{:04x}", c as u32);
            }
            c => o.push(c),
        }
    }
    o
}
