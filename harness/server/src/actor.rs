// mode `actor`: the real actor loop + handle under a hand-rolled deterministic scheduler
// (C09 linearizability, C10 exactly-once / no deadlock / cancellation, C11 no poison request).
//
// line:  atrace <cap> <store> <ev>;<ev>;...   ->  ok <nproc>
//   <store> = periodic:<nextCleanupNs>:<intervalNs> | prob:<modulus>
//           | adaptive:<nextNs>:<minNs>:<maxNs>:<curNs>:<maxOps>
//   <ev>    = call:<client>:<idx>:<keyhex|->:<burst>:<count>:<period>:<qty>:<timestampNs>
//           | enq:<client>:<idx> | proc:<client>:<idx>:<resp> | ret:<client>:<idx>:<resp>
//           | cancel:<client>:<idx>
//   <resp>  = ok,<0|1>,<limit>,<remaining>,<resetSecs>,<retrySecs> | err
//
// No tokio runtime is involved: tokio's mpsc / oneshot only need a `Waker`.  Every task has a
// flag-setting waker; the scheduler picks among the tasks whose flag is set (= what any real
// executor may run next).  The hook log is drained after every single poll so that `enq` /
// `proc` land at their exact position in the trace.
use crate::util::*;
use crate::val::hx;
use std::collections::HashSet;
use std::future::Future;
use std::panic::{catch_unwind, AssertUnwindSafe};
use std::pin::Pin;
use std::sync::atomic::{AtomicBool, Ordering::SeqCst};
use std::sync::Arc;
use std::task::{Context, Poll, Wake, Waker};
use std::time::Duration;
use throttlecrab::{AdaptiveStore, PeriodicStore, ProbabilisticStore, RateLimiter};
use throttlecrab_server::actor::verif::{show_response, take_log, unspawned_adaptive, unspawned_periodic, unspawned_probabilistic};
use throttlecrab_server::actor::RateLimiterHandle;
use throttlecrab_server::metrics::Metrics;
use throttlecrab_server::types::{ThrottleRequest, ThrottleResponse};

pub const LATTICE: [i64; 10] = [i64::MIN, -1, 0, 1, 2, 1 << 31, (1 << 32) + 1, (1 << 53) + 1, 9223372037, i64::MAX];

#[derive(Clone, Debug)]
pub enum StoreCfg {
    Periodic { interval_ns: u64 },
    Prob { modulus: u64 },
    Adaptive { min_ns: u64, max_ns: u64, max_ops: usize },
}

pub enum BuiltStore {
    P(PeriodicStore),
    R(ProbabilisticStore),
    A(AdaptiveStore),
}

fn field(s: &str, name: &str) -> String {
    let pat = format!("{name}=");
    let i = s.find(&pat).unwrap() + pat.len();
    s[i..].split(' ').next().unwrap().to_string()
}

impl StoreCfg {
    pub fn random(rng: &mut Rng) -> StoreCfg {
        match rng.below(3) {
            0 => StoreCfg::Periodic { interval_ns: rng.pick(&[1_000_000_000u64, 60_000_000_000, 1, 0]) },
            1 => StoreCfg::Prob { modulus: rng.pick(&[1u64, 2, 3, 1000, 0]) },
            _ => {
                let (min_ns, max_ns) = rng.pick(&[(1_000_000_000u64, 300_000_000_000u64), (1_000_000, 1_000_000_000), (1, 2)]);
                StoreCfg::Adaptive { min_ns, max_ns, max_ops: rng.pick(&[1usize, 2, 7, 100_000]) }
            }
        }
    }
    pub fn build(&self) -> BuiltStore {
        match self {
            StoreCfg::Periodic { interval_ns } => BuiltStore::P(PeriodicStore::builder().capacity(1000).cleanup_interval(Duration::from_nanos(*interval_ns)).build()),
            StoreCfg::Prob { modulus } => BuiltStore::R(ProbabilisticStore::builder().capacity(1000).cleanup_probability(*modulus).build()),
            StoreCfg::Adaptive { min_ns, max_ns, max_ops } => BuiltStore::A(
                AdaptiveStore::builder()
                    .capacity(1000)
                    .min_interval(Duration::from_nanos(*min_ns))
                    .max_interval(Duration::from_nanos(*max_ns))
                    .max_operations(*max_ops)
                    .build(),
            ),
        }
    }
}

impl BuiltStore {
    /// the `<store>` token of atrace lines (scheduling state BEFORE the store is used)
    pub fn token(&self) -> String {
        match self {
            BuiltStore::P(s) => {
                let t = s.verif_sched_state();
                format!("periodic:{}:{}", field(&t, "next"), field(&t, "interval"))
            }
            BuiltStore::R(s) => {
                let t = s.verif_sched_state();
                format!("prob:{}", field(&t, "mod"))
            }
            BuiltStore::A(s) => {
                let t = s.verif_sched_state();
                format!("adaptive:{}:{}:{}:{}:{}", field(&t, "next"), field(&t, "min"), field(&t, "max"), field(&t, "cur"), field(&t, "maxops"))
            }
        }
    }
}

#[derive(Clone, Debug, PartialEq)]
pub struct Req {
    pub key: String,
    pub b: i64,
    pub c: i64,
    pub p: i64,
    pub q: i64,
    pub ts: i64,
}

impl Req {
    pub fn id(&self) -> String {
        format!("{}:{}:{}:{}:{}:{}", hx(self.key.as_bytes()), self.b, self.c, self.p, self.q, self.ts)
    }
    fn to_real(&self) -> ThrottleRequest {
        ThrottleRequest { key: self.key.clone(), max_burst: self.b, count_per_period: self.c, period: self.p, quantity: self.q, timestamp: ns_to_time(self.ts) }
    }
}

/// the library, called directly: the reference the actor's answers are replayed against
pub fn library_answer(l: &mut LibLimiter, r: &Req) -> String {
    let t = ns_to_time(r.ts);
    let res = catch_unwind(AssertUnwindSafe(|| match l {
        LibLimiter::P(x) => x.rate_limit(&r.key, r.b, r.c, r.p, r.q, t),
        LibLimiter::R(x) => x.rate_limit(&r.key, r.b, r.c, r.p, r.q, t),
        LibLimiter::A(x) => x.rate_limit(&r.key, r.b, r.c, r.p, r.q, t),
    }));
    match res {
        Ok(Ok((allowed, x))) => format!("ok,{},{},{},{},{}", allowed as u8, x.limit, x.remaining, x.reset_after.as_secs() as i64, x.retry_after.as_secs() as i64),
        Ok(Err(_)) => "err".into(),
        Err(_) => "panic".into(),
    }
}

pub enum LibLimiter {
    P(RateLimiter<PeriodicStore>),
    R(RateLimiter<ProbabilisticStore>),
    A(RateLimiter<AdaptiveStore>),
}

impl LibLimiter {
    pub fn new(cfg: &StoreCfg) -> LibLimiter {
        match cfg.build() {
            BuiltStore::P(s) => LibLimiter::P(RateLimiter::new(s)),
            BuiltStore::R(s) => LibLimiter::R(RateLimiter::new(s)),
            BuiltStore::A(s) => LibLimiter::A(RateLimiter::new(s)),
        }
    }
}

// ----------------------------------------------------------------------------------------
// executor
// ----------------------------------------------------------------------------------------
struct Flag(AtomicBool);
impl Wake for Flag {
    fn wake(self: Arc<Self>) {
        self.0.store(true, SeqCst);
    }
    fn wake_by_ref(self: &Arc<Self>) {
        self.0.store(true, SeqCst);
    }
}

type ThrottleFut = Pin<Box<dyn Future<Output = anyhow::Result<ThrottleResponse>>>>;

struct Client {
    program: Vec<Req>,
    next: usize,
    cur: Option<ThrottleFut>,
    flag: Arc<Flag>,
}

#[derive(Clone, Copy, Debug, PartialEq)]
enum Choice {
    Actor,
    Client(usize),
    Cancel(usize),
}

#[derive(Clone, Debug)]
pub struct Scenario {
    pub cap: usize,
    pub store: StoreCfg,
    pub programs: Vec<Vec<Req>>,
    /// extra client started when all others are done (C11 probe)
    pub probe: Option<Req>,
    pub kind: &'static str,
}

pub struct RunResult {
    pub store_token: String,
    pub events: Vec<String>,
    /// (client, idx, resp) in processing order
    pub procs: Vec<(usize, usize, String)>,
    pub rets: Vec<(usize, usize, String)>,
    pub cancels: Vec<(usize, usize)>,
    pub deadlock: bool,
    pub panicked: Option<String>,
    /// number of options at each scheduling point and the option taken
    pub decisions: Vec<(usize, usize)>,
    pub hook_mismatch: Option<String>,
}

/// how the next step is chosen
pub enum Policy<'a> {
    /// follow `prefix`, then always option 0 (exhaustive enumeration re-executes from scratch)
    Prefix(&'a [usize]),
    Random(&'a mut Rng, /* cancel per-mille */ u64),
}

pub fn execute(sc: &Scenario, mut policy: Policy, cancel_budget: usize) -> RunResult {
    take_log();
    let built = sc.store.build();
    let store_token = built.token();
    let metrics = Arc::new(Metrics::builder().max_denied_keys(0).build());
    let (handle, actor_fut): (RateLimiterHandle, Pin<Box<dyn Future<Output = ()>>>) = match built {
        BuiltStore::P(s) => {
            let (h, f) = unspawned_periodic(sc.cap, s, metrics);
            (h, Box::pin(f))
        }
        BuiltStore::R(s) => {
            let (h, f) = unspawned_probabilistic(sc.cap, s, metrics);
            (h, Box::pin(f))
        }
        BuiltStore::A(s) => {
            let (h, f) = unspawned_adaptive(sc.cap, s, metrics);
            (h, Box::pin(f))
        }
    };
    let mut actor: Option<Pin<Box<dyn Future<Output = ()>>>> = Some(actor_fut);
    let actor_flag = Arc::new(Flag(AtomicBool::new(true)));
    let mut clients: Vec<Client> = sc
        .programs
        .iter()
        .map(|p| Client { program: p.clone(), next: 0, cur: None, flag: Arc::new(Flag(AtomicBool::new(true))) })
        .collect();
    let mut res = RunResult {
        store_token,
        events: vec![],
        procs: vec![],
        rets: vec![],
        cancels: vec![],
        deadlock: false,
        panicked: None,
        decisions: vec![],
        hook_mismatch: None,
    };
    // requests enqueued and not yet processed, in enqueue order: (client, idx, id)
    let mut queued: Vec<(usize, usize, String)> = vec![];
    let mut cancels_left = cancel_budget;
    let mut probe_started = sc.probe.is_none();
    let mut step = 0usize;

    // drain the hook log after a poll of `who` (Some(client) or None = actor)
    fn drain(who: Option<usize>, clients: &[Client], queued: &mut Vec<(usize, usize, String)>, res: &mut RunResult) {
        for l in take_log() {
            if let Some(id) = l.strip_prefix("enq ") {
                match who {
                    Some(c) => {
                        let idx = clients[c].next;
                        let want = clients[c].program[idx].id();
                        if want != id {
                            res.hook_mismatch = Some(format!("enq {id} logged while client {c} was sending {want}"));
                        }
                        queued.push((c, idx, id.to_string()));
                        res.events.push(format!("enq:{c}:{idx}"));
                    }
                    None => res.hook_mismatch = Some(format!("enq {id} logged during an actor poll")),
                }
            } else if let Some(body) = l.strip_prefix("proc ") {
                let (id, resp) = body.split_once(" -> ").unwrap();
                match queued.iter().position(|q| q.2 == id) {
                    Some(pos) => {
                        let (c, idx, _) = queued.remove(pos);
                        res.events.push(format!("proc:{c}:{idx}:{resp}"));
                        res.procs.push((c, idx, resp.to_string()));
                    }
                    None => res.hook_mismatch = Some(format!("proc {id} for a request that was never enqueued")),
                }
            }
        }
    }

    loop {
        step += 1;
        if step > 100_000 {
            res.deadlock = true;
            break;
        }
        let all_done = clients.iter().all(|c| c.cur.is_none() && c.next >= c.program.len());
        if all_done && !probe_started {
            probe_started = true;
            clients.push(Client { program: vec![sc.probe.clone().unwrap()], next: 0, cur: None, flag: Arc::new(Flag(AtomicBool::new(true))) });
            continue;
        }
        if all_done {
            break;
        }
        // options
        let mut opts: Vec<Choice> = vec![];
        if actor.is_some() && actor_flag.0.load(SeqCst) {
            opts.push(Choice::Actor);
        }
        for (i, c) in clients.iter().enumerate() {
            let startable = c.cur.is_none() && c.next < c.program.len();
            if startable || (c.cur.is_some() && c.flag.0.load(SeqCst)) {
                opts.push(Choice::Client(i));
            }
        }
        if opts.is_empty() {
            res.deadlock = true;
            break;
        }
        let n_poll = opts.len();
        if cancels_left > 0 {
            for (i, c) in clients.iter().enumerate() {
                // (the C11 probe client is never abandoned: its answer is the observation)
                if i < sc.programs.len() && (c.cur.is_some() || c.next < c.program.len()) {
                    opts.push(Choice::Cancel(i));
                }
            }
        }
        let pick = match &mut policy {
            Policy::Prefix(p) => {
                let k = res.decisions.len();
                if k < p.len() { p[k].min(opts.len() - 1) } else { 0 }
            }
            Policy::Random(rng, permille) => {
                if opts.len() > n_poll && rng.below(1000) < *permille {
                    n_poll + rng.below((opts.len() - n_poll) as u64) as usize
                } else {
                    rng.below(n_poll as u64) as usize
                }
            }
        };
        res.decisions.push((opts.len(), pick));
        match opts[pick] {
            Choice::Actor => {
                actor_flag.0.store(false, SeqCst);
                let w = Waker::from(actor_flag.clone());
                let mut cx = Context::from_waker(&w);
                let fut = actor.as_mut().unwrap();
                let r = catch_unwind(AssertUnwindSafe(|| fut.as_mut().poll(&mut cx)));
                match r {
                    Ok(Poll::Pending) => {}
                    Ok(Poll::Ready(())) => {
                        actor = None;
                    }
                    Err(_) => {
                        res.panicked = Some("the actor task panicked".into());
                        actor = None; // unwinding drops the receiver, like a dead tokio task
                    }
                }
                drain(None, &clients, &mut queued, &mut res);
            }
            Choice::Client(i) => {
                if clients[i].cur.is_none() {
                    let idx = clients[i].next;
                    let rq = clients[i].program[idx].clone();
                    res.events.push(format!("call:{i}:{idx}:{}", rq.id()));
                    let h = handle.clone();
                    let real = rq.to_real();
                    clients[i].cur = Some(Box::pin(async move { h.throttle(real).await }));
                }
                clients[i].flag.0.store(false, SeqCst);
                let w = Waker::from(clients[i].flag.clone());
                let mut cx = Context::from_waker(&w);
                let fut = clients[i].cur.as_mut().unwrap();
                let r = catch_unwind(AssertUnwindSafe(|| fut.as_mut().poll(&mut cx)));
                drain(Some(i), &clients, &mut queued, &mut res);
                match r {
                    Ok(Poll::Pending) => {}
                    Ok(Poll::Ready(resp)) => {
                        let idx = clients[i].next;
                        let s = show_response(&resp);
                        res.events.push(format!("ret:{i}:{idx}:{s}"));
                        res.rets.push((i, idx, s));
                        clients[i].cur = None;
                        clients[i].next += 1;
                    }
                    Err(_) => {
                        res.panicked = Some(format!("throttle() of client {i} panicked"));
                        clients[i].cur = None;
                        clients[i].next += 1;
                    }
                }
            }
            Choice::Cancel(i) => {
                cancels_left -= 1;
                let idx = clients[i].next;
                if clients[i].cur.is_none() {
                    // created and dropped without ever being polled
                    let rq = clients[i].program[idx].clone();
                    res.events.push(format!("call:{i}:{idx}:{}", rq.id()));
                    let h = handle.clone();
                    let real = rq.to_real();
                    let f: ThrottleFut = Box::pin(async move { h.throttle(real).await });
                    drop(f);
                } else {
                    clients[i].cur = None; // drops the pending future
                }
                drain(Some(i), &clients, &mut queued, &mut res);
                res.events.push(format!("cancel:{i}:{idx}"));
                res.cancels.push((i, idx));
                clients[i].next += 1;
            }
        }
    }
    // final drain: requests that were enqueued and then abandoned are still processed
    if let Some(fut) = actor.as_mut() {
        if actor_flag.0.load(SeqCst) {
            let w = Waker::from(actor_flag.clone());
            let mut cx = Context::from_waker(&w);
            if catch_unwind(AssertUnwindSafe(|| fut.as_mut().poll(&mut cx))).is_err() {
                res.panicked = Some("the actor task panicked".into());
            }
            drain(None, &clients, &mut queued, &mut res);
        }
    }
    drop(clients);
    drop(handle);
    drop(actor);
    take_log();
    res
}

// ----------------------------------------------------------------------------------------
// scenarios
// ----------------------------------------------------------------------------------------
fn base_ts(rng: &mut Rng) -> i64 {
    if rng.chance(1, 2) {
        // in the past of every store's first sweep deadline: no sweep ever
        1_700_000_000_000_000_000
    } else {
        // beyond every sweep deadline (stores are built "now"): sweeps do run
        2_524_608_000_000_000_000 // 2050-01-01T00:00:00Z
    }
}

/// (count_per_period, period in s): count != period in 13 of 16, emission intervals (period / count) from
/// 0.1 s to 60 s, on both sides of one second, several of them not a whole number of nanoseconds
pub const RATES: [(i64, i64); 16] = [(7, 3), (120, 60), (1, 5), (3, 1), (2, 1), (10, 1), (3, 2), (5, 2), (1, 2), (1, 10), (3, 10), (2, 100), (60, 3600), (1, 1), (2, 2), (60, 60)];

fn gen_programs(rng: &mut Rng, nclients: usize, nreq: usize, invalid_pct: u64) -> Vec<Vec<Req>> {
    let base = base_ts(rng);
    let keys = ["a", "b", "é"];
    let nkeys = rng.range(1, 3) as usize;
    let b = rng.range(1, 3);
    // the rate of the scenario: two times in three from RATES, else count 1..3 per 1 | 2 | 10 | 100 s
    let (c, p) = if rng.chance(2, 3) { rng.pick(&RATES) } else { (rng.range(1, 3), rng.pick(&[1i64, 2, 10, 100])) };
    let mut t = base;
    let mode = rng.below(4); // 0 all equal, 1 increasing, 2 mixed, 3 non-monotone
    let mut progs = vec![vec![]; nclients];
    for i in 0..nreq {
        for (ci, prog) in progs.iter_mut().enumerate() {
            let ts = match mode {
                0 => base,
                1 => {
                    // steps below and above one second: a denied request then has to wait less than a second
                    // (retry_after truncates to 0 s) as well as 2 s and more
                    t += rng.pick(&[0i64, 1, 100_000_000, 250_000_000, 500_000_000, 900_000_000, 1_000_000_000, 1_500_000_000, 2_000_000_000, 7_000_000_000]);
                    t
                }
                2 => base + rng.pick(&[0i64, 0, 400_000_000, 1_000_000_000, 2_500_000_000, 3_000_000_000]) * (i as i64 + 1),
                _ => base + rng.range(0, 5_000_000_000),
            };
            let mut r = Req { key: keys[rng.below(nkeys as u64) as usize].to_string(), b, c, p, q: rng.pick(&[1i64, 1, 1, 1, 0, 2]), ts };
            if rng.below(100) < invalid_pct {
                match rng.below(4) {
                    0 => r.b = rng.pick(&[0i64, -1]),
                    1 => r.c = 0,
                    2 => r.p = rng.pick(&[0i64, -5]),
                    _ => r.q = -1,
                }
            }
            if rng.chance(1, 10) {
                r.b = rng.range(1, 3);
            }
            if rng.chance(1, 6) {
                // another rate on the same keys (each request carries its own parameters)
                let (c2, p2) = rng.pick(&RATES);
                r.c = c2;
                r.p = p2;
            }
            let _ = ci;
            prog.push(r);
        }
    }
    progs
}

fn emit(sc: &Scenario, r: &RunResult, out: &mut Out, seen: &mut HashSet<u64>) -> String {
    let line = format!("atrace {} {} {}", sc.cap, r.store_token, r.events.join(";"));
    // the store token contains the wall-clock sweep deadline: hash without it
    let mut h: u64 = 0xcbf29ce484222325;
    for b in format!("{:?}{}{}", sc.store, sc.cap, r.events.join(";")).bytes() {
        h ^= b as u64;
        h = h.wrapping_mul(0x100000001b3);
    }
    if seen.insert(h) {
        out.line(line.clone(), format!("ok {}", r.procs.len()));
        out.distinct.insert(h);
    } else {
        out.bump("duplicate_traces_not_emitted");
    }
    line
}

fn judge(sc: &Scenario, r: &RunResult, line: &str, out: &mut Out) {
    out.bump("schedules");
    out.add("scheduling_points", r.decisions.len() as u64);
    let replay = vec![line.to_string()];
    if let Some(m) = &r.hook_mismatch {
        out.violation("C10", format!("event log inconsistent: {m}"), replay.clone());
    }
    if let Some(p) = &r.panicked {
        out.violation("C11", p.clone(), replay.clone());
    }
    if r.deadlock {
        out.violation("C10", "no task can make progress although a client is unfinished (deadlock)".into(), replay.clone());
        return;
    }
    let mut programs = sc.programs.clone();
    if let Some(p) = &sc.probe {
        programs.push(vec![p.clone()]);
    }
    // C10: exactly one ret per non-cancelled request, equal to its proc response
    for (ci, prog) in programs.iter().enumerate() {
        for idx in 0..prog.len() {
            let cancelled = r.cancels.contains(&(ci, idx));
            let rets: Vec<&String> = r.rets.iter().filter(|x| x.0 == ci && x.1 == idx).map(|x| &x.2).collect();
            let procs: Vec<&String> = r.procs.iter().filter(|x| x.0 == ci && x.1 == idx).map(|x| &x.2).collect();
            if procs.len() > 1 {
                out.violation("C10", format!("request {ci}:{idx} processed {} times", procs.len()), replay.clone());
            }
            if cancelled {
                if !rets.is_empty() {
                    out.violation("C10", format!("cancelled request {ci}:{idx} returned"), replay.clone());
                }
                continue;
            }
            if rets.len() != 1 || procs.len() != 1 {
                out.violation("C10", format!("request {ci}:{idx}: {} responses, {} limiter calls (want exactly one each)", rets.len(), procs.len()), replay.clone());
            } else if rets[0] != procs[0] {
                out.violation("C10", format!("request {ci}:{idx} was answered {} but the limiter decided {}", rets[0], procs[0]), replay.clone());
            }
        }
    }
    // proc order extends each client's program order
    for ci in 0..programs.len() {
        let idxs: Vec<usize> = r.procs.iter().filter(|x| x.0 == ci).map(|x| x.1).collect();
        if idxs.windows(2).any(|w| w[0] >= w[1]) {
            out.violation("C09", format!("client {ci}'s requests were processed out of program order: {idxs:?}"), replay.clone());
        }
    }
    // C09: the processing order is a sequential history of the library
    let mut lib = LibLimiter::new(&sc.store);
    for (ci, idx, resp) in &r.procs {
        let want = library_answer(&mut lib, &programs[*ci][*idx]);
        if &want != resp {
            out.violation(
                "C09",
                format!("request {ci}:{idx} answered {resp}; the library applied to the same requests in processing order answers {want}"),
                replay.clone(),
            );
            break;
        }
    }
    out.add("procs", r.procs.len() as u64);
    out.add("cancels", r.cancels.len() as u64);
    // what was exercised, per store kind
    let sk = match sc.store {
        StoreCfg::Periodic { .. } => "periodic",
        StoreCfg::Prob { .. } => "prob",
        StoreCfg::Adaptive { .. } => "adaptive",
    };
    for (ci, idx, resp) in &r.procs {
        let rq = &programs[*ci][*idx];
        if rq.c > 0 && rq.p > 0 {
            out.bump(&format!("{sk}_requests_{}", if rq.c == rq.p { "count_eq_period" } else if rq.p < rq.c { "interval_below_1s" } else { "interval_above_1s" }));
        }
        if let Some(rest) = resp.strip_prefix("ok,0,") {
            let retry: i64 = rest.rsplit(',').next().and_then(|x| x.parse().ok()).unwrap_or(-1);
            out.bump(&format!("{sk}_denials_retry_{}", if retry == 0 { "0s" } else if retry == 1 { "1s" } else { "2s_or_more" }));
        }
    }
    if r.procs.iter().any(|p| p.2.starts_with("ok,0")) {
        out.bump("schedules_with_denials");
    }
    match sc.kind {
        "race" => {
            // N same-timestamp unit requests on one fresh key with burst B admit min(N,B)
            let nreq = r.procs.len() as i64;
            let b = sc.programs[0][0].b;
            let admitted = r.procs.iter().filter(|p| p.2.starts_with("ok,1")).count() as i64;
            if r.cancels.is_empty() && admitted != nreq.min(b) {
                out.violation("C09", format!("{nreq} simultaneous unit requests, burst {b}: {admitted} admitted, want {}", nreq.min(b)), replay.clone());
            }
        }
        "inversion" => {
            // witness of the known finding C09-stamp-inversion: three unit requests on one fresh key, burst 2, stamped
            // 20, 10 and 0 ns after a base instant by three clients (each transport stamps before it queues).  Whenever
            // the limiter happens to process the latest-stamped one first, the two stamped earlier are refused the second
            // token of the burst (denied, wait of nanoseconds): 1 admitted where min(3, 2) = 2 is wanted.  The answers
            // still equal those of one limiter fed the same stamped requests in processing order (the model line agrees).
            let admitted = r.procs.iter().filter(|p| p.2.starts_with("ok,1")).count() as i64;
            if r.cancels.is_empty() && r.procs.len() == 3 && admitted < 2 {
                out.violation("KNOWN-C09-stamp-inversion", format!("3 unit requests on a fresh key, burst 2, 1 per 86400 s, stamped 20 / 10 / 0 ns after the same instant, processed latest-stamped first: {admitted} admitted, min(3, 2) = 2 wanted"), replay.clone());
            }
            if admitted > 2 {
                out.violation("C09", format!("3 unit requests on a fresh key with burst 2: {admitted} admitted"), replay.clone());
            }
        }
        "family" => {
            // distinct keys have independent budgets: with equal timestamps (no refill) every key admits
            // min(number of unit requests on it, burst), whatever the keys have in common
            let b = sc.programs[0][0].b;
            let mut per_key: std::collections::BTreeMap<&str, (i64, i64)> = Default::default();
            for (ci, idx, resp) in &r.procs {
                let e = per_key.entry(programs[*ci][*idx].key.as_str()).or_insert((0, 0));
                e.0 += 1;
                if resp.starts_with("ok,1") {
                    e.1 += 1;
                }
            }
            if r.cancels.is_empty() {
                for (k, (nreq, admitted)) in per_key {
                    if admitted != nreq.min(b) {
                        out.violation(
                            "C09",
                            format!("{nreq} unit requests at one timestamp on a key of {} bytes, burst {b}: {admitted} admitted, want {} (the scenario's {} distinct keys share a long prefix)", k.len(), nreq.min(b), sc.programs.iter().flatten().map(|r| &r.key).collect::<HashSet<_>>().len()),
                            replay.iter().map(|l| if l.len() > 800 { format!("{}...", &l[..800]) } else { l.clone() }).collect(),
                        );
                        break;
                    }
                }
            }
        }
        "hostile" | "hostilekeys" => {
            let pc = programs.len() - 1;
            let got = r.rets.iter().find(|x| x.0 == pc).map(|x| x.2.clone()).unwrap_or("none".into());
            if !got.starts_with("ok,1,") {
                out.violation("C11", format!("after a hostile prefix the probe on a fresh key is answered {got}"), replay.clone());
            }
        }
        _ => {}
    }
}

fn exhaustive(sc: &Scenario, cancel_budget: usize, limit: usize, out: &mut Out) {
    let mut prefix: Vec<usize> = vec![];
    let mut seen = HashSet::new();
    let mut count = 0usize;
    loop {
        let r = execute(sc, Policy::Prefix(&prefix), cancel_budget);
        let line = emit(sc, &r, out, &mut seen);
        judge(sc, &r, &line, out);
        count += 1;
        // next schedule in lexicographic order
        let mut d: Vec<(usize, usize)> = r.decisions.clone();
        loop {
            match d.pop() {
                None => {
                    out.bump("exhaustive_configs_completed");
                    out.add("exhaustive_schedules", count as u64);
                    return;
                }
                Some((n, k)) => {
                    if k + 1 < n {
                        prefix = d.iter().map(|x| x.1).collect();
                        prefix.push(k + 1);
                        break;
                    }
                }
            }
        }
        if count >= limit {
            out.bump("exhaustive_configs_truncated");
            out.add("exhaustive_schedules", count as u64);
            return;
        }
    }
}

pub fn run(seed: u64, n: usize, out: &mut Out) {
    // the actor's `debug!` / `trace!` arguments are only evaluated when a subscriber enables those levels
    crate::conn::install_trace_capture();
    let mut rng = Rng::new(seed);
    let limit = (n * 30).max(50);
    // --- exhaustive: small configurations
    let shapes: [(usize, usize, usize, usize); 8] = [
        // clients, requests each, cap, cancel budget
        (2, 1, 1, 0),
        (2, 1, 1, 1),
        (2, 2, 1, 0),
        (2, 2, 2, 0),
        (3, 1, 1, 0),
        (3, 1, 2, 1),
        (2, 2, 1, 1),
        (3, 2, 1, 0),
    ];
    for (nc, nr, cap, cb) in shapes {
        // variant 0 = the race shape on the periodic store; 1, 2, 3 = generated programs on the probabilistic,
        // adaptive and periodic store
        for variant in 0..4 {
            let store = match variant {
                0 | 3 => StoreCfg::Periodic { interval_ns: 1_000_000_000 },
                1 => StoreCfg::Prob { modulus: 2 },
                _ => StoreCfg::Adaptive { min_ns: 1_000_000_000, max_ns: 300_000_000_000, max_ops: 2 },
            };
            let sc = if variant == 0 {
                // the race shape: same key, same timestamp, unit requests, burst below the client count
                let ts = 1_700_000_000_000_000_000;
                let b = rng.range(1, nc as i64);
                Scenario {
                    cap,
                    store,
                    programs: (0..nc).map(|_| (0..nr).map(|_| Req { key: "race".into(), b, c: 1, p: 86400, q: 1, ts }).collect()).collect(),
                    probe: None,
                    kind: "race",
                }
            } else {
                // (these few configurations are each run under thousands of schedules: take programs in which
                // count_per_period != period for most requests)
                let programs = loop {
                    let p = gen_programs(&mut rng, nc, nr, 10);
                    if p.iter().flatten().filter(|r| r.c != r.p).count() * 2 > nc * nr {
                        break p;
                    }
                };
                Scenario { cap, store, programs, probe: None, kind: "small" }
            };
            exhaustive(&sc, cb, limit, out);
        }
    }
    // --- random schedules of larger configurations
    let mut seen = HashSet::new();
    for i in 0..n * 20 {
        let nc = rng.range(2, 8) as usize;
        let nr = rng.range(1, 5) as usize;
        let cap = rng.range(1, 4) as usize;
        let store = StoreCfg::random(&mut rng);
        let sc = match i % 5 {
            0 => {
                let base = base_ts(&mut rng);
                let b = rng.range(1, nc as i64 + 1);
                // refill is nil at equal timestamps; burst x period stays far inside i64 nanoseconds
                let p = rng.pick(&[86400i64, 1 << 20, 1]);
                Scenario {
                    cap,
                    store,
                    programs: (0..nc).map(|_| vec![Req { key: "race".into(), b, c: 1, p, q: 1, ts: base }]).collect(),
                    probe: None,
                    kind: "race",
                }
            }
            1 => {
                // hostile prefix, then a probe
                let base = base_ts(&mut rng);
                let programs: Vec<Vec<Req>> = (0..nc)
                    .map(|ci| {
                        (0..nr)
                            .map(|k| Req {
                                key: rng.pick(&["a", "b", "", "h"]).to_string(),
                                b: rng.pick(&LATTICE),
                                c: rng.pick(&LATTICE),
                                p: rng.pick(&LATTICE),
                                q: if rng.chance(1, 2) { 1 } else { rng.pick(&LATTICE) },
                                ts: base + (ci * 7 + k) as i64 * 1_000_000_000,
                            })
                            .collect()
                    })
                    .collect();
                let probe = Req { key: format!("probe{i}"), b: 2, c: 1, p: 60, q: 1, ts: base + 100_000_000_000 };
                Scenario { cap, store, programs, probe: Some(probe), kind: "hostile" }
            }
            _ => Scenario { cap, store, programs: gen_programs(&mut rng, nc, nr, 8), probe: None, kind: "random" },
        };
        let with_cancel = i % 3 == 0 && sc.kind != "race";
        let mut r2 = rng.fork();
        let r = execute(&sc, Policy::Random(&mut r2, if with_cancel { 60 } else { 0 }), if with_cancel { 3 } else { 0 });
        let line = emit(&sc, &r, out, &mut seen);
        judge(&sc, &r, &line, out);
        out.bump(&format!("random_{}", sc.kind));
        if out.samples.len() < 3 && line.len() < 600 {
            out.sample(line.clone());
        }
    }
    // --- the witness of known finding C09-stamp-inversion (see `judge`): a handful of random schedules of one fixed shape
    {
        let base = base_ts(&mut rng);
        let sc = Scenario {
            cap: 4,
            store: StoreCfg::Periodic { interval_ns: 60_000_000_000 },
            programs: (0..3).map(|ci| vec![Req { key: "inversion".into(), b: 2, c: 1, p: 86400, q: 1, ts: base + (2 - ci as i64) * 10 }]).collect(),
            probe: None,
            kind: "inversion",
        };
        for _ in 0..24 {
            let mut r2 = rng.fork();
            let r = execute(&sc, Policy::Random(&mut r2, 0), 0);
            let line = emit(&sc, &r, out, &mut seen);
            judge(&sc, &r, &line, out);
            out.bump("inversion_witness_schedules");
        }
    }
    // --- families of distinct LONG keys sharing a long prefix (C09: one bucket per key, whatever its length)
    for i in 0..(n / 4).max(3) {
        let prefix = crate::cmd::FAMILY_PREFIXES[i % 5];
        let multibyte = (i / 5) % 2 == 1;
        // the longest keys (and the longest lines) only now and then
        let max_len = if i % 5 >= 3 || i % 7 == 6 { 60_000 } else { 4_000 };
        let fam = crate::cmd::prefix_family(&mut rng, &format!("af{i}_"), prefix, multibyte, max_len);
        let base = base_ts(&mut rng);
        let b = rng.range(1, 3);
        let p = rng.pick(&[86400i64, 1 << 20, 3600]);
        let cap = rng.range(1, 4) as usize;
        let store = StoreCfg::random(&mut rng);
        let req = |key: &String| Req { key: key.clone(), b, c: 1, p, q: 1, ts: base };
        let programs: Vec<Vec<Req>> = if i % 2 == 0 {
            // one client per key: each sends burst + 1 requests on its own key
            fam.keys.iter().map(|k| (0..b + 1).map(|_| req(k)).collect()).collect()
        } else {
            // client 0 exhausts the first key, then the others race on the siblings (N requests, one client each)
            let mut ps: Vec<Vec<Req>> = vec![(0..b + 1).map(|_| req(&fam.keys[0])).collect()];
            for k in &fam.keys[1..] {
                for _ in 0..rng.range(1, 3) {
                    ps.push(vec![req(k)]);
                }
            }
            ps
        };
        let sc = Scenario { cap, store, programs, probe: None, kind: "family" };
        let mut r2 = rng.fork();
        let r = execute(&sc, Policy::Random(&mut r2, 0), 0);
        let line = emit(&sc, &r, out, &mut seen);
        judge(&sc, &r, &line, out);
        out.bump("random_family");
        out.add("family_key_bytes", fam.keys.iter().map(|k| k.len() as u64).sum());
    }
    // --- hostile KEYS with requests the limiter rejects, allows and denies, then a probe (C11; TRACE logging is on)
    for i in 0..(n / 2).max(4) {
        let offs = [crate::cmd::STRADDLE_OFFSETS[i % 8], crate::cmd::STRADDLE_OFFSETS[(i + 3) % 8]];
        let tag = format!("ah{}_", i % 1000);
        let mut keys: Vec<String> = crate::cmd::straddle_keys(&tag, &offs).into_iter().map(|x| x.1).collect();
        keys.extend(crate::cmd::hostile_keys(&tag, (i % 1000) as u32).into_iter().map(|x| x.1));
        let base = base_ts(&mut rng);
        let nc = rng.range(2, 4) as usize;
        let mut all: Vec<Req> = vec![];
        for k in &keys {
            for (b, c, p, q) in crate::cmd::REJECTED {
                all.push(Req { key: k.clone(), b, c, p, q, ts: base });
            }
            // allowed, then denied
            all.push(Req { key: k.clone(), b: 1, c: 1, p: 3600, q: 1, ts: base });
            all.push(Req { key: k.clone(), b: 1, c: 1, p: 3600, q: 1, ts: base });
        }
        // a seed-chosen third of them, dealt to the clients
        let mut programs: Vec<Vec<Req>> = vec![vec![]; nc];
        for (j, r) in all.into_iter().enumerate() {
            if rng.chance(1, 3) {
                programs[j % nc].push(r);
            }
        }
        programs.retain(|p| !p.is_empty());
        if programs.is_empty() {
            continue;
        }
        let probe = Req { key: format!("probe-hk{i}"), b: 2, c: 1, p: 60, q: 1, ts: base + 100_000_000_000 };
        let sc = Scenario { cap: rng.range(1, 4) as usize, store: StoreCfg::random(&mut rng), programs, probe: Some(probe), kind: "hostilekeys" };
        let mut r2 = rng.fork();
        let r = execute(&sc, Policy::Random(&mut r2, 0), 0);
        let line = emit(&sc, &r, out, &mut seen);
        judge(&sc, &r, &line, out);
        out.bump("random_hostilekeys");
    }
    // --- the hostile numeric lattice (`cmd::extreme_requests`: 2^31, 2^32, 2^33, 3 x 2^32, 2^53, 2^63-1, ... in EACH of
    // max_burst, count_per_period, period, quantity, one field extreme at a time, plus all-extreme combinations), a
    // quarter of it per scenario in turn, dealt to 1..3 clients, then a probe client on a fresh key (C11)
    let ext = crate::cmd::extreme_requests();
    for i in 0..(n / 10).max(4) {
        let base = base_ts(&mut rng);
        let nc = rng.range(1, 3) as usize;
        let mut programs: Vec<Vec<Req>> = vec![vec![]; nc];
        for (j, (field, b, c, p, q)) in ext.iter().enumerate() {
            if j % 4 == i % 4 {
                programs[(j / 4) % nc].push(Req { key: format!("x{i}_{field}"), b: *b, c: *c, p: *p, q: *q, ts: base + (j as i64) * 1_000_000_000 });
            }
        }
        programs.retain(|p| !p.is_empty());
        let probe = Req { key: format!("probe-x{i}"), b: 2, c: 1, p: 60, q: 1, ts: base + 100_000_000_000 };
        let sc = Scenario { cap: rng.range(1, 4) as usize, store: StoreCfg::random(&mut rng), programs, probe: Some(probe), kind: "hostile" };
        let mut r2 = rng.fork();
        let r = execute(&sc, Policy::Random(&mut r2, 0), 0);
        let line = emit(&sc, &r, out, &mut seen);
        judge(&sc, &r, &line, out);
        out.bump("random_hostilenums");
    }
}
