// `tcv-server replay --file F`: re-execute op lines against the real code and print
// `<line> -> <implementation answer>`.  `# comment` suffixes and indentation are ignored.
//
// executable in-process: rdec renc rplan (prints the rfinish / rmetric lines it entails as well,
// against a FRESH actor, so a denied answer needs the preceding rplan lines of the same key in
// the file) rconn mrun esc tclamp.  Lines that record an observation of a past execution
// (rfinish, rmetric, tstep, treport, atrace, atrace-loose, mtab) are echoed as `not re-executable`.
use crate::cmd::exec_command;
use crate::conn::{free_port, install_trace_capture, run_conn, wait_port};
use crate::metrics::{esc_answer, mrun_answer, tclamp_answer};
use crate::resp::{dec, enc};
use crate::val::{hx, parse, unhx};
use std::sync::Arc;
use throttlecrab::PeriodicStore;
use throttlecrab_server::actor::RateLimiterActor;
use throttlecrab_server::metrics::Metrics;
use throttlecrab_server::transport::redis::RedisTransport;
use throttlecrab_server::transport::Transport;

pub fn run(file: &str) {
    let text = std::fs::read_to_string(file).unwrap_or_else(|e| {
        eprintln!("cannot read {file}: {e}");
        std::process::exit(2);
    });
    install_trace_capture();
    let rt = tokio::runtime::Builder::new_current_thread().enable_all().build().unwrap();
    rt.block_on(async {
        let metrics = Arc::new(Metrics::builder().max_denied_keys(50).build());
        let store = PeriodicStore::builder().capacity(1000).build();
        let handle = RateLimiterActor::spawn_periodic(100, store, Arc::clone(&metrics));
        let mut port: Option<u16> = None;
        let mut covered: std::collections::HashSet<String> = Default::default();
        for raw in text.lines() {
            let line = raw.split('#').next().unwrap().trim();
            if line.is_empty() || line.starts_with("VIOL") || line == "END" {
                continue;
            }
            let toks: Vec<&str> = line.split(' ').filter(|t| !t.is_empty()).collect();
            let ans: String = match toks[0] {
                "rdec" if toks.len() == 2 => match unhx(toks[1]) {
                    Some(d) => dec(&d).show(),
                    None => "bad-op".into(),
                },
                "renc" if toks.len() == 2 => match parse(toks[1]).and_then(|v| enc(&v)) {
                    Some(b) => hx(&b),
                    None => "bad-op".into(),
                },
                "rplan" if toks.len() == 3 => match parse(toks[1]) {
                    Some(v) => {
                        let (ex, ..) = exec_command(&v, &handle, &metrics).await;
                        for (o, i) in &ex.lines {
                            println!("{o} -> {i}");
                            covered.insert(o.clone());
                        }
                        continue;
                    }
                    None => "bad-op".into(),
                },
                "rconn" => {
                    let chunks: Option<Vec<Vec<u8>>> = toks[1..].iter().map(|t| unhx(t)).collect();
                    match chunks {
                        None => "bad-op".into(),
                        Some(ch) => {
                            if port.is_none() {
                                let p = free_port();
                                let tr = RedisTransport::new("127.0.0.1", p, Arc::clone(&metrics)).unwrap();
                                let h = handle.clone();
                                tokio::spawn(async move {
                                    let _ = tr.start(h).await;
                                });
                                wait_port(p).await;
                                port = Some(p);
                            }
                            run_conn(port.unwrap(), &ch, None).await.show()
                        }
                    }
                }
                "mrun" => mrun_answer(&toks[1..]),
                "esc" if toks.len() == 2 => match unhx(toks[1]).and_then(|b| String::from_utf8(b).ok()) {
                    Some(k) => esc_answer(&k),
                    None => "bad-op".into(),
                },
                "tclamp" if toks.len() == 2 => match toks[1].parse::<usize>() {
                    Ok(n) => tclamp_answer(n),
                    Err(_) => "bad-op".into(),
                },
                "rfinish" | "rmetric" if covered.contains(line) => continue,
                "tstep" if toks.len() == 5 => tstep_answer(&toks),
                "rfinish" | "rmetric" | "tstep" | "treport" | "atrace" | "atrace-loose" | "mtab" => "not re-executable (observation of a past execution)".into(),
                _ => "unknown-op".into(),
            };
            let shown = if line.len() > 400 { format!("{}...", &line[..400]) } else { line.to_string() };
            println!("{shown} -> {ans}");
        }
    });
}

/// rebuild the `before` table in a fresh tracker (possible whenever it holds <= 3*max keys: no
/// eviction happens on the way), apply the one update, show the table afterwards.  Which of
/// several equal-count keys survive an eviction depends on HashMap iteration order, so a
/// difference from the recorded `after` table among tied keys is not a discrepancy.
fn tstep_answer(toks: &[&str]) -> String {
    use crate::metrics::table_text;
    use throttlecrab_server::metrics::Transport as T;
    let Ok(max) = toks[1].parse::<usize>() else { return "bad-op".into() };
    let mut entries: Vec<(String, u64)> = vec![];
    if toks[2] != "-" {
        for e in toks[2].split(',') {
            let Some((k, c)) = e.rsplit_once(':') else { return "bad-op".into() };
            let kb = if k.is_empty() { Some(vec![]) } else { unhx(k) };
            let (Some(k), Ok(c)) = (kb.and_then(|b| String::from_utf8(b).ok()), c.parse::<u64>()) else { return "bad-op".into() };
            entries.push((k, c));
        }
    }
    let Some(key) = unhx(toks[3]).and_then(|b| String::from_utf8(b).ok()) else { return "bad-op".into() };
    if max == 0 || entries.len() > 3 * max {
        return "not re-executable (table larger than 3*max)".into();
    }
    let m = Metrics::builder().max_denied_keys(max).build();
    for (k, c) in &entries {
        for _ in 0..*c {
            m.record_request_with_key(T::Redis, false, k);
        }
    }
    m.record_request_with_key(T::Redis, false, &key);
    let after = table_text(&m.verif_denied_table().unwrap_or_default());
    if after == toks[4] { "ok".into() } else { format!("after {after}") }
}
