// mode `conn`: the real RESP connection loop over loopback TCP (C10 RESP half, C13 chunking and
// buffer cap).
//
// line:  rconn <chunkhex> <chunkhex> ...  ->  <written hex|-> <open|eof|quit|error|overflow>
//        (an empty chunk `-` = the client half-closes = EOF for the server)
//
// How the end state is observed: `quit`/`error`/`overflow` = the server closed the connection
// without us half-closing first; which of the three is read from the server's own `tracing`
// output for this peer address ("exceeded buffer size limit" -> overflow, "Error handling Redis
// connection" -> error, nothing -> clean return after QUIT).  `open` = still open after the idle
// period; `eof` = closed after our half-close.
use crate::resp::{parse_with, Dec};
use crate::util::*;
use crate::val::hx;
use std::sync::atomic::{AtomicBool, Ordering::SeqCst};
use std::sync::{Arc, Mutex};
use std::time::{Duration, Instant};
use throttlecrab::PeriodicStore;
use throttlecrab_server::actor::RateLimiterActor;
use throttlecrab_server::metrics::Metrics;
use throttlecrab_server::transport::redis::resp::{RespParser, RespValue};
use throttlecrab_server::transport::redis::RedisTransport;
use throttlecrab_server::transport::Transport;
use tokio::io::{AsyncReadExt, AsyncWriteExt};
use tokio::net::TcpStream;

// ----------------------------------------------------------------------------------------
// capture of the server's tracing output
// ----------------------------------------------------------------------------------------
static TRACE: Mutex<Vec<String>> = Mutex::new(Vec::new());

struct CapWriter;
impl std::io::Write for CapWriter {
    fn write(&mut self, buf: &[u8]) -> std::io::Result<usize> {
        if let Ok(mut t) = TRACE.lock() {
            t.push(String::from_utf8_lossy(buf).to_string());
            let n = t.len();
            if n > 20000 {
                t.drain(..n - 10000);
            }
        }
        Ok(buf.len())
    }
    fn flush(&mut self) -> std::io::Result<()> {
        Ok(())
    }
}

/// The code under test (targets `throttlecrab*`) logs at TRACE, the most verbose level: argument
/// formatting inside its `debug!` / `trace!` calls only runs when such a level is enabled.  Everything
/// else (hyper, h2, tonic ...) stays at ERROR.  The clean code logs 2-3 lines per connection, which costs
/// nothing measurable.
pub fn install_trace_capture() {
    use tracing_subscriber::layer::SubscriberExt;
    use tracing_subscriber::util::SubscriberInitExt;
    let filter = tracing_subscriber::filter::Targets::new().with_default(tracing::Level::ERROR).with_target("throttlecrab", tracing::Level::TRACE);
    let _ = tracing_subscriber::registry().with(tracing_subscriber::fmt::layer().with_writer(|| CapWriter).with_ansi(false)).with(filter).try_init();
}

pub fn trace_lines_for(addr: &str) -> Vec<String> {
    let t = TRACE.lock().unwrap();
    t.iter()
        .filter(|l| l.contains(&format!("{addr} ")) || l.contains(&format!("{addr}:")) || l.ends_with(addr))
        .cloned()
        .collect()
}

pub fn purge_trace_for(addr: &str) {
    let mut t = TRACE.lock().unwrap();
    t.retain(|l| !(l.contains(&format!("{addr} ")) || l.contains(&format!("{addr}:")) || l.ends_with(addr)));
}

pub fn free_port() -> u16 {
    let l = std::net::TcpListener::bind("127.0.0.1:0").unwrap();
    l.local_addr().unwrap().port()
}

pub async fn wait_port(port: u16) {
    for _ in 0..400 {
        if let Ok(s) = TcpStream::connect(("127.0.0.1", port)).await {
            drop(s);
            return;
        }
        tokio::time::sleep(Duration::from_millis(10)).await;
    }
    panic!("server on port {port} did not come up");
}

#[derive(Clone, Debug, PartialEq)]
pub struct ConnResult {
    pub written: Vec<u8>,
    pub end: &'static str,
}

impl ConnResult {
    pub fn show(&self) -> String {
        format!("{} {}", hx(&self.written), self.end)
    }
}

/// one real connection; `chunks` written one by one; `hint` = output length after which a short
/// idle period is enough to call the connection quiet
pub async fn run_conn(port: u16, chunks: &[Vec<u8>], hint: Option<usize>) -> ConnResult {
    run_conn_tail(port, chunks, hint, None).await
}

/// `tail` = the reply to the LAST command of the stream, when the caller knows it: output that ends
/// with it is complete, so the short idle period applies as it does once `hint` is reached
pub async fn run_conn_tail(port: u16, chunks: &[Vec<u8>], hint: Option<usize>, tail: Option<&[u8]>) -> ConnResult {
    let sock = TcpStream::connect(("127.0.0.1", port)).await.unwrap();
    sock.set_nodelay(true).unwrap();
    let local = sock.local_addr().unwrap().to_string();
    // ephemeral ports are reused: forget what an EARLIER connection from this address logged
    purge_trace_for(&local);
    let (mut rd, mut wr) = sock.into_split();
    let got: Arc<Mutex<Vec<u8>>> = Arc::new(Mutex::new(vec![]));
    let closed = Arc::new(AtomicBool::new(false));
    let (g2, c2) = (got.clone(), closed.clone());
    let reader = tokio::spawn(async move {
        let mut buf = vec![0u8; 65536];
        loop {
            match rd.read(&mut buf).await {
                Ok(0) | Err(_) => {
                    c2.store(true, SeqCst);
                    return;
                }
                Ok(n) => g2.lock().unwrap().extend_from_slice(&buf[..n]),
            }
        }
    });
    let mut sent_eof = false;
    let mut closed_before_eof = false;
    for c in chunks {
        if closed.load(SeqCst) {
            closed_before_eof = true;
            break;
        }
        if c.is_empty() {
            let _ = wr.shutdown().await;
            sent_eof = true;
            break;
        }
        if wr.write_all(c).await.is_err() {
            break;
        }
        let _ = wr.flush().await;
        // let the server task (same single-threaded runtime) see exactly this chunk
        for _ in 0..3 {
            tokio::task::yield_now().await;
        }
    }
    // wait for close or quiet
    let mut last_len = got.lock().unwrap().len();
    let mut last_change = Instant::now();
    loop {
        for _ in 0..2 {
            tokio::task::yield_now().await;
        }
        if closed.load(SeqCst) {
            break;
        }
        let l = got.lock().unwrap().len();
        if l != last_len {
            last_len = l;
            last_change = Instant::now();
        }
        let complete = tail.map(|t| got.lock().unwrap().ends_with(t)).unwrap_or(false);
        let idle = match hint {
            Some(h) if l >= h => Duration::from_millis(15),
            _ if complete => Duration::from_millis(15),
            _ => Duration::from_millis(200),
        };
        if last_change.elapsed() >= idle {
            break;
        }
        tokio::time::sleep(Duration::from_millis(2)).await;
    }
    let is_closed = closed.load(SeqCst);
    let end = if !is_closed {
        "open"
    } else if sent_eof && !closed_before_eof {
        "eof"
    } else {
        // server closed on its own: ask its log why
        tokio::task::yield_now().await;
        let lines = trace_lines_for(&local);
        if lines.iter().any(|l| l.contains("exceeded buffer size limit") || l.contains("Buffer size limit exceeded")) {
            "overflow"
        } else if lines.iter().any(|l| l.contains("Error handling Redis connection")) {
            "error"
        } else {
            "quit"
        }
    };
    drop(wr);
    reader.abort();
    let written = got.lock().unwrap().clone();
    ConnResult { written, end }
}

// ----------------------------------------------------------------------------------------
// stream generation
// ----------------------------------------------------------------------------------------
#[derive(Clone, Debug)]
enum Expect {
    Bulk(String), // PING <tag>
    Pong,
    Ok,    // QUIT
    Error, // unknown / malformed command: some error reply
}

struct Stream {
    bytes: Vec<u8>,
    expect: Vec<Expect>, // replies that must appear, in order
    max_frame: usize,
    eof_at_end: bool,
    kind: &'static str,
    /// (start, end) of every command; only filled by the kinds whose chunkings are placed
    /// relative to the command boundaries (`long`, `split2`, `args`)
    cmds: Vec<(usize, usize)>,
}

fn cmd_bytes(parts: &[&[u8]]) -> Vec<u8> {
    let mut v = format!("*{}\r\n", parts.len()).into_bytes();
    for p in parts {
        v.extend_from_slice(format!("${}\r\n", p.len()).as_bytes());
        v.extend_from_slice(p);
        v.extend_from_slice(b"\r\n");
    }
    v
}

/// the kinds with MANY small commands on one connection, in fixed slots of every 16 cases so
/// that a quick run (`--n 60`) has 4 `long`, 4 `split2` and 3 `args` streams whatever the seed
fn many_kind(case: usize) -> Option<&'static str> {
    match case % 16 {
        3 => Some("long"),
        8 => Some("split2"),
        13 => Some("args"),
        5 | 11 => Some("exact"),
        _ => None,
    }
}

/// a tag of exactly `len` ASCII bytes that differs from its neighbours' tags: the low base-36
/// digits of the command index, then seed-chosen filler
fn tag_of(rng: &mut Rng, i: usize, len: usize) -> String {
    const D: &[u8] = b"0123456789abcdefghijklmnopqrstuvwxyz";
    let mut digits = vec![];
    let mut x = i;
    loop {
        digits.push(D[x % 36]);
        x /= 36;
        if x == 0 {
            break;
        }
    }
    // low digit first: a short tag keeps the digits that change from one command to the next
    let mut t: Vec<u8> = digits.into_iter().take(len).collect();
    while t.len() < len {
        t.push(if t.len() % 7 == 3 { b'_' } else { D[10 + rng.below(26) as usize] });
    }
    String::from_utf8(t).unwrap()
}

/// `long`: 70..120 KB of small commands (`PING <tag>`, tag 1..40 bytes, a few bare PINGs and unknown
/// commands) - far more than 64 KiB on ONE connection although no frame is larger than ~70 bytes.
/// `split2` / `args`: 200..320 small commands (PING, malformed-arity THROTTLE that never reaches the
/// limiter, a few unknown commands); the chunkings cut every single one of them.
fn gen_many(rng: &mut Rng, case: usize, kind: &'static str) -> Stream {
    let target = if kind == "long" { rng.range(70_000, 120_000) as usize } else { usize::MAX };
    let ncmd = if kind == "long" { usize::MAX } else { rng.range(200, 320) as usize };
    let mut bytes = vec![];
    let mut expect = vec![];
    let mut cmds = vec![];
    let mut max_frame = 0usize;
    let mut i = 0usize;
    while bytes.len() < target && i < ncmd {
        let r = rng.below(100);
        let (ping_tag, bare_ping, throttle) = if kind == "long" { (94, 96, 96) } else { (50, 56, 94) };
        let f = if r < ping_tag {
            let tag = if kind != "long" && rng.chance(1, 6) {
                // multi-byte characters and CR LF inside the payload
                rng.pick(&[format!("é{case}ü{i}日本"), format!("t{i}\r\nx"), format!("{i}\r"), "é".to_string()])
            } else {
                let len = rng.range(1, 40) as usize;
                tag_of(rng, i, len)
            };
            expect.push(Expect::Bulk(tag.clone()));
            cmd_bytes(&[rng.pick(&["PING", "PING", "ping", "Ping"]).as_bytes(), tag.as_bytes()])
        } else if r < bare_ping {
            expect.push(Expect::Pong);
            cmd_bytes(&[b"PING"])
        } else if r < throttle {
            // wrong number of arguments: refused by the handler, never forwarded
            expect.push(Expect::Error);
            let all: [&[u8]; 8] = [b"THROTTLE", b"key", b"2", b"1", b"60", b"1", b"1", b"1"];
            let total = rng.pick(&[1usize, 2, 3, 4, 7, 8]);
            let mut parts: Vec<&[u8]> = all[..total].to_vec();
            if rng.chance(1, 3) {
                parts[0] = b"throttle";
            }
            cmd_bytes(&parts)
        } else {
            expect.push(Expect::Error);
            cmd_bytes(&[rng.pick(&["GET", "SET", "hello", "THROTTLES"]).as_bytes(), tag_of(rng, i, 3).as_bytes()])
        };
        max_frame = max_frame.max(f.len());
        cmds.push((bytes.len(), bytes.len() + f.len()));
        bytes.extend(f);
        i += 1;
    }
    // the last command is a PING whose reply cannot be mistaken for an earlier one
    let sentinel = format!("end-of-stream-{case}-{i}");
    let f = cmd_bytes(&[b"PING", sentinel.as_bytes()]);
    expect.push(Expect::Bulk(sentinel));
    cmds.push((bytes.len(), bytes.len() + f.len()));
    bytes.extend(f);
    Stream { bytes, expect, max_frame, eof_at_end: false, kind, cmds }
}

/// total lengths of the `exact` bursts: 512, 1024 k and 4096 k (k = 1..8), 65536 (= the buffer cap: must not overflow)
pub const EXACT_SIZES: [usize; 16] = [512, 1024, 2048, 3072, 4096, 5120, 6144, 7168, 8192, 12288, 16384, 20480, 24576, 28672, 32768, 65536];

/// `exact`: complete commands whose total length is EXACTLY `total` bytes (the tag of the last `PING <sentinel>` is
/// padded so that it ends on the boundary), to be sent with ONE write and nothing after it: the client waits for
/// the replies (`eof` = false) or half-closes (`eof` = true).  Every command must be answered although the last read
/// of the server fills its scratch buffer completely, whatever size that buffer has.
fn gen_exact(rng: &mut Rng, case: usize, total: usize, eof: bool) -> Stream {
    // longer commands in the longer bursts (the model re-parses the rest of the chunk after every command)
    let max_tag = if total <= 4096 { 40 } else if total <= 16384 { 400 } else { 1500 };
    let mut bytes: Vec<u8> = vec![];
    let mut expect = vec![];
    let mut cmds = vec![];
    let mut max_frame = 0usize;
    let mut i = 0usize;
    // length of `PING <tag of n bytes>`
    let ping_len = |n: usize| 19 + n.to_string().len() + n;
    loop {
        let r = rng.below(100);
        let (f, e): (Vec<u8>, Expect) = if r < 80 {
            let len = rng.range(1, max_tag) as usize;
            let tag = tag_of(rng, i, len);
            (cmd_bytes(&[rng.pick(&["PING", "ping", "Ping"]).as_bytes(), tag.as_bytes()]), Expect::Bulk(tag))
        } else if r < 86 {
            (cmd_bytes(&[b"PING"]), Expect::Pong)
        } else if r < 94 {
            let all: [&[u8]; 8] = [b"THROTTLE", b"key", b"2", b"1", b"60", b"1", b"1", b"1"];
            let n = rng.pick(&[1usize, 2, 3, 4, 7, 8]);
            (cmd_bytes(&all[..n]), Expect::Error)
        } else {
            (cmd_bytes(&[rng.pick(&["GET", "SET", "hello"]).as_bytes(), tag_of(rng, i, 3).as_bytes()]), Expect::Error)
        };
        // room for the sentinel (at least 60 bytes) must remain
        if bytes.len() + f.len() + 60 > total {
            break;
        }
        max_frame = max_frame.max(f.len());
        cmds.push((bytes.len(), bytes.len() + f.len()));
        bytes.extend(f);
        expect.push(e);
        i += 1;
    }
    // the sentinel takes exactly what is left; lengths no tag size can produce (19 + digits + n skips one value at
    // every power of ten) are reached with a bare PING (14 bytes) in front
    let mut left = total - bytes.len();
    let fit = |left: usize| (1..=left).find(|&n| ping_len(n) == left);
    while fit(left).is_none() || fit(left).unwrap() < 30 {
        let f = cmd_bytes(&[b"PING"]);
        assert!(left > f.len() + 50, "cannot place the sentinel in {left} bytes");
        cmds.push((bytes.len(), bytes.len() + f.len()));
        bytes.extend(&f);
        expect.push(Expect::Pong);
        left -= f.len();
    }
    let n = fit(left).unwrap();
    let mut sentinel = format!("end-of-stream-{case}-{i}-");
    while sentinel.len() < n {
        sentinel.push((b'a' + rng.below(26) as u8) as char);
    }
    sentinel.truncate(n);
    let f = cmd_bytes(&[b"PING", sentinel.as_bytes()]);
    max_frame = max_frame.max(f.len());
    cmds.push((bytes.len(), bytes.len() + f.len()));
    bytes.extend(f);
    expect.push(Expect::Bulk(sentinel));
    assert_eq!(bytes.len(), total);
    Stream { bytes, expect, max_frame, eof_at_end: eof, kind: if eof { "exacteof" } else { "exact" }, cmds }
}

fn gen_stream(rng: &mut Rng, case: usize) -> Stream {
    if let Some(kind) = many_kind(case) {
        assert!(kind != "exact");
        return gen_many(rng, case, kind);
    }
    let kind = rng.pick(&["plain", "plain", "plain", "quit", "bad", "oversize", "big", "partial", "eof", "eofmid", "plain1"]); // no "edge" frames (64513..65536 bytes): whether they overflow depends on where the kernel lets the reads fall, which the harness cannot pin down (see DESIGN §6, observations)
    let ncmd = if kind == "plain1" { 1 } else { rng.range(1, 40) as usize };
    let special_at = rng.below(ncmd as u64 + 1) as usize;
    let mut bytes = vec![];
    let mut expect = vec![];
    let mut max_frame = 0usize;
    let mut stopped = false;
    let mut eof_at_end = false;
    for i in 0..=ncmd {
        if i == special_at {
            match kind {
                "quit" => {
                    let q = rng.pick(&["QUIT", "quit", "QuIt"]);
                    bytes.extend(cmd_bytes(&[q.as_bytes()]));
                    expect.push(Expect::Ok);
                    stopped = true;
                }
                "bad" => {
                    let b: Vec<u8> = match rng.below(8) {
                        0 => b"!bad\r\n".to_vec(),
                        1 => b"$abc\r\n".to_vec(),
                        2 => b"*1\r\n$-5\r\n".to_vec(),
                        3 => b"*1\r\n$2\r\n\xC3\x28\r\n".to_vec(),
                        4 => b"PING\r\n".to_vec(),
                        5 => b"*1048577\r\n".to_vec(),
                        6 => b":12a\r\n".to_vec(),
                        _ => b"*2\r\n$4\r\nPING\r\n$536870913\r\n".to_vec(),
                    };
                    bytes.extend(b);
                    stopped = true;
                }
                "oversize" => {
                    let declared = rng.pick(&[70000usize, 100000, 536870912]);
                    let body = rng.pick(&[66000usize, 65600, 67000]);
                    let mut f = if rng.chance(1, 2) {
                        format!("${declared}\r\n").into_bytes()
                    } else {
                        format!("*2\r\n$4\r\nPING\r\n${declared}\r\n").into_bytes()
                    };
                    f.extend(std::iter::repeat(b'z').take(body));
                    max_frame = max_frame.max(f.len());
                    bytes.extend(f);
                    stopped = true;
                }
                "big" | "edge" => {
                    // a 64000-byte frame must NOT overflow; an "edge" frame (between 64512 and 65536
                    // bytes) overflows or not depending on where the 1024-byte reads fall: only the
                    // model comparison judges those
                    let total = if kind == "edge" { rng.pick(&[65000usize, 65536, 64513, 65535]) } else { rng.pick(&[64000usize, 63000, 64500, 64512]) };
                    let head = b"*2\r\n$4\r\nPING\r\n";
                    let mut l = total - head.len() - 10;
                    let mut hdr = format!("${l}\r\n");
                    while head.len() + hdr.len() + l + 2 > total {
                        l -= 1;
                        hdr = format!("${l}\r\n");
                    }
                    let mut f = head.to_vec();
                    f.extend(hdr.as_bytes());
                    f.extend(std::iter::repeat(b'q').take(l));
                    f.extend(b"\r\n");
                    max_frame = max_frame.max(f.len());
                    bytes.extend(f);
                    expect.push(Expect::Bulk("q".repeat(l)));
                }
                "partial" if i == ncmd => {
                    let f = cmd_bytes(&[b"PING", b"unfinished"]);
                    let cut = rng.range(1, f.len() as i64 - 1) as usize;
                    bytes.extend(&f[..cut]);
                }
                "eofmid" => {
                    let f = cmd_bytes(&[b"PING", b"cut-by-eof"]);
                    let cut = rng.range(1, f.len() as i64 - 1) as usize;
                    bytes.extend(&f[..cut]);
                    eof_at_end = true;
                    stopped = true;
                }
                _ => {}
            }
            if stopped {
                // bytes after the stop point must be ignored by the server
                if rng.chance(1, 2) && kind != "eofmid" {
                    bytes.extend(cmd_bytes(&[b"PING", b"after-stop"]));
                }
                break;
            }
        }
        if i == ncmd {
            break;
        }
        let f = match rng.below(12) {
            0 => {
                expect.push(Expect::Pong);
                cmd_bytes(&[rng.pick(&["PING", "ping", "Ping"]).as_bytes()])
            }
            1 => {
                expect.push(Expect::Error);
                cmd_bytes(&[rng.pick(&["GET", "SET", "hello", "THROTTLES", "'"]).as_bytes(), b"x"])
            }
            2 => {
                expect.push(Expect::Error);
                let parts: Vec<&[u8]> = match rng.below(4) {
                    0 => vec![b"THROTTLE", b"k"],
                    1 => vec![b"throttle", b"k", b"x", b"1", b"60"],
                    2 => vec![b"THROTTLE", b"k", b"2", b"1", b"60", b"1", b"1"],
                    _ => vec![b"THROTTLE", b"k", b"2", b"1.5", b"60"],
                };
                cmd_bytes(&parts)
            }
            3 => {
                expect.push(Expect::Error);
                cmd_bytes(&[b"PING", b"a", b"b"])
            }
            4 => {
                let tag = format!("é{case}ü{i}日本");
                expect.push(Expect::Bulk(tag.clone()));
                cmd_bytes(&[b"PING", tag.as_bytes()])
            }
            5 => {
                let tag = format!("t{case}_{i}\r\nwith-crlf\r\n");
                expect.push(Expect::Bulk(tag.clone()));
                cmd_bytes(&[b"PING", tag.as_bytes()])
            }
            _ => {
                let tag = format!("t{case}_{i}");
                expect.push(Expect::Bulk(tag.clone()));
                cmd_bytes(&[b"PING", tag.as_bytes()])
            }
        };
        max_frame = max_frame.max(f.len());
        bytes.extend(f);
    }
    if kind == "eof" {
        eof_at_end = true;
    }
    Stream { bytes, expect, max_frame, eof_at_end, kind, cmds: vec![] }
}

fn chunk_random(rng: &mut Rng, b: &[u8], max: usize) -> Vec<Vec<u8>> {
    let mut v = vec![];
    let mut i = 0;
    // (the model re-parses its list buffer per chunk: keep the chunk count of 64 KB streams moderate)
    let big = b.len() > 3000;
    let style = if big { 3 } else { rng.below(3) };
    while i < b.len() {
        let k = match style {
            3 => rng.pick(&[1usize, 2, 300, 700, 1000, 1023, 1024]).min(max),
            0 => rng.range(1, 8) as usize,
            1 => rng.range(1, max as i64) as usize,
            _ => rng.pick(&[1usize, 2, 3, 7, 64, 500, 1024]).min(max),
        };
        let e = (i + k).min(b.len());
        v.push(b[i..e].to_vec());
        i = e;
    }
    v
}

/// cuts placed preferably between CR and LF and inside multi-byte characters
fn chunk_nasty(rng: &mut Rng, b: &[u8]) -> Vec<Vec<u8>> {
    let mut cuts = vec![];
    for i in 1..b.len() {
        let inside_crlf = b[i - 1] == b'\r' && b[i] == b'\n';
        let inside_utf8 = (b[i] & 0xC0) == 0x80;
        let any = if b.len() > 3000 { rng.chance(1, 3000) } else { rng.chance(1, 40) };
        if (inside_crlf && rng.chance(2, 3)) || (inside_utf8 && rng.chance(2, 3)) || any {
            cuts.push(i);
        }
    }
    let mut v = vec![];
    let mut prev = 0;
    for c in cuts.into_iter().chain(std::iter::once(b.len())) {
        let mut s = prev;
        while s < c {
            let e = (s + 1024).min(c);
            v.push(b[s..e].to_vec());
            s = e;
        }
        prev = c;
    }
    v.retain(|c| !c.is_empty());
    v
}

fn chunk_fixed(b: &[u8], k: usize) -> Vec<Vec<u8>> {
    b.chunks(k).map(|c| c.to_vec()).collect()
}

/// random chunk sizes lo..=hi
fn chunk_sizes(rng: &mut Rng, b: &[u8], lo: usize, hi: usize) -> Vec<Vec<u8>> {
    let mut v = vec![];
    let mut i = 0;
    while i < b.len() {
        let e = (i + rng.range(lo as i64, hi as i64) as usize).min(b.len());
        v.push(b[i..e].to_vec());
        i = e;
    }
    v
}

/// every chunk (300..~1000 bytes) ends k = 1..10 bytes INTO the next command: no write ends on a
/// command boundary except the last one
fn chunk_into_next(rng: &mut Rng, b: &[u8], cmds: &[(usize, usize)]) -> Vec<Vec<u8>> {
    let mut v = vec![];
    let mut pos = 0usize;
    loop {
        let target = pos + rng.range(300, 940) as usize;
        // first command that starts at or after `target`
        let j = cmds.partition_point(|c| c.0 < target);
        if j >= cmds.len() {
            v.push(b[pos..].to_vec());
            break;
        }
        let (s, e) = cmds[j];
        let k = (rng.range(1, 10) as usize).min(e - s - 1);
        v.push(b[pos..s + k].to_vec());
        pos = s + k;
    }
    v.retain(|c| !c.is_empty());
    v
}

/// where the parts of one command built by `cmd_bytes` lie (offsets inside the command)
struct Layout {
    hdr_end: usize,
    /// (start, end of the `$len\r\n` header, end of the payload, end after the CR LF)
    elems: Vec<(usize, usize, usize, usize)>,
}

fn layout(c: &[u8]) -> Layout {
    let crlf = |from: usize| (from..c.len() - 1).find(|&i| c[i] == b'\r' && c[i + 1] == b'\n').unwrap();
    let num = |a: usize, z: usize| std::str::from_utf8(&c[a..z]).unwrap().parse::<usize>().unwrap();
    let h = crlf(0);
    let n = num(1, h);
    let hdr_end = h + 2;
    let mut elems = vec![];
    let mut pos = hdr_end;
    for _ in 0..n {
        let e = crlf(pos);
        let len = num(pos + 1, e);
        elems.push((pos, e + 2, e + 2 + len, e + 2 + len + 2));
        pos = e + 2 + len + 2;
    }
    assert_eq!(pos, c.len());
    Layout { hdr_end, elems }
}

/// every command is written in exactly TWO writes; the cut is placed right after the `*N\r\n` header,
/// inside it, inside a bulk header (also between its CR and LF), inside a payload, between the CR and
/// LF that end a payload, or anywhere
fn chunk_split2(rng: &mut Rng, b: &[u8], cmds: &[(usize, usize)]) -> Vec<Vec<u8>> {
    let mut v = vec![];
    for &(s, e) in cmds {
        let c = &b[s..e];
        let l = layout(c);
        let el = l.elems[rng.below(l.elems.len() as u64) as usize];
        let off = match rng.below(8) {
            0 => l.hdr_end,
            1 => rng.range(1, l.hdr_end as i64 - 1) as usize,
            2 => rng.range(el.0 as i64 + 1, el.1 as i64 - 1) as usize,
            3 => el.1 - 1,
            4 | 5 if el.2 - el.1 >= 2 => rng.range(el.1 as i64 + 1, el.2 as i64 - 1) as usize,
            4 | 5 => el.1,
            6 => el.2 + 1,
            _ => rng.range(1, c.len() as i64 - 1) as usize,
        }
        .clamp(1, c.len() - 1);
        v.push(c[..off].to_vec());
        v.push(c[off..].to_vec());
    }
    v
}

/// every ARGUMENT is a write of its own: the cuts fall exactly on the element boundaries (the `*N\r\n`
/// header goes alone or together with the first element)
fn chunk_args(rng: &mut Rng, b: &[u8], cmds: &[(usize, usize)]) -> Vec<Vec<u8>> {
    let mut v = vec![];
    for &(s, e) in cmds {
        let c = &b[s..e];
        let l = layout(c);
        let alone = rng.chance(1, 2);
        if alone {
            v.push(c[..l.hdr_end].to_vec());
        }
        for (i, el) in l.elems.iter().enumerate() {
            let from = if i == 0 && !alone { 0 } else { el.0 };
            v.push(c[from..el.3].to_vec());
        }
    }
    v
}

fn rconn_line(chunks: &[Vec<u8>]) -> String {
    let mut s = String::from("rconn");
    for c in chunks {
        s.push(' ');
        s.push_str(&hx(c));
    }
    s
}

fn split_replies(b: &[u8]) -> (Vec<RespValue>, usize) {
    let mut p = RespParser::new();
    let mut v = vec![];
    let mut off = 0;
    while off < b.len() {
        match parse_with(&mut p, &b[off..]) {
            Dec::Ok(x, n) => {
                v.push(x);
                off += n;
            }
            _ => break,
        }
    }
    (v, off)
}

pub fn run(seed: u64, n: usize, out: &mut Out) {
    install_trace_capture();
    let rt = tokio::runtime::Builder::new_current_thread().enable_all().build().unwrap();
    let mut rng = Rng::new(seed);
    rt.block_on(async {
        let metrics = Arc::new(Metrics::builder().max_denied_keys(10).build());
        let store = PeriodicStore::builder().capacity(1000).build();
        let handle = RateLimiterActor::spawn_periodic(4, store, Arc::clone(&metrics));
        let port = free_port();
        let tr = RedisTransport::new("127.0.0.1", port, Arc::clone(&metrics)).unwrap();
        tokio::spawn(async move {
            let _ = tr.start(handle).await;
        });
        wait_port(port).await;
        // the `exact` slots take the burst sizes in turn, starting at a seed-chosen place: two sizes per slot, each
        // once with the client waiting for the replies and once with a half-close after the burst
        let mut exact_next = rng.below(EXACT_SIZES.len() as u64) as usize;
        let mut streams: Vec<(usize, Stream)> = vec![];
        for case in 0..n {
            if many_kind(case) == Some("exact") {
                for _ in 0..2 {
                    let total = EXACT_SIZES[exact_next % EXACT_SIZES.len()];
                    exact_next += 1;
                    for eof in [false, true] {
                        let st = gen_exact(&mut rng, case, total, eof);
                        streams.push((case, st));
                    }
                }
            } else {
                streams.push((case, gen_stream(&mut rng, case)));
            }
        }
        for (case, st) in streams {
            let _ = case;
            out.bump(&format!("streams_{}", st.kind));
            let mut chunkings: Vec<(&str, Vec<Vec<u8>>)> = match st.kind {
                // cuts that are deliberately NOT aligned with the command boundaries
                "long" => vec![
                    ("coprime", chunk_fixed(&st.bytes, rng.pick(&[1000usize, 1021, 997, 515]))),
                    ("300..1024", chunk_sizes(&mut rng, &st.bytes, 300, 1024)),
                    ("into-next", chunk_into_next(&mut rng, &st.bytes, &st.cmds)),
                ],
                "split2" => vec![
                    ("split2", chunk_split2(&mut rng, &st.bytes, &st.cmds)),
                    ("split2", chunk_split2(&mut rng, &st.bytes, &st.cmds)),
                    ("1024", chunk_fixed(&st.bytes, 1024)),
                ],
                "args" => vec![
                    ("args", chunk_args(&mut rng, &st.bytes, &st.cmds)),
                    ("split2", chunk_split2(&mut rng, &st.bytes, &st.cmds)),
                    ("1021", chunk_fixed(&st.bytes, 1021)),
                ],
                // ONE write of the whole burst (the server's last read ends exactly where the burst ends), against two
                // chunkings whose writes are not multiples of any buffer size
                "exact" | "exacteof" => vec![
                    ("997", chunk_fixed(&st.bytes, rng.pick(&[997usize, 1000, 515]))),
                    ("one-write", vec![st.bytes.clone()]),
                    ("300..1023", chunk_sizes(&mut rng, &st.bytes, 300, 1023)),
                ],
                _ => vec![("random", chunk_random(&mut rng, &st.bytes, 1024)), ("nasty", chunk_nasty(&mut rng, &st.bytes))],
            };
            if !st.cmds.is_empty() {
                out.add(&format!("commands_{}", st.kind), st.cmds.len() as u64);
                out.add(&format!("bytes_{}", st.kind), st.bytes.len() as u64);
            } else if st.kind == "edge" {
                let first = rng.range(1, 1023) as usize;
                let mut c = vec![st.bytes[..first.min(st.bytes.len())].to_vec()];
                c.extend(chunk_fixed(&st.bytes[first.min(st.bytes.len())..], 1024));
                chunkings[1] = ("offset-1024", c);
                chunkings.push(("1000", chunk_fixed(&st.bytes, 1000)));
            } else if st.bytes.len() <= 3000 {
                chunkings.push(("bytes", chunk_fixed(&st.bytes, 1)));
            } else {
                chunkings.push(("1024", chunk_fixed(&st.bytes, 1024)));
            }
            let mut results: Vec<(String, ConnResult, &str)> = vec![];
            let mut hint = None;
            // the many-command kinds end with `PING <sentinel>`: once the output ends with the reply to
            // it, every earlier reply has arrived (TCP keeps the order) and the short idle period is
            // enough - also for the first run, which has no output length to go by yet
            let tail: Option<Vec<u8>> = match (st.cmds.is_empty(), st.expect.last()) {
                (false, Some(Expect::Bulk(t))) => Some(format!("${}\r\n{t}\r\n", t.len()).into_bytes()),
                _ => None,
            };
            for (name, mut ch) in chunkings {
                if st.eof_at_end {
                    ch.push(vec![]);
                }
                let line = rconn_line(&ch);
                let r = run_conn_tail(port, &ch, hint, tail.as_deref()).await;
                if hint.is_none() {
                    hint = Some(r.written.len());
                }
                out.line(line.clone(), r.show());
                out.bump("connections");
                out.bump(&format!("end_{}", r.end));
                out.add("chunks", ch.len() as u64);
                if !st.cmds.is_empty() {
                    out.add(&format!("chunks_{}_{name}", st.kind), ch.len() as u64);
                }
                results.push((line, r, name));
            }
            // C13: the result does not depend on the chunking
            let (l0, r0, n0) = &results[0];
            for (l, r, nm) in &results[1..] {
                if r != r0 && st.max_frame <= 64512 {
                    out.violation(
                        "C13",
                        format!("same byte stream ({} bytes, kind {}), different chunking: {} bytes written / {} (chunking {n0}) versus {} bytes written / {} (chunking {nm})", st.bytes.len(), st.kind, r0.written.len(), r0.end, r.written.len(), r.end),
                        vec![short(l0), short(l)],
                    );
                }
            }
            // C10: one reply per command, in order
            for (l, r, nm) in &results {
                if st.kind == "edge" {
                    break;
                }
                let (vals, used) = split_replies(&r.written);
                let mut ok = used == r.written.len() && vals.len() == st.expect.len();
                if ok {
                    for (v, e) in vals.iter().zip(&st.expect) {
                        ok &= match (v, e) {
                            (RespValue::BulkString(Some(s)), Expect::Bulk(t)) => s == t,
                            (RespValue::SimpleString(s), Expect::Pong) => s == "PONG",
                            (RespValue::SimpleString(s), Expect::Ok) => s == "OK",
                            (RespValue::Error(_), Expect::Error) => true,
                            _ => false,
                        };
                    }
                }
                if !ok {
                    out.violation(
                        "C10",
                        format!("{} replies decoded ({} of {} bytes), expected {} replies in command order (stream kind {}, {} bytes, chunking {nm})", vals.len(), used, r.written.len(), st.expect.len(), st.kind, st.bytes.len()),
                        vec![short(l)],
                    );
                }
                // expected end state from the harness's own knowledge of the stream
                let want_end = match st.kind {
                    "quit" => "quit",
                    "bad" => "error",
                    "oversize" => "overflow",
                    "eof" | "eofmid" | "exacteof" => "eof",
                    _ => "open",
                };
                // why the SERVER closed a connection is told apart only by the wording of its log lines; the
                // observable is closed / open / closed after our half-close
                let cls = |e: &str| -> String { if matches!(e, "quit" | "error" | "overflow") { "closed".into() } else { e.to_string() } };
                if cls(&r.end) != cls(want_end) {
                    let prop = if st.kind == "big" || st.kind == "oversize" { "C13" } else { "C10" };
                    out.violation(prop, format!("connection ended '{}' where '{}' is expected (stream kind {}, {} bytes, chunking {nm})", r.end, want_end, st.kind, st.bytes.len()), vec![short(l)]);
                }
            }
            out.note_case(&format!("{}:{}", st.kind, st.bytes.len()));
            if out.samples.len() < 4 && st.bytes.len() < 120 {
                out.sample(format!("{} -> {}", results[0].0, results[0].1.show()));
            }
        }
        // the slow reader (no model line): back-pressure on the reply direction of one connection.  The client is two
        // OS threads; this task keeps yielding so that the server - same single-threaded runtime - runs
        for k in 0..1 + n / 200 {
            let plan = Arc::new(crate::slow::plan(&mut rng, &format!("{seed}-{k}")));
            let p2 = Arc::clone(&plan);
            let h = std::thread::spawn(move || crate::slow::run_blocking(port, &p2));
            while !h.is_finished() {
                tokio::time::sleep(Duration::from_millis(2)).await;
            }
            match h.join() {
                Ok(o) => crate::slow::report(out, &plan, &o, "conn: in-process RedisTransport on a current-thread runtime, actor queue 4"),
                Err(_) => out.violation("C10", "slow reader: the client thread panicked".into(), vec![]),
            }
        }
    });
}

fn short(l: &str) -> String {
    l.to_string()
}
