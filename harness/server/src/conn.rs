// mode `conn`: the real RESP connection loop over loopback TCP (C10 RESP half, C13 chunking and
// buffer cap).
//
// line:  rconn <chunkhex> <chunkhex> ...  ->  <written hex|-> <open|eof|quit|error|overflow>
//        (an empty chunk `-` = the client half-closes = EOF for the server)
//
// How the end state is observed: `quit`/`error`/`overflow` = the server closed the connection
// without us half-closing first; which of the three is read from the server's own `tracing`
// output for this peer address ("exceeded buffer size limit" -> overflow, "Error handling Redis
// connection" -> error, nothing -> clean return after QUIT).  `open` = still open after the idle
// period; `eof` = closed after our half-close.
use crate::resp::{parse_with, Dec};
use crate::util::*;
use crate::val::hx;
use std::sync::atomic::{AtomicBool, Ordering::SeqCst};
use std::sync::{Arc, Mutex};
use std::time::{Duration, Instant};
use throttlecrab::PeriodicStore;
use throttlecrab_server::actor::RateLimiterActor;
use throttlecrab_server::metrics::Metrics;
use throttlecrab_server::transport::redis::resp::{RespParser, RespValue};
use throttlecrab_server::transport::redis::RedisTransport;
use throttlecrab_server::transport::Transport;
use tokio::io::{AsyncReadExt, AsyncWriteExt};
use tokio::net::TcpStream;

// ----------------------------------------------------------------------------------------
// capture of the server's tracing output
// ----------------------------------------------------------------------------------------
static TRACE: Mutex<Vec<String>> = Mutex::new(Vec::new());

struct CapWriter;
impl std::io::Write for CapWriter {
    fn write(&mut self, buf: &[u8]) -> std::io::Result<usize> {
        if let Ok(mut t) = TRACE.lock() {
            t.push(String::from_utf8_lossy(buf).to_string());
            let n = t.len();
            if n > 20000 {
                t.drain(..n - 10000);
            }
        }
        Ok(buf.len())
    }
    fn flush(&mut self) -> std::io::Result<()> {
        Ok(())
    }
}

pub fn install_trace_capture() {
    let _ = tracing_subscriber::fmt()
        .with_writer(|| CapWriter)
        .with_ansi(false)
        .with_max_level(tracing::Level::ERROR)
        .try_init();
}

pub fn trace_lines_for(addr: &str) -> Vec<String> {
    let t = TRACE.lock().unwrap();
    t.iter()
        .filter(|l| l.contains(&format!("{addr} ")) || l.contains(&format!("{addr}:")) || l.ends_with(addr))
        .cloned()
        .collect()
}

pub fn free_port() -> u16 {
    let l = std::net::TcpListener::bind("127.0.0.1:0").unwrap();
    l.local_addr().unwrap().port()
}

pub async fn wait_port(port: u16) {
    for _ in 0..400 {
        if let Ok(s) = TcpStream::connect(("127.0.0.1", port)).await {
            drop(s);
            return;
        }
        tokio::time::sleep(Duration::from_millis(10)).await;
    }
    panic!("server on port {port} did not come up");
}

#[derive(Clone, Debug, PartialEq)]
pub struct ConnResult {
    pub written: Vec<u8>,
    pub end: &'static str,
}

impl ConnResult {
    pub fn show(&self) -> String {
        format!("{} {}", hx(&self.written), self.end)
    }
}

/// one real connection; `chunks` written one by one; `hint` = output length after which a short
/// idle period is enough to call the connection quiet
pub async fn run_conn(port: u16, chunks: &[Vec<u8>], hint: Option<usize>) -> ConnResult {
    let sock = TcpStream::connect(("127.0.0.1", port)).await.unwrap();
    sock.set_nodelay(true).unwrap();
    let local = sock.local_addr().unwrap().to_string();
    let (mut rd, mut wr) = sock.into_split();
    let got: Arc<Mutex<Vec<u8>>> = Arc::new(Mutex::new(vec![]));
    let closed = Arc::new(AtomicBool::new(false));
    let (g2, c2) = (got.clone(), closed.clone());
    let reader = tokio::spawn(async move {
        let mut buf = vec![0u8; 65536];
        loop {
            match rd.read(&mut buf).await {
                Ok(0) | Err(_) => {
                    c2.store(true, SeqCst);
                    return;
                }
                Ok(n) => g2.lock().unwrap().extend_from_slice(&buf[..n]),
            }
        }
    });
    let mut sent_eof = false;
    let mut closed_before_eof = false;
    for c in chunks {
        if closed.load(SeqCst) {
            closed_before_eof = true;
            break;
        }
        if c.is_empty() {
            let _ = wr.shutdown().await;
            sent_eof = true;
            break;
        }
        if wr.write_all(c).await.is_err() {
            break;
        }
        let _ = wr.flush().await;
        // let the server task (same single-threaded runtime) see exactly this chunk
        for _ in 0..3 {
            tokio::task::yield_now().await;
        }
    }
    // wait for close or quiet
    let mut last_len = got.lock().unwrap().len();
    let mut last_change = Instant::now();
    loop {
        for _ in 0..2 {
            tokio::task::yield_now().await;
        }
        if closed.load(SeqCst) {
            break;
        }
        let l = got.lock().unwrap().len();
        if l != last_len {
            last_len = l;
            last_change = Instant::now();
        }
        let idle = match hint {
            Some(h) if l >= h => Duration::from_millis(15),
            _ => Duration::from_millis(200),
        };
        if last_change.elapsed() >= idle {
            break;
        }
        tokio::time::sleep(Duration::from_millis(2)).await;
    }
    let is_closed = closed.load(SeqCst);
    let end = if !is_closed {
        "open"
    } else if sent_eof && !closed_before_eof {
        "eof"
    } else {
        // server closed on its own: ask its log why
        tokio::task::yield_now().await;
        let lines = trace_lines_for(&local);
        if lines.iter().any(|l| l.contains("exceeded buffer size limit") || l.contains("Buffer size limit exceeded")) {
            "overflow"
        } else if lines.iter().any(|l| l.contains("Error handling Redis connection")) {
            "error"
        } else {
            "quit"
        }
    };
    drop(wr);
    reader.abort();
    let written = got.lock().unwrap().clone();
    ConnResult { written, end }
}

// ----------------------------------------------------------------------------------------
// stream generation
// ----------------------------------------------------------------------------------------
#[derive(Clone, Debug)]
enum Expect {
    Bulk(String), // PING <tag>
    Pong,
    Ok,    // QUIT
    Error, // unknown / malformed command: some error reply
}

struct Stream {
    bytes: Vec<u8>,
    expect: Vec<Expect>, // replies that must appear, in order
    max_frame: usize,
    eof_at_end: bool,
    kind: &'static str,
}

fn cmd_bytes(parts: &[&[u8]]) -> Vec<u8> {
    let mut v = format!("*{}\r\n", parts.len()).into_bytes();
    for p in parts {
        v.extend_from_slice(format!("${}\r\n", p.len()).as_bytes());
        v.extend_from_slice(p);
        v.extend_from_slice(b"\r\n");
    }
    v
}

fn gen_stream(rng: &mut Rng, case: usize) -> Stream {
    let kind = rng.pick(&["plain", "plain", "plain", "quit", "bad", "oversize", "big", "partial", "eof", "eofmid", "plain1", "edge"]);
    let ncmd = if kind == "plain1" { 1 } else { rng.range(1, 40) as usize };
    let special_at = rng.below(ncmd as u64 + 1) as usize;
    let mut bytes = vec![];
    let mut expect = vec![];
    let mut max_frame = 0usize;
    let mut stopped = false;
    let mut eof_at_end = false;
    for i in 0..=ncmd {
        if i == special_at {
            match kind {
                "quit" => {
                    let q = rng.pick(&["QUIT", "quit", "QuIt"]);
                    bytes.extend(cmd_bytes(&[q.as_bytes()]));
                    expect.push(Expect::Ok);
                    stopped = true;
                }
                "bad" => {
                    let b: Vec<u8> = match rng.below(8) {
                        0 => b"!bad\r\n".to_vec(),
                        1 => b"$abc\r\n".to_vec(),
                        2 => b"*1\r\n$-5\r\n".to_vec(),
                        3 => b"*1\r\n$2\r\n\xC3\x28\r\n".to_vec(),
                        4 => b"PING\r\n".to_vec(),
                        5 => b"*1048577\r\n".to_vec(),
                        6 => b":12a\r\n".to_vec(),
                        _ => b"*2\r\n$4\r\nPING\r\n$536870913\r\n".to_vec(),
                    };
                    bytes.extend(b);
                    stopped = true;
                }
                "oversize" => {
                    let declared = rng.pick(&[70000usize, 100000, 536870912]);
                    let body = rng.pick(&[66000usize, 65600, 67000]);
                    let mut f = if rng.chance(1, 2) {
                        format!("${declared}\r\n").into_bytes()
                    } else {
                        format!("*2\r\n$4\r\nPING\r\n${declared}\r\n").into_bytes()
                    };
                    f.extend(std::iter::repeat(b'z').take(body));
                    max_frame = max_frame.max(f.len());
                    bytes.extend(f);
                    stopped = true;
                }
                "big" | "edge" => {
                    // a 64000-byte frame must NOT overflow; an "edge" frame (between 64512 and 65536
                    // bytes) overflows or not depending on where the 1024-byte reads fall: only the
                    // model comparison judges those
                    let total = if kind == "edge" { rng.pick(&[65000usize, 65536, 64513, 65535]) } else { rng.pick(&[64000usize, 63000, 64500, 64512]) };
                    let head = b"*2\r\n$4\r\nPING\r\n";
                    let mut l = total - head.len() - 10;
                    let mut hdr = format!("${l}\r\n");
                    while head.len() + hdr.len() + l + 2 > total {
                        l -= 1;
                        hdr = format!("${l}\r\n");
                    }
                    let mut f = head.to_vec();
                    f.extend(hdr.as_bytes());
                    f.extend(std::iter::repeat(b'q').take(l));
                    f.extend(b"\r\n");
                    max_frame = max_frame.max(f.len());
                    bytes.extend(f);
                    expect.push(Expect::Bulk("q".repeat(l)));
                }
                "partial" if i == ncmd => {
                    let f = cmd_bytes(&[b"PING", b"unfinished"]);
                    let cut = rng.range(1, f.len() as i64 - 1) as usize;
                    bytes.extend(&f[..cut]);
                }
                "eofmid" => {
                    let f = cmd_bytes(&[b"PING", b"cut-by-eof"]);
                    let cut = rng.range(1, f.len() as i64 - 1) as usize;
                    bytes.extend(&f[..cut]);
                    eof_at_end = true;
                    stopped = true;
                }
                _ => {}
            }
            if stopped {
                // bytes after the stop point must be ignored by the server
                if rng.chance(1, 2) && kind != "eofmid" {
                    bytes.extend(cmd_bytes(&[b"PING", b"after-stop"]));
                }
                break;
            }
        }
        if i == ncmd {
            break;
        }
        let f = match rng.below(12) {
            0 => {
                expect.push(Expect::Pong);
                cmd_bytes(&[rng.pick(&["PING", "ping", "Ping"]).as_bytes()])
            }
            1 => {
                expect.push(Expect::Error);
                cmd_bytes(&[rng.pick(&["GET", "SET", "hello", "THROTTLES", "'"]).as_bytes(), b"x"])
            }
            2 => {
                expect.push(Expect::Error);
                let parts: Vec<&[u8]> = match rng.below(4) {
                    0 => vec![b"THROTTLE", b"k"],
                    1 => vec![b"throttle", b"k", b"x", b"1", b"60"],
                    2 => vec![b"THROTTLE", b"k", b"2", b"1", b"60", b"1", b"1"],
                    _ => vec![b"THROTTLE", b"k", b"2", b"1.5", b"60"],
                };
                cmd_bytes(&parts)
            }
            3 => {
                expect.push(Expect::Error);
                cmd_bytes(&[b"PING", b"a", b"b"])
            }
            4 => {
                let tag = format!("é{case}ü{i}日本");
                expect.push(Expect::Bulk(tag.clone()));
                cmd_bytes(&[b"PING", tag.as_bytes()])
            }
            5 => {
                let tag = format!("t{case}_{i}\r\nwith-crlf\r\n");
                expect.push(Expect::Bulk(tag.clone()));
                cmd_bytes(&[b"PING", tag.as_bytes()])
            }
            _ => {
                let tag = format!("t{case}_{i}");
                expect.push(Expect::Bulk(tag.clone()));
                cmd_bytes(&[b"PING", tag.as_bytes()])
            }
        };
        max_frame = max_frame.max(f.len());
        bytes.extend(f);
    }
    if kind == "eof" {
        eof_at_end = true;
    }
    Stream { bytes, expect, max_frame, eof_at_end, kind }
}

fn chunk_random(rng: &mut Rng, b: &[u8], max: usize) -> Vec<Vec<u8>> {
    let mut v = vec![];
    let mut i = 0;
    // (the model re-parses its list buffer per chunk: keep the chunk count of 64 KB streams moderate)
    let big = b.len() > 3000;
    let style = if big { 3 } else { rng.below(3) };
    while i < b.len() {
        let k = match style {
            3 => rng.pick(&[1usize, 2, 300, 700, 1000, 1023, 1024]).min(max),
            0 => rng.range(1, 8) as usize,
            1 => rng.range(1, max as i64) as usize,
            _ => rng.pick(&[1usize, 2, 3, 7, 64, 500, 1024]).min(max),
        };
        let e = (i + k).min(b.len());
        v.push(b[i..e].to_vec());
        i = e;
    }
    v
}

/// cuts placed preferably between CR and LF and inside multi-byte characters
fn chunk_nasty(rng: &mut Rng, b: &[u8]) -> Vec<Vec<u8>> {
    let mut cuts = vec![];
    for i in 1..b.len() {
        let inside_crlf = b[i - 1] == b'\r' && b[i] == b'\n';
        let inside_utf8 = (b[i] & 0xC0) == 0x80;
        let any = if b.len() > 3000 { rng.chance(1, 3000) } else { rng.chance(1, 40) };
        if (inside_crlf && rng.chance(2, 3)) || (inside_utf8 && rng.chance(2, 3)) || any {
            cuts.push(i);
        }
    }
    let mut v = vec![];
    let mut prev = 0;
    for c in cuts.into_iter().chain(std::iter::once(b.len())) {
        let mut s = prev;
        while s < c {
            let e = (s + 1024).min(c);
            v.push(b[s..e].to_vec());
            s = e;
        }
        prev = c;
    }
    v.retain(|c| !c.is_empty());
    v
}

fn chunk_fixed(b: &[u8], k: usize) -> Vec<Vec<u8>> {
    b.chunks(k).map(|c| c.to_vec()).collect()
}

fn rconn_line(chunks: &[Vec<u8>]) -> String {
    let mut s = String::from("rconn");
    for c in chunks {
        s.push(' ');
        s.push_str(&hx(c));
    }
    s
}

fn split_replies(b: &[u8]) -> (Vec<RespValue>, usize) {
    let mut p = RespParser::new();
    let mut v = vec![];
    let mut off = 0;
    while off < b.len() {
        match parse_with(&mut p, &b[off..]) {
            Dec::Ok(x, n) => {
                v.push(x);
                off += n;
            }
            _ => break,
        }
    }
    (v, off)
}

pub fn run(seed: u64, n: usize, out: &mut Out) {
    install_trace_capture();
    let rt = tokio::runtime::Builder::new_current_thread().enable_all().build().unwrap();
    let mut rng = Rng::new(seed);
    rt.block_on(async {
        let metrics = Arc::new(Metrics::builder().max_denied_keys(10).build());
        let store = PeriodicStore::builder().capacity(1000).build();
        let handle = RateLimiterActor::spawn_periodic(4, store, Arc::clone(&metrics));
        let port = free_port();
        let tr = RedisTransport::new("127.0.0.1", port, Arc::clone(&metrics)).unwrap();
        tokio::spawn(async move {
            let _ = tr.start(handle).await;
        });
        wait_port(port).await;
        for case in 0..n {
            let st = gen_stream(&mut rng, case);
            out.bump(&format!("streams_{}", st.kind));
            let mut chunkings: Vec<(&str, Vec<Vec<u8>>)> = vec![
                ("random", chunk_random(&mut rng, &st.bytes, 1024)),
                ("nasty", chunk_nasty(&mut rng, &st.bytes)),
            ];
            if st.kind == "edge" {
                let first = rng.range(1, 1023) as usize;
                let mut c = vec![st.bytes[..first.min(st.bytes.len())].to_vec()];
                c.extend(chunk_fixed(&st.bytes[first.min(st.bytes.len())..], 1024));
                chunkings[1] = ("offset-1024", c);
                chunkings.push(("1000", chunk_fixed(&st.bytes, 1000)));
            } else if st.bytes.len() <= 3000 {
                chunkings.push(("bytes", chunk_fixed(&st.bytes, 1)));
            } else {
                chunkings.push(("1024", chunk_fixed(&st.bytes, 1024)));
            }
            let mut results: Vec<(String, ConnResult)> = vec![];
            let mut hint = None;
            for (name, mut ch) in chunkings {
                if st.eof_at_end {
                    ch.push(vec![]);
                }
                let line = rconn_line(&ch);
                let r = run_conn(port, &ch, hint).await;
                if hint.is_none() {
                    hint = Some(r.written.len());
                }
                out.line(line.clone(), r.show());
                out.bump("connections");
                out.bump(&format!("end_{}", r.end));
                out.add("chunks", ch.len() as u64);
                let _ = name;
                results.push((line, r));
            }
            // C13: the result does not depend on the chunking
            let (l0, r0) = &results[0];
            for (l, r) in &results[1..] {
                if r != r0 && st.max_frame <= 64512 {
                    out.violation(
                        "C13",
                        format!("same byte stream, different chunking: {} bytes written / {} versus {} bytes written / {}", r0.written.len(), r0.end, r.written.len(), r.end),
                        vec![short(l0), short(l)],
                    );
                }
            }
            // C10: one reply per command, in order
            for (l, r) in &results {
                if st.kind == "edge" {
                    break;
                }
                let (vals, used) = split_replies(&r.written);
                let mut ok = used == r.written.len() && vals.len() == st.expect.len();
                if ok {
                    for (v, e) in vals.iter().zip(&st.expect) {
                        ok &= match (v, e) {
                            (RespValue::BulkString(Some(s)), Expect::Bulk(t)) => s == t,
                            (RespValue::SimpleString(s), Expect::Pong) => s == "PONG",
                            (RespValue::SimpleString(s), Expect::Ok) => s == "OK",
                            (RespValue::Error(_), Expect::Error) => true,
                            _ => false,
                        };
                    }
                }
                if !ok {
                    out.violation(
                        "C10",
                        format!("{} replies decoded ({} of {} bytes), expected {} replies in command order (stream kind {})", vals.len(), used, r.written.len(), st.expect.len(), st.kind),
                        vec![short(l)],
                    );
                }
                // expected end state from the harness's own knowledge of the stream
                let want_end = match st.kind {
                    "quit" => "quit",
                    "bad" => "error",
                    "oversize" => "overflow",
                    "eof" | "eofmid" => "eof",
                    _ => "open",
                };
                if r.end != want_end {
                    let prop = if st.kind == "big" || st.kind == "oversize" { "C13" } else { "C10" };
                    out.violation(prop, format!("connection ended '{}' where '{}' is expected (stream kind {})", r.end, want_end, st.kind), vec![short(l)]);
                }
            }
            out.note_case(&format!("{}:{}", st.kind, st.bytes.len()));
            if out.samples.len() < 4 && st.bytes.len() < 120 {
                out.sample(format!("{} -> {}", results[0].0, results[0].1.show()));
            }
        }
    });
}

fn short(l: &str) -> String {
    l.to_string()
}
