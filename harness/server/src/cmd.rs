// mode `cmd`: the per-command handler of a RESP connection against a real actor
// (C12 RESP side, C14 "every reply is one frame", C15 RESP metrics classification).
//
// lines:  rplan <value> <upperhex|->            -> reply <value> | send <keyhex|-> <burst> <count> <period> <qty>
//         rfinish <ans>                         -> <value>
//         rmetric <value> <upperhex|-> <ans|->  -> <allowed|denied> <keyhex|->|nokey
//         tstep <max> <before> <keyhex> <after> -> ok     (only after a DENIED THROTTLE whose key is longer
//                                                          than 256 bytes: what the denied-keys table did)
use crate::resp::{dec, Dec};
use crate::util::*;
use crate::metrics::table_text;
use crate::val::{bulk, hx, show, upper_of};
use std::sync::atomic::Ordering::SeqCst;
use std::sync::Arc;
use throttlecrab::PeriodicStore;
use throttlecrab_server::actor::{verif::take_log, RateLimiterActor, RateLimiterHandle};
use throttlecrab_server::metrics::Metrics;
use throttlecrab_server::transport::redis::resp::{RespSerializer, RespValue};
use throttlecrab_server::transport::redis::verif_process_command;

/// what the generator intended (the harness's own knowledge of the command it built)
#[derive(Clone, Debug)]
pub enum Intent {
    /// a THROTTLE the handler must forward: (key, burst, count, period, qty)
    Forward(String, i64, i64, i64, i64),
    /// a THROTTLE that must be refused before the limiter (arity / key / number syntax)
    Refuse,
    /// not a THROTTLE at all
    Other,
}

pub struct Counters {
    pub total: u64,
    pub http: u64,
    pub grpc: u64,
    pub redis: u64,
    pub allowed: u64,
    pub denied: u64,
    pub errors: u64,
}

fn da_dd_zero(b: &Counters, a: &Counters) -> bool {
    a.allowed == b.allowed && a.denied == b.denied && a.errors == b.errors
}

pub fn counters(m: &Metrics) -> Counters {
    Counters {
        total: m.total_requests.load(SeqCst),
        http: m.http_requests.load(SeqCst),
        grpc: m.grpc_requests.load(SeqCst),
        redis: m.redis_requests.load(SeqCst),
        allowed: m.requests_allowed.load(SeqCst),
        denied: m.requests_denied.load(SeqCst),
        errors: m.requests_errors.load(SeqCst),
    }
}

/// `max_denied_keys` of the `Metrics` this mode (and `replay`) runs against
pub const CMD_MAX_DENIED: usize = 50;

/// Keys that are hostile to the DENIED-key tracking (`Metrics::record_request_with_key(_, false, key)`,
/// its 256-byte limit, the `/metrics` label escaping): a request pair burst 1, 1 per 3600 s on each of
/// them is answered allowed, then denied.  `tag` (ASCII, at most 40 bytes) and `idx` (< 1000) make the
/// keys of different uses distinct without changing their shape.
pub fn hostile_keys(tag: &str, idx: u32) -> Vec<(&'static str, String)> {
    assert!(tag.is_ascii() && tag.len() <= 40 && idx < 1000);
    let pad = |n: usize| format!("{tag}{}", "x".repeat(n - tag.len()));
    // a 2-byte character of its own per use (U+00E9 `é` for idx 0)
    let two = char::from_u32(0xE9 + idx).unwrap();
    assert_eq!(two.len_utf8(), 2);
    let v = vec![
        ("2-byte char across byte 256", format!("{}é0123456789", pad(255))),
        ("2-byte char across byte 64, > 256 bytes", format!("{}é{}", pad(63), "y".repeat(300))),
        ("256 ASCII bytes", pad(256)),
        ("257 ASCII bytes", pad(257)),
        ("300 x 2-byte char", two.to_string().repeat(300)),
        ("quote backslash newline TAB", format!("{tag}\"q\\b\nnl\ttab")),
    ];
    debug_assert!(v[0].1.len() == 267 && !v[0].1.is_char_boundary(256) && v[1].1.len() == 365 && !v[1].1.is_char_boundary(64));
    v
}

/// byte offsets a multi-byte character is laid across by `straddle_keys`
pub const STRADDLE_OFFSETS: [usize; 8] = [16, 32, 64, 128, 255, 256, 512, 1024];

/// Keys in which the byte offset `off` falls INSIDE a multi-byte character (a 2-byte character starting at off-1, a
/// 3-byte one at off-1 and at off-2, a 4-byte one at off-2): whatever cuts, slices or truncates a key at such an offset
/// without looking for a character boundary panics.  ASCII before (starting with `tag`, at most 13 bytes), `~t` after.
pub fn straddle_keys(tag: &str, offsets: &[usize]) -> Vec<(String, String)> {
    assert!(tag.is_ascii() && tag.len() <= 13);
    let mut v = vec![];
    for &off in offsets {
        for (ch, start) in [('é', off - 1), ('日', off - 1), ('日', off - 2), ('😀', off - 2)] {
            let key = format!("{tag}{}{ch}~t", "x".repeat(start - tag.len()));
            debug_assert!(!key.is_char_boundary(off));
            // (a 3-byte character at 254 lies across 255 and across 256: keep each key once)
            if v.iter().all(|(_, k): &(String, String)| k != &key) {
                v.push((format!("{}-byte char across byte {off}", ch.len_utf8()), key));
            }
        }
    }
    v
}

/// the four kinds of request the limiter REJECTS (an error, not a decision): (burst, count, period, quantity)
pub const REJECTED: [(i64, i64, i64, i64); 4] = [(0, 1, 3600, 1), (1, 0, 3600, 1), (1, 1, 0, 1), (1, 1, 3600, -1)];

/// positive values on both sides of the widths an intermediate integer type could have (u8, u16, i32, u32, the f64
/// mantissa, i64), and multiples of 2^32 - whose low 32 bits are all zero
pub const WIDTH_EDGES: [i64; 13] = [256, 65536, (1 << 31) - 1, 1 << 31, (1 << 31) + 1, (1 << 32) - 1, 1 << 32, (1 << 32) + 1, 1 << 33, 3 << 32, 1 << 53, 1 << 62, i64::MAX];

/// the "hostile numeric lattice": every value of `WIDTH_EDGES` in EACH of max_burst, count_per_period, period and quantity,
/// one field extreme at a time while the others are valid and small (3, 2, 60, 1), then a few combinations in which all
/// fields are extreme.  (field that is extreme | "all", max_burst, count_per_period, period, quantity) - 57 requests.
/// All are well-formed positive requests: each must be ANSWERED (a decision or an error) and leave the service serving.
pub fn extreme_requests() -> Vec<(&'static str, i64, i64, i64, i64)> {
    let mut v = vec![];
    for x in WIDTH_EDGES {
        v.push(("max_burst", x, 2, 60, 1));
    }
    for x in WIDTH_EDGES {
        v.push(("count_per_period", 3, x, 60, 1));
    }
    for x in WIDTH_EDGES {
        v.push(("period", 3, 2, x, 1));
    }
    for x in WIDTH_EDGES {
        v.push(("quantity", 3, 2, 60, x));
    }
    for x in [1i64 << 31, 1 << 32, 3 << 32, i64::MAX] {
        v.push(("all", x, x, x, x));
    }
    v.push(("all", 1 << 33, 1 << 32, 3 << 32, 1));
    v
}

/// prefix lengths of the key families
pub const FAMILY_PREFIXES: [usize; 5] = [1024, 64, 256, 4096, 16384];

/// DISTINCT long keys (1025 ..= `max_len` bytes) that share a long prefix:
///   s1 = prefix A fill      s2 = prefix B fill      (same length, one differing character right after the prefix)
///   s3 = s1 + 1..40 more bytes (differs from s1 in length only)     s4 = s1 with another last byte
/// `prefix_len` bytes are shared by all four (in the multi-byte flavour the prefix is made of 2- and 3-byte characters, a
/// 2-byte character lies ACROSS offset `prefix_len` half of the time, and A / B are `é` / `ë`, which differ in their second
/// byte).  A limiter that keys its buckets by anything less than the whole key gives two of them one bucket.
pub struct Family {
    pub what: String,
    pub keys: Vec<String>,
}

pub fn prefix_family(rng: &mut Rng, tag: &str, prefix_len: usize, multibyte: bool, max_len: usize) -> Family {
    assert!(tag.is_ascii() && tag.len() + 4 <= prefix_len);
    let mut prefix = String::from(tag);
    let (a, b) = if multibyte { ('é', 'ë') } else { ('A', 'B') };
    let straddle = multibyte && rng.chance(1, 2);
    let body_len = if straddle { prefix_len - 1 } else { prefix_len };
    while prefix.len() < body_len {
        let c = if multibyte { rng.pick(&['é', 'ü', '日', 'x', 'ß']) } else { (b'a' + rng.below(26) as u8) as char };
        if prefix.len() + c.len_utf8() <= body_len {
            prefix.push(c);
        } else {
            prefix.push('x');
        }
    }
    if straddle {
        // shared as well: the keys part one character later
        prefix.push('é');
    }
    let lo = (prefix.len() + 8).max(1025);
    let total = match rng.below(8) {
        0 => lo,
        1 => lo + 1,
        2 if max_len > 20_000 => rng.range(20_000, max_len as i64) as usize,
        3 if max_len > 20_000 => max_len - 50,
        _ => (lo + rng.range(2, 2000) as usize).min(max_len - 50),
    }
    .max(lo);
    let fill_len = total - prefix.len() - a.len_utf8();
    let fill: String = (0..fill_len).map(|_| (b'a' + rng.below(26) as u8) as char).collect();
    let s1 = format!("{prefix}{a}{fill}");
    let s2 = format!("{prefix}{b}{fill}");
    let s3 = format!("{s1}{}", "a".repeat(rng.range(1, 40) as usize));
    let mut s4 = s1.clone();
    let last = s4.pop().unwrap();
    s4.push(if last == 'q' { 'r' } else { 'q' });
    let keys = vec![s1, s2, s3, s4];
    debug_assert!(keys.iter().all(|k| k.len() >= 1025 && k.len() <= max_len && k.starts_with(&prefix)));
    Family {
        what: format!("{} keys of {} bytes sharing a prefix of {} bytes{}", keys.len(), keys.iter().map(|k| k.len().to_string()).collect::<Vec<_>>().join("/"), prefix.len(), if multibyte { " (multi-byte characters)" } else { "" }),
        keys,
    }
}

/// four DISTINCT short keys that a "normalising" server would confuse: a base key and variants that differ
/// only by trailing / leading white space or line breaks, a trailing NUL or slash, letter case, or the Unicode
/// composition of one character (precomposed `é` vs `e` + combining acute).  Byte-for-byte different keys
/// are different keys (C05), on every transport (C09, C12).
pub fn near_family(rng: &mut Rng, tag: &str) -> Family {
    let n = rng.range(4, 16) as usize;
    let mut base = String::from(tag);
    for _ in 0..n {
        base.push((b'a' + rng.below(26) as u8) as char);
    }
    base.push('é');
    base.push_str("-17");
    let mut vars: Vec<String> = vec![
        format!("{base}\n"),
        format!("{base}\r\n"),
        format!("{base} "),
        format!(" {base}"),
        format!("{base}\t"),
        format!("{base}\0"),
        format!("{base}/"),
        base.to_uppercase(),
        base.replace('é', "e\u{301}"),
        format!("{base}\n\n"),
    ];
    // three of them around the base key: always one that differs by a trailing line break, one that differs by a
    // trailing / leading blank, TAB, NUL or slash, and one of the case / composition / double-line-break variants.
    // The base key and the line-break twin come first (the callers exercise the first three keys in turn and
    // race on the fourth)
    let lb = vars[rng.below(2) as usize].clone();
    let ws = vars[2 + rng.below(5) as usize].clone();
    let other = vars[7 + rng.below(3) as usize].clone();
    vars.clear();
    let mut keys: Vec<String> = if rng.chance(1, 2) { vec![base.clone(), lb, ws, other] } else { vec![lb, base.clone(), other, ws] };
    if rng.chance(1, 3) {
        keys.swap(2, 3);
    }
    Family { what: format!("4 near-identical keys: {:?}", keys), keys }
}

/// one numeric argument: (RESP value, Some(n) if Rust's i64 parse accepts it)
fn num_arg(rng: &mut Rng, n: i64) -> RespValue {
    match rng.below(10) {
        0..=4 => bulk(&n.to_string()),
        5..=7 => RespValue::Integer(n),
        8 if n >= 0 => bulk(&format!("+{n}")),
        _ => {
            if n >= 0 {
                bulk(&format!("00{n}"))
            } else {
                bulk(&format!("-00{}", n.unsigned_abs()))
            }
        }
    }
}

fn bad_num(rng: &mut Rng) -> RespValue {
    match rng.below(16) {
        0 => bulk(""),
        1 => bulk("abc"),
        2 => bulk("1.5"),
        3 => bulk("1e3"),
        4 => bulk(" 5"),
        5 => bulk("5 "),
        6 => bulk("0x10"),
        7 => bulk("9223372036854775808"),
        8 => bulk("-9223372036854775809"),
        9 => bulk("--5"),
        10 => bulk("+-5"),
        11 => bulk("٥"),
        12 => bulk("５"),
        13 => RespValue::BulkString(None),
        14 => RespValue::Array(vec![RespValue::Integer(5)]),
        _ => RespValue::SimpleString("5".into()),
    }
}

fn throttle_name(rng: &mut Rng) -> String {
    match rng.below(5) {
        0 => "THROTTLE".into(),
        1 => "throttle".into(),
        2 => "ThRoTtLe".into(),
        _ => "throttle".chars().map(|c| if rng.chance(1, 2) { c.to_ascii_uppercase() } else { c }).collect(),
    }
}

fn any_value(rng: &mut Rng) -> RespValue {
    match rng.below(10) {
        0 => RespValue::Array(vec![RespValue::Integer(0); 5]),
        1 => RespValue::Array((1..=5).map(RespValue::Integer).collect()),
        2 => RespValue::Array(vec![bulk("a"), bulk("b"), bulk("c"), bulk("d"), bulk("e"), bulk("f")]),
        3 => RespValue::Array(vec![RespValue::Integer(0); 4]),
        4 => RespValue::Array(vec![RespValue::Integer(2), RespValue::Integer(1), RespValue::Integer(1), RespValue::Integer(1), RespValue::Integer(1), RespValue::Integer(1)]),
        5 => bulk("hello"),
        6 => RespValue::BulkString(None),
        7 => RespValue::Integer(rng.range(-5, 5)),
        _ => {
            let mut r = rng.fork();
            crate::resp::gen_value(&mut r, 2, true)
        }
    }
}

pub fn gen_command(rng: &mut Rng, keys: &[String]) -> (RespValue, Intent) {
    let k = rng.below(100);
    if k < 12 {
        // PING with 0,1,2 args
        let mut xs = vec![bulk(&rng.pick(&["PING", "ping", "PiNg", "pıng"]))];
        let nargs = rng.pick(&[0usize, 1, 1, 1, 2]);
        for _ in 0..nargs {
            xs.push(any_value(rng));
        }
        (RespValue::Array(xs), Intent::Other)
    } else if k < 15 {
        let mut xs = vec![bulk(&rng.pick(&["QUIT", "quit", "Quit", "quıt"]))];
        if rng.chance(1, 3) {
            xs.push(any_value(rng));
        }
        (RespValue::Array(xs), Intent::Other)
    } else if k < 27 {
        // unknown names
        let name = rng.pick(&[
            "GET", "SET", "throttl", "THROTTLES", "", " ", "PING ", "ß", "ǆ", "straße", "ǆabc", "a\r\nb", "\r\n", "x\r\n+OK", "PING\r\n", "a\rb", "a\nb", "it's", "\"q\"", "日本", "\u{0}", "pıng2",
            "throttle\r\n:1\r\n:1\r\n:1\r\n:1\r\n:1", "ﬁ",
        ]);
        let mut xs = vec![bulk(name)];
        for _ in 0..rng.below(4) {
            xs.push(any_value(rng));
        }
        (RespValue::Array(xs), Intent::Other)
    } else if k < 33 {
        // not a command array at all / bad first element
        let v = match rng.below(8) {
            0 => RespValue::Array(vec![]),
            1 => RespValue::SimpleString("PING".into()),
            2 => bulk("PING"),
            3 => RespValue::Integer(1),
            4 => RespValue::BulkString(None),
            5 => RespValue::Array(vec![RespValue::BulkString(None), bulk("x")]),
            6 => RespValue::Array(vec![RespValue::Integer(5)]),
            _ => RespValue::Array(vec![RespValue::SimpleString("PING".into())]),
        };
        (v, Intent::Other)
    } else if k < 50 {
        // THROTTLE refused: arity / key / numbers
        let name = throttle_name(rng);
        let key = rng.pick(keys);
        let mut xs = vec![bulk(&name)];
        let which = rng.below(4);
        match which {
            0 => {
                // wrong arity: total elements 1..4 or 7..8
                let total = rng.pick(&[1usize, 2, 3, 4, 7, 8]);
                let all = [bulk(&key), bulk("2"), bulk("1"), bulk("60"), bulk("1"), bulk("1"), bulk("1")];
                xs.extend(all.iter().take(total - 1).cloned());
            }
            1 => {
                // bad key
                xs.push(rng.pick(&[RespValue::BulkString(None), RespValue::Integer(5), RespValue::SimpleString("k".into()), RespValue::Array(vec![])]));
                xs.extend([bulk("2"), bulk("1"), bulk("60")]);
                if rng.chance(1, 2) {
                    xs.push(bulk("1"));
                }
            }
            _ => {
                // one bad number
                let with_q = rng.chance(1, 2);
                let n = if with_q { 4 } else { 3 };
                let bad = rng.below(n) as usize;
                xs.push(bulk(&key));
                for i in 0..n as usize {
                    if i == bad {
                        xs.push(bad_num(rng));
                    } else {
                        xs.push(num_arg(rng, [2, 1, 60, 1][i]));
                    }
                }
            }
        }
        (RespValue::Array(xs), Intent::Refuse)
    } else {
        // THROTTLE forwarded
        let name = throttle_name(rng);
        let key = if rng.chance(1, 12) { rng.pick(&["", "k\r\nx", "é", "k with space", "'"]).to_string() } else { rng.pick(keys) };
        let (b, c, p, q, with_q);
        let kind = rng.below(20);
        if kind < 14 {
            b = rng.range(1, 3);
            c = rng.range(1, 5);
            p = rng.pick(&[60i64, 3600, 86400]);
            with_q = rng.chance(1, 2);
            q = if with_q { rng.pick(&[1i64, 1, 1, 0, 2, 5]) } else { 1 };
        } else if kind < 17 {
            // limiter errors
            let t = rng.below(4);
            b = if t == 0 { rng.pick(&[0i64, -1, i64::MIN]) } else { 2 };
            c = if t == 1 { rng.pick(&[0i64, -1, i64::MIN]) } else { 1 };
            p = if t == 2 { rng.pick(&[0i64, -1, i64::MIN]) } else { 60 };
            with_q = t == 3 || rng.chance(1, 2);
            q = if t == 3 { rng.pick(&[-1i64, i64::MIN, -5]) } else { 1 };
        } else {
            // extreme but legal
            b = rng.pick(&[1i64, i64::MAX, 1 << 32, (1 << 53) + 1]);
            c = rng.pick(&[1i64, i64::MAX, 9223372037]);
            p = rng.pick(&[1i64, i64::MAX, 9223372037, 1 << 31]);
            with_q = rng.chance(1, 2);
            q = if with_q { rng.pick(&[0i64, 1, i64::MAX]) } else { 1 };
        }
        let mut xs = vec![bulk(&name), bulk(&key), num_arg(rng, b), num_arg(rng, c), num_arg(rng, p)];
        if with_q {
            xs.push(num_arg(rng, q));
        }
        (RespValue::Array(xs), Intent::Forward(key, b, c, p, q))
    }
}

pub struct Executed {
    pub reply: Option<RespValue>, // None = the handler panicked
    pub log: Vec<String>,
    pub lines: Vec<(String, String)>,
}

fn table_str(t: &Option<Vec<(String, u64)>>) -> Vec<(String, u64)> {
    t.clone().unwrap_or_default()
}

/// run one command on the real handler and produce its driver lines + implementation answers
pub async fn exec_command(v: &RespValue, handle: &RateLimiterHandle, metrics: &Arc<Metrics>) -> (Executed, Counters, Counters, Option<String>) {
    take_log();
    let before = counters(metrics);
    let tab_before = table_str(&metrics.verif_denied_table());
    let (h2, m2, v2) = (handle.clone(), Arc::clone(metrics), v.clone());
    let reply = tokio::spawn(async move { verif_process_command(v2, &h2, &m2).await }).await.ok();
    let log = take_log();
    let after = counters(metrics);
    let tab_after = table_str(&metrics.verif_denied_table());
    let vtxt = show(v);
    let up = upper_of(v);
    let mut lines = vec![];
    let proc_line = log.iter().find(|l| l.starts_with("proc "));
    let mut ans = "-".to_string();
    match (&reply, proc_line) {
        (None, _) => {
            lines.push((format!("rplan {vtxt} {up}"), "panic".into()));
        }
        (Some(r), None) => {
            lines.push((format!("rplan {vtxt} {up}"), format!("reply {}", show(r))));
        }
        (Some(r), Some(pl)) => {
            // proc <key>:<b>:<c>:<p>:<q>:<ts> -> <resp>
            let body = &pl[5..];
            let (id, resp) = body.split_once(" -> ").unwrap();
            let f: Vec<&str> = id.split(':').collect();
            lines.push((format!("rplan {vtxt} {up}"), format!("send {} {} {} {} {}", f[0], f[1], f[2], f[3], f[4])));
            ans = if resp == "err" {
                let txt = match r {
                    RespValue::Error(e) => e.strip_prefix("ERR ").unwrap_or(e).to_string(),
                    _ => String::new(),
                };
                format!("err:{}", hx(txt.as_bytes()))
            } else {
                resp.replace(',', ":")
            };
            lines.push((format!("rfinish {ans}"), show(r)));
        }
    }
    // metrics classification as observed
    let da = after.allowed - before.allowed;
    let dd = after.denied - before.denied;
    let moved_key: Option<String> = {
        let mut k = None;
        for (key, c) in &tab_after {
            let old = tab_before.iter().find(|(k2, _)| k2 == key).map(|x| x.1).unwrap_or(0);
            if *c != old {
                k = Some(key.clone());
            }
        }
        k
    };
    let throttle_key = match v {
        RespValue::Array(xs) if up == hx(b"THROTTLE") => match xs.get(1) {
            Some(RespValue::BulkString(Some(k))) => Some(k.clone()),
            _ => None,
        },
        _ => None,
    };
    // A denied THROTTLE whose key is longer than 256 bytes: the model's `rmetric` answer names the key
    // HANDED to the tracker; the tracker then ignores it (`tstep` in the model).  The table is the only
    // thing observable here, so the two halves are reported as: the `rmetric` key = the key whose
    // count moved, or - when NO count moved and the table is unchanged - the over-long THROTTLE key;
    // plus a `tstep` line with the table before / after, which the model accepts only if the table did
    // what it must do with that key (nothing).  A tracker that counts an over-long key, a cut-down
    // copy of it, or some other key shows up in one of the two lines.
    let long_denied = match &throttle_key {
        Some(k) if da == 0 && dd == 1 && k.len() > 256 => Some(k.clone()),
        _ => None,
    };
    let cls = if da == 1 && dd == 0 {
        format!("allowed {}", throttle_key.as_ref().map(|k| hx(k.as_bytes())).unwrap_or("nokey".into()))
    } else if da == 0 && dd == 1 {
        let shown = match (&moved_key, &long_denied) {
            (Some(k), _) => hx(k.as_bytes()),
            (None, Some(k)) if tab_before == tab_after => hx(k.as_bytes()),
            _ => "nokey".into(),
        };
        format!("denied {shown}")
    } else {
        if da == 0 && dd == 0 { "uncounted".to_string() } else { format!("unclassified allowed+{da} denied+{dd}") }
    };
    if reply.is_some() {
        lines.push((format!("rmetric {vtxt} {up} {ans}"), cls));
        if let Some(k) = &long_denied {
            lines.push((format!("tstep {CMD_MAX_DENIED} {} {} {}", table_text(&tab_before), hx(k.as_bytes()), table_text(&tab_after)), "ok".into()));
        }
    }
    (Executed { reply, log, lines }, before, after, moved_key)
}

pub fn run(seed: u64, n: usize, out: &mut Out) {
    // the handler runs with the most verbose logging enabled (see `install_trace_capture`)
    crate::conn::install_trace_capture();
    let rt = tokio::runtime::Builder::new_current_thread().enable_all().build().unwrap();
    let mut rng = Rng::new(seed);
    let batches = n.max(1);
    rt.block_on(async {
        for batch in 0..batches {
            let metrics = Arc::new(Metrics::builder().max_denied_keys(CMD_MAX_DENIED).build());
            let store = PeriodicStore::builder().capacity(1000).cleanup_interval(std::time::Duration::from_secs(60)).build();
            let handle = RateLimiterActor::spawn_periodic(rng.pick(&[1usize, 2, 100]), store, Arc::clone(&metrics));
            let keys: Vec<String> = (0..3).map(|i| format!("k{}_{}", i, rng.below(1000))).collect();
            let mut batch_replay: Vec<String> = vec![];
            // the 50 generated commands; every 4th batch also carries the hostile-key pairs: THROTTLE
            // <key> 1 1 3600 twice IN A ROW (first allowed, second DENIED = the denied-key tracking path
            // runs with that key), each pair at a seed-chosen place among the other commands
            let mut units: Vec<Vec<(RespValue, Intent, Option<&'static str>)>> = (0..50)
                .map(|_| {
                    let (v, intent) = gen_command(&mut rng, &keys);
                    vec![(v, intent, None)]
                })
                .collect();
            if batch % 4 == 0 {
                for (what, key) in hostile_keys(&format!("hk{batch}_"), (batch % 1000) as u32) {
                    let mut pair = vec![];
                    for half in ["hostile-1st", "hostile-2nd"] {
                        let mut xs = vec![bulk(&throttle_name(&mut rng)), bulk(&key), num_arg(&mut rng, 1), num_arg(&mut rng, 1), num_arg(&mut rng, 3600)];
                        if rng.chance(1, 2) {
                            xs.push(num_arg(&mut rng, 1));
                        }
                        pair.push((RespValue::Array(xs), Intent::Forward(key.clone(), 1, 1, 3600, 1), Some(half)));
                    }
                    let _ = what;
                    let at = rng.below(units.len() as u64 + 1) as usize;
                    units.insert(at, pair);
                }
                // requests the limiter REJECTS (its error path runs, with TRACE logging enabled), on every hostile key and
                // on keys with a multi-byte character across offsets 16 .. 1024 (two offsets per hostile batch, in turn)
                let k = batch / 4;
                let offs = [STRADDLE_OFFSETS[(2 * k) % 8], STRADDLE_OFFSETS[(2 * k + 1) % 8]];
                let tag = format!("r{}_", batch % 10000);
                let mut keys: Vec<String> = hostile_keys(&tag, (batch % 1000) as u32).into_iter().map(|x| x.1).collect();
                keys.extend(straddle_keys(&tag, &offs).into_iter().map(|x| x.1));
                for key in keys {
                    let mut unit = vec![];
                    for (b, c, p, q) in REJECTED {
                        let mut xs = vec![bulk(&throttle_name(&mut rng)), bulk(&key), num_arg(&mut rng, b), num_arg(&mut rng, c), num_arg(&mut rng, p)];
                        if q != 1 || rng.chance(1, 2) {
                            xs.push(num_arg(&mut rng, q));
                        }
                        unit.push((RespValue::Array(xs), Intent::Forward(key.clone(), b, c, p, q), Some("rejected")));
                    }
                    let at = rng.below(units.len() as u64 + 1) as usize;
                    units.insert(at, unit);
                }
                // a family of distinct long keys with a shared prefix: each is exhausted in turn (burst 1: allowed, then
                // denied); every sibling must start fresh
                let fam = if rng.chance(1, 3) {
                    near_family(&mut rng, &format!("nf{}_", batch % 10000))
                } else {
                    prefix_family(&mut rng, &format!("fam{}_", batch % 10000), [1024usize, 64, 256][k % 3], k % 2 == 1, 2500)
                };
                let mut unit = vec![];
                for key in &fam.keys {
                    for half in ["family-1st", "family-2nd"] {
                        let xs = vec![bulk(&throttle_name(&mut rng)), bulk(key), num_arg(&mut rng, 1), num_arg(&mut rng, 1), num_arg(&mut rng, 3600)];
                        unit.push((RespValue::Array(xs), Intent::Forward(key.clone(), 1, 1, 3600, 1), Some(half)));
                    }
                }
                let at = rng.below(units.len() as u64 + 1) as usize;
                units.insert(at, unit);
            }
            if batch % 4 == 2 {
                // the hostile numeric lattice (`extreme_requests`: 2^31, 2^32, 2^33, 3 x 2^32, 2^53, 2^63-1, ... in each field,
                // one field at a time): a quarter of it per such batch, in turn; one key per extreme field; then a probe
                let k = batch / 4;
                let mut unit = vec![];
                for (i, (field, b, c, p, q)) in extreme_requests().into_iter().enumerate() {
                    if i % 4 != k % 4 {
                        continue;
                    }
                    let key = format!("x{}_{field}", batch % 10000);
                    let mut xs = vec![bulk(&throttle_name(&mut rng)), bulk(&key), num_arg(&mut rng, b), num_arg(&mut rng, c), num_arg(&mut rng, p)];
                    if q != 1 || rng.chance(1, 2) {
                        xs.push(num_arg(&mut rng, q));
                    }
                    unit.push((RespValue::Array(xs), Intent::Forward(key, b, c, p, q), Some("extreme")));
                }
                let key = format!("xprobe{}", batch % 10000);
                let xs = vec![bulk("THROTTLE"), bulk(&key), num_arg(&mut rng, 2), num_arg(&mut rng, 1), num_arg(&mut rng, 60)];
                unit.push((RespValue::Array(xs), Intent::Forward(key, 2, 1, 60, 1), Some("extreme-probe")));
                let at = rng.below(units.len() as u64 + 1) as usize;
                units.insert(at, unit);
            }
            let mut limiter_gone = false;
            for (v, intent, hostile) in units.into_iter().flatten() {
                let (ex, before, after, _moved) = exec_command(&v, &handle, &metrics).await;
                let vtxt = show(&v);
                out.note_case(&format!("{vtxt}"));
                out.bump("commands");
                let these: Vec<String> = ex.lines.iter().map(|(o, i)| format!("{o}    # impl -> {i}")).collect();
                for (o, i) in &ex.lines {
                    out.line(o.clone(), i.clone());
                }
                let Some(reply) = &ex.reply else {
                    out.violation("C11", "process_command panicked".into(), these.clone());
                    continue;
                };
                let procs: Vec<&String> = ex.log.iter().filter(|l| l.starts_with("proc ")).collect();
                // --- C14: the reply is exactly one frame.  Only commands that can arrive over the
                // wire count: a command value is what the decoder produced, so it must survive
                // serialize -> parse unchanged (e.g. no CR LF inside a simple string).
                let cmd_bytes = RespSerializer::serialize(&v);
                let on_wire = matches!(dec(&cmd_bytes), Dec::Ok(ref v0, c0) if c0 == cmd_bytes.len() && v0 == &v);
                if !on_wire {
                    out.bump("commands_not_representable_on_the_wire");
                }
                let bytes = RespSerializer::serialize(reply);
                match dec(&bytes) {
                    Dec::Ok(v2, c) if c == bytes.len() && &v2 == reply => {}
                    _ if !on_wire => {}
                    other => {
                        let o = other.show();
                        out.violation(
                            "C14",
                            format!("reply bytes {} do not decode to exactly the one reply value (decode: {})", hx(&bytes[..bytes.len().min(80)]), &o[..o.len().min(120)]),
                            these.clone(),
                        );
                    }
                }
                // --- C15: classification + identities
                let denied_decision = procs.first().map(|p| p.contains(" -> ok,0,")).unwrap_or(false);
                let dd = after.denied - before.denied;
                if (dd == 1) != denied_decision || dd > 1 {
                    out.violation(
                        "C15",
                        format!("requests_denied moved by {dd} but the command {} a THROTTLE answered allowed=0", if denied_decision { "was" } else { "was not" }),
                        these.clone(),
                    );
                }
                if after.total == before.total && after.redis == before.redis && da_dd_zero(&before, &after) {
                    // early returns of process_command (non-array, empty array, first element not a
                    // bulk string) reply with an error but record nothing
                    // (not a C15 violation: the identities still hold; the rmetric answer is `uncounted`)
                    out.bump("answered_but_uncounted");
                    if !matches!(reply, RespValue::Error(e) if e == "ERR expected array of commands" || e == "ERR empty command" || e == "ERR invalid command format") {
                        out.violation("C15", format!("a RESP command answered {} moved no counter", show(reply)), these.clone());
                    }
                } else if after.total != before.total + 1
                    || after.redis != before.redis + 1
                    || after.total != after.http + after.grpc + after.redis
                    || after.total != after.allowed + after.denied + after.errors
                {
                    out.violation(
                        "C15",
                        format!("counter identities broken after one RESP command: total {}->{} redis {}->{} allowed {} denied {} errors {}", before.total, after.total, before.redis, after.redis, after.allowed, after.denied, after.errors),
                        these.clone(),
                    );
                }
                // --- C12
                match &intent {
                    Intent::Refuse | Intent::Other => {
                        if !procs.is_empty() {
                            out.violation("C12", format!("a command that must be refused reached the limiter: {}", procs[0]), these.clone());
                        }
                        if matches!(intent, Intent::Refuse) {
                            out.bump("throttle_refused");
                            if !matches!(reply, RespValue::Error(_)) {
                                out.violation("C12", "malformed THROTTLE did not get an error reply".into(), these.clone());
                            }
                        }
                    }
                    Intent::Forward(key, b, c, p, q) => {
                        out.bump("throttle_forwarded");
                        let gone = matches!(reply, RespValue::Error(e) if e.contains("actor has shut down") || e.contains("dropped response channel"));
                        if procs.is_empty() && gone {
                            // the limiter no longer serves: some earlier request of this batch stopped it
                            if !limiter_gone {
                                limiter_gone = true;
                                let mut replay = batch_replay.iter().rev().take(12).rev().cloned().collect::<Vec<_>>();
                                replay.extend(these.clone());
                                let txt = if let RespValue::Error(e) = reply { e.clone() } else { show(reply) };
                                out.violation("C11", format!("a well-formed THROTTLE is answered {txt:?} - the limiter stopped serving after an earlier request of this batch (TRACE logging enabled)"), replay);
                            }
                        } else if procs.len() != 1 {
                            out.violation("C12", format!("well-formed THROTTLE produced {} limiter calls", procs.len()), these.clone());
                        } else {
                            let body = &procs[0][5..];
                            let (id, resp) = body.split_once(" -> ").unwrap();
                            let want_id = format!("{}:{b}:{c}:{p}:{q}:", hx(key.as_bytes()));
                            if !id.starts_with(&want_id) {
                                out.violation("C12", format!("limiter saw request {id} for arguments {want_id}<ts>"), these.clone());
                            }
                            if resp == "err" {
                                out.bump("limiter_errors");
                                if !matches!(reply, RespValue::Error(_)) {
                                    out.violation("C12", "limiter error not reported as error reply".into(), these.clone());
                                }
                            } else {
                                let want: Vec<RespValue> = resp.split(',').skip(1).map(|x| RespValue::Integer(x.parse().unwrap())).collect();
                                if resp.contains("ok,1,") {
                                    out.bump("answers_allowed");
                                } else {
                                    out.bump("answers_denied");
                                }
                                if reply != &RespValue::Array(want) {
                                    out.violation("C12", format!("reply {} differs from the limiter's answer {resp}", show(reply)), these.clone());
                                }
                            }
                        }
                    }
                }
                // --- the hostile-key pair: answered allowed (remaining 0), then denied (remaining 0)
                if let Some(half) = hostile.filter(|h| h.starts_with("hostile")) {
                    out.bump("hostile_key_commands");
                    let want = if half == "hostile-1st" { " -> ok,1,1,0," } else { " -> ok,0,1,0," };
                    if !(procs.len() == 1 && procs[0].contains(want)) && !limiter_gone {
                        out.violation(
                            "C12",
                            format!("{half} THROTTLE <hostile key> 1 1 3600 on a fresh limiter: limiter log {procs:?}, reply {}; want the decision{want}..", show(reply)),
                            these.clone(),
                        );
                    }
                    if half == "hostile-2nd" {
                        out.bump("hostile_keys_denied");
                    }
                }
                if let Some(half) = hostile.filter(|h| h.starts_with("family")) {
                    out.bump("family_key_commands");
                    let want = if half == "family-1st" { " -> ok,1,1,0," } else { " -> ok,0,1,0," };
                    if !(procs.len() == 1 && procs[0].contains(want)) && !limiter_gone {
                        let klen = if let Intent::Forward(k, ..) = &intent { k.len() } else { 0 };
                        let shown: Vec<String> = procs.iter().map(|p| p.rsplit(" -> ").next().unwrap_or("").to_string()).collect();
                        out.violation(
                            "C09",
                            format!("{half} THROTTLE <key of {klen} bytes> 1 1 3600, the key being one of several distinct long keys that share a prefix, each used for the first time in this batch: the limiter decided {shown:?}, reply {}; want{want}.. (budgets of distinct keys are independent)", show(reply)),
                            these.iter().map(|l| if l.len() > 600 { format!("{}...", &l[..600]) } else { l.clone() }).collect(),
                        );
                    }
                }
                if hostile == Some("extreme") {
                    out.bump("extreme_number_commands");
                }
                if hostile == Some("extreme-probe") {
                    out.bump("extreme_number_probes");
                    if !(procs.len() == 1 && procs[0].contains(" -> ok,1,2,1,")) && !limiter_gone {
                        out.violation("C11", format!("after THROTTLEs with extreme (positive, well-formed) numbers the probe THROTTLE <fresh key> 2 1 60 gives limiter log {:?}, reply {}; want the decision ok,1,2,1,..", procs.iter().map(|p| p.rsplit(" -> ").next().unwrap_or("")).collect::<Vec<_>>(), show(reply)), {
                            let mut replay = batch_replay.iter().rev().take(16).rev().cloned().collect::<Vec<_>>();
                            replay.extend(these.clone());
                            replay
                        });
                    }
                }
                if hostile == Some("rejected") {
                    out.bump("rejected_hostile_key_commands");
                    if !(procs.len() == 1 && procs[0].ends_with(" -> err")) && !limiter_gone {
                        out.violation("C11", format!("a THROTTLE with invalid limits on a hostile key: limiter log {:?}, reply {}; want one limiter call answered with an error", procs.iter().map(|p| p.rsplit(" -> ").next().unwrap_or("")).collect::<Vec<_>>(), show(reply)), these.clone());
                    }
                }
                batch_replay.extend(these);
                if out.samples.len() < 6 && matches!(intent, Intent::Forward(..)) {
                    out.sample(ex.lines.iter().map(|(o, i)| format!("{o} -> {i}")).collect::<Vec<_>>().join(" ; "));
                }
            }
            let _ = batch_replay;
        }
    });
}
