// mode `resp`: the RESP parser / serializer in-process (C13, C14).
//
// lines:  rdec <hex|->   -> ok <consumed> <value> | incomplete | error     (| panic: never expected)
//         renc <value>   -> <hex>
use crate::util::*;
use crate::val::{hx, show};
use std::panic::{catch_unwind, AssertUnwindSafe};
use throttlecrab_server::transport::redis::resp::{RespParser, RespSerializer, RespValue};

#[derive(Clone, Debug, PartialEq)]
pub enum Dec {
    Ok(RespValue, usize),
    Incomplete,
    Error,
    Panic,
}

impl Dec {
    pub fn show(&self) -> String {
        match self {
            Dec::Ok(v, n) => format!("ok {n} {}", show(v)),
            Dec::Incomplete => "incomplete".into(),
            Dec::Error => "error".into(),
            Dec::Panic => "panic".into(),
        }
    }
}

pub fn parse_with(p: &mut RespParser, d: &[u8]) -> Dec {
    match catch_unwind(AssertUnwindSafe(|| p.parse(d))) {
        Ok(Ok(Some((v, n)))) => Dec::Ok(v, n),
        Ok(Ok(None)) => Dec::Incomplete,
        Ok(Err(_)) => Dec::Error,
        Err(_) => Dec::Panic,
    }
}

/// fresh `RespParser::new()`, one `parse` call
pub fn dec(d: &[u8]) -> Dec {
    parse_with(&mut RespParser::new(), d)
}

pub fn enc(v: &RespValue) -> Option<Vec<u8>> {
    catch_unwind(AssertUnwindSafe(|| RespSerializer::serialize(v))).ok()
}

pub fn rdec_line(d: &[u8]) -> String {
    format!("rdec {}", hx(d))
}

pub const ALPHABET: [u8; 13] = [b'+', b'-', b':', b'$', b'*', b'\r', b'\n', b'0', b'1', b'2', b'a', 0xC3, 0xA9];

struct Ctx<'a> {
    out: &'a mut Out,
    rng: Rng,
    /// one long-lived parser: must behave like a fresh one after every Ok / "need more data"
    shared: RespParser,
}

impl Ctx<'_> {
    /// emit the rdec line for `d`, run the per-buffer oracles, return the outcome
    fn check(&mut self, d: &[u8], stability: bool) -> Dec {
        let r = dec(d);
        let line = rdec_line(d);
        self.out.line(line.clone(), r.show());
        match &r {
            Dec::Panic => self.out.violation("C13", "RespParser::parse panicked".into(), vec![line.clone()]),
            Dec::Ok(_, n) => {
                self.out.bump("dec_ok");
                if *n < 1 || *n > d.len() {
                    self.out.violation("C13", format!("consumed={n} outside 1..={}", d.len()), vec![line.clone()]);
                }
            }
            Dec::Incomplete => self.out.bump("dec_incomplete"),
            Dec::Error => self.out.bump("dec_error"),
        }
        // reuse: the long-lived parser must agree with the fresh one
        let rs = parse_with(&mut self.shared, d);
        if rs != r {
            self.out.violation(
                "C13",
                format!("a parser reused after Ok/need-more-data answers {} where a fresh one answers {}", rs.show(), r.show()),
                vec![line.clone()],
            );
            self.shared = RespParser::new();
        }
        if matches!(rs, Dec::Error | Dec::Panic) {
            // a connection is closed after an error; depth is only promised after Ok/None
            self.shared = RespParser::new();
        }
        // prefix stability: a decided outcome never changes when more bytes arrive
        if stability && matches!(r, Dec::Ok(..) | Dec::Error) {
            for _ in 0..2 {
                let x = self.suffix();
                if x.is_empty() {
                    continue;
                }
                let mut e = d.to_vec();
                e.extend_from_slice(&x);
                let r2 = dec(&e);
                self.out.line(rdec_line(&e), r2.show());
                self.out.bump("stability_checks");
                if r2 != r {
                    self.out.violation(
                        "C13",
                        format!("outcome {} changes to {} when {} more bytes arrive", r.show(), r2.show(), x.len()),
                        vec![line.clone(), rdec_line(&e)],
                    );
                }
            }
        }
        r
    }

    fn suffix(&mut self) -> Vec<u8> {
        let k = self.rng.pick(&[0u64, 1, 1, 2, 3, 5, 9]);
        (0..k)
            .map(|_| if self.rng.chance(3, 4) { self.rng.pick(&ALPHABET) } else { self.rng.below(256) as u8 })
            .collect()
    }
}

// ----------------------------------------------------------------------------------------
// generators
// ----------------------------------------------------------------------------------------
pub fn gen_string(rng: &mut Rng, allow_crlf: bool) -> String {
    let kind = rng.below(12);
    let mut s = match kind {
        0 => String::new(),
        1 => "OK".into(),
        2 => rng.pick(&["PING", "hello world", "key:1", " ", "'", "\"", "\\", "0", "-1", "+5"]).to_string(),
        3 => "é".into(),
        4 => rng.pick(&["ß", "ǆ", "日本語", "\u{10348}", "\u{0}", "\u{7f}", "\u{80}", "\u{9f}", "a\tb", "\u{feff}"]).to_string(),
        5 => {
            // lone CR / lone LF (legal everywhere)
            rng.pick(&["a\rb", "a\nb", "\r", "\n", "\n\r", "x\r", "\rx"]).to_string()
        }
        6 => {
            let n = rng.range(1, 40) as usize;
            (0..n).map(|_| rng.pick(&['a', 'b', '0', ' ', ':', '$', '*', '+', '-', 'é', '\n', '\r'])).collect()
        }
        7 => {
            let n = rng.pick(&[255usize, 256, 257, 1000, 1023, 1024, 1025, 5000]);
            "x".repeat(n)
        }
        8 => rng.pick(&["a\r\nb", "\r\n", "\r\n\r\n", "x\r\n", "\r\n+OK", "q\r\n$5"]).to_string(),
        _ => {
            let n = rng.range(1, 12) as usize;
            (0..n).map(|_| (b'a' + rng.below(26) as u8) as char).collect()
        }
    };
    if !allow_crlf {
        while s.contains("\r\n") {
            s = s.replace("\r\n", "\n\r");
        }
    }
    s
}

fn gen_int(rng: &mut Rng) -> i64 {
    match rng.below(8) {
        0 => i64::MIN,
        1 => i64::MAX,
        2 => i64::MIN + 1,
        3 => rng.pick(&[0i64, 1, -1, 10, -10, 1 << 31, 1 << 32, (1 << 53) + 1]),
        4 => rng.next_u64() as i64,
        _ => rng.range(-1000, 1000),
    }
}

/// `crlf_ok`: CR LF pairs may appear in simple strings / errors (then only `renc` is meaningful)
pub fn gen_value(rng: &mut Rng, depth: usize, crlf_ok: bool) -> RespValue {
    let k = if depth == 0 { rng.below(5) } else { rng.below(7) };
    match k {
        0 => RespValue::SimpleString(gen_string(rng, crlf_ok)),
        1 => RespValue::Error(gen_string(rng, crlf_ok)),
        2 => RespValue::Integer(gen_int(rng)),
        3 => RespValue::BulkString(Some(gen_string(rng, true))),
        4 => RespValue::BulkString(None),
        _ => {
            let n = rng.pick(&[0usize, 0, 1, 1, 2, 3, 5, 20]);
            let n = if depth < 2 { n } else { n.min(rng.range(0, 20) as usize) };
            RespValue::Array((0..n).map(|_| gen_value(rng, depth - 1, crlf_ok)).collect())
        }
    }
}

/// a chain of `d` nested arrays around `leaf`, with a few siblings on the way
pub fn nest(rng: &mut Rng, d: usize, leaf: RespValue, siblings: bool) -> RespValue {
    let mut v = leaf;
    for _ in 0..d {
        let mut xs = vec![];
        if siblings && rng.chance(1, 6) {
            xs.push(RespValue::Integer(rng.range(0, 9)));
        }
        xs.push(v);
        if siblings && rng.chance(1, 6) {
            xs.push(RespValue::BulkString(Some("s".into())));
        }
        v = RespValue::Array(xs);
    }
    v
}

pub fn depth_of(v: &RespValue) -> usize {
    match v {
        RespValue::Array(xs) => 1 + xs.iter().map(depth_of).max().unwrap_or(0),
        _ => 0,
    }
}

pub fn crlf_free(v: &RespValue) -> bool {
    match v {
        RespValue::SimpleString(s) | RespValue::Error(s) => !s.contains("\r\n"),
        RespValue::Array(xs) => xs.iter().all(crlf_free),
        _ => true,
    }
}

const HDR_REPL: [&str; 13] = [
    "+5",
    "-1",
    "007",
    "9223372036854775807",
    "9223372036854775808",
    "536870912",
    "536870913",
    "1048576",
    "1048577",
    "-0",
    "",
    "-2",
    "-9223372036854775808",
];

/// positions (start, end) of the digit run of every `$`, `*`, `:` header in an encoding:
/// found by scanning for a marker at a frame start; approximated as "marker preceded by LF or at 0"
fn header_spans(e: &[u8]) -> Vec<(usize, usize)> {
    let mut v = vec![];
    for i in 0..e.len() {
        if (e[i] == b'$' || e[i] == b'*' || e[i] == b':') && (i == 0 || e[i - 1] == b'\n') {
            let mut j = i + 1;
            while j < e.len() && e[j] != b'\r' {
                j += 1;
            }
            if j < e.len() && j - i <= 21 {
                v.push((i + 1, j));
            }
        }
    }
    v
}

/// element counts of the WIDE arrays: around 2^16 and up to the documented limit
pub const WIDE_COUNTS: [usize; 6] = [65_535, 65_536, 65_537, 100_000, 1_048_575, 1_048_576];
/// the widest array the protocol carries (documented: 1M elements)
pub const ARRAY_LIMIT: usize = 1_048_576;

/// a decode outcome in a few words (never the text of a million elements)
fn brief(r: &Dec) -> String {
    match r {
        Dec::Ok(RespValue::Array(xs), n) => format!("ok, {n} bytes consumed, an array of {} elements", xs.len()),
        Dec::Ok(_, n) => format!("ok, {n} bytes consumed, not an array"),
        other => other.show(),
    }
}

fn wide_arrays(cx: &mut Ctx) {
    let flip = cx.rng.below(2) as usize;
    let outer = |big: RespValue| RespValue::Array(vec![RespValue::Integer(7), RespValue::BulkString(Some("x".into())), big]);
    for (i, count) in WIDE_COUNTS.into_iter().enumerate() {
        for nested in [false, true] {
            // the cheapest elements there are: the empty simple string (3 bytes) and the integer 0 (4 bytes)
            let ints = (i + flip + nested as usize) % 2 == 1;
            let elem = if ints { RespValue::Integer(0) } else { RespValue::SimpleString(String::new()) };
            let big = RespValue::Array(vec![elem; count]);
            let v = if nested { outer(big) } else { big };
            let what = format!("an array of {count} x {} {}", if ints { "`:0`" } else { "the empty simple string" }, if nested { "as the last element of A[I7,B78,<wide>]" } else { "at top level" });
            let replay = vec![format!("# resp: v = {what}; encode with RespSerializer::serialize, decode with a fresh RespParser")];
            let Some(e) = enc(&v) else {
                cx.out.violation("C14", format!("RespSerializer::serialize panicked on {what}"), replay);
                continue;
            };
            cx.out.bump("wide_arrays");
            let x = loop {
                let x = cx.suffix();
                if !x.is_empty() {
                    break x;
                }
            };
            let mut ex = e.clone();
            ex.extend_from_slice(&x);
            for (buf, how) in [(&e, "serialize(v)"), (&ex, "serialize(v) ++ x")] {
                let r = dec(buf);
                cx.out.bump("roundtrips");
                let good = matches!(&r, Dec::Ok(v2, n) if *n == e.len() && *v2 == v);
                if !good {
                    cx.out.violation("C14", format!("{what} ({} bytes encoded; the protocol carries up to {ARRAY_LIMIT} elements): parse({how}) = {} instead of v and its {} bytes", e.len(), brief(&r), e.len()), replay.clone());
                }
            }
            cx.out.bump("prefix_checks");
            let r = dec(&e[..e.len() - 1]);
            if r != Dec::Incomplete {
                cx.out.violation("C13", format!("{what}: the encoding without its last byte gives {} instead of need-more-data", brief(&r)), replay.clone());
            }
        }
    }
    // one element more than the limit: rejected on sight of the header, and with every element present
    let over = ARRAY_LIMIT + 1;
    let hdr = format!("*{over}\r\n").into_bytes();
    let r = cx.check(&hdr, true);
    if r != Dec::Error {
        cx.out.violation("C13", format!("the header of an array of {over} elements (limit {ARRAY_LIMIT}) gives {} instead of an error", brief(&r)), vec![rdec_line(&hdr)]);
    }
    for nested in [false, true] {
        let big = RespValue::Array(vec![RespValue::SimpleString(String::new()); over]);
        let v = if nested { outer(big) } else { big };
        let what = format!("an array of {over} empty simple strings {}", if nested { "as the last element of A[I7,B78,<wide>]" } else { "at top level" });
        let Some(e) = enc(&v) else { continue };
        cx.out.bump("wide_arrays");
        let r = dec(&e);
        if r != Dec::Error {
            cx.out.violation("C13", format!("{what} (limit {ARRAY_LIMIT}): the parser answers {} instead of rejecting it", brief(&r)), vec![format!("# resp: {what}, all {} bytes present", e.len())]);
        }
    }
}

pub fn run(seed: u64, n: usize, out: &mut Out) {
    let rng = Rng::new(seed);
    let mut cx = Ctx { out, rng, shared: RespParser::new() };

    // (a) exhaustive small inputs
    let l_max = if n < 1000 {
        4
    } else if n < 100_000 {
        5
    } else {
        6
    };
    cx.check(&[], false);
    for len in 1..=l_max {
        let total = 13usize.pow(len as u32);
        let mut buf = vec![0u8; len];
        for idx in 0..total {
            let mut x = idx;
            for b in buf.iter_mut().rev() {
                *b = ALPHABET[x % 13];
                x /= 13;
            }
            let d = buf.clone();
            // extension checks on a sample (the enumeration itself already contains all
            // extensions up to the length bound)
            let stab = len == l_max && idx % 7 == 0;
            cx.check(&d, stab);
            cx.out.bump("exhaustive_inputs");
        }
    }

    // (b) grammar-generated values: renc + rdec(encoding ++ suffix) + prefixes
    let n_vals = n * 3;
    for i in 0..n_vals {
        let v = match i % 12 {
            0 => {
                // nesting right at the limit
                let d = cx.rng.pick(&[1usize, 2, 64, 126, 127, 128, 128, 129, 130]);
                let leaf = if cx.rng.chance(1, 2) { RespValue::Integer(7) } else { RespValue::Array(vec![]) };
                let sib = cx.rng.chance(1, 2);
                let mut r = cx.rng.fork();
                nest(&mut r, d, leaf, sib)
            }
            1 => {
                let crlf_ok = true;
                let mut r = cx.rng.fork();
                gen_value(&mut r, 3, crlf_ok)
            }
            2 if i % 120 == 2 => RespValue::BulkString(Some("y".repeat(cx.rng.pick(&[65535usize, 70000])))),
            _ => {
                let d = cx.rng.pick(&[0usize, 1, 2, 3, 4]);
                let mut r = cx.rng.fork();
                gen_value(&mut r, d, false)
            }
        };
        let vtxt = show(&v);
        let Some(e) = enc(&v) else {
            cx.out.violation("C14", "RespSerializer::serialize panicked".into(), vec![format!("renc {vtxt}")]);
            continue;
        };
        cx.out.line(format!("renc {vtxt}"), hx(&e));
        cx.out.bump("values");
        cx.out.note_case(&vtxt);
        let clean = crlf_free(&v);
        let dep = depth_of(&v);
        // a leaf array `*0` at the bottom counts as one more level for the parser
        let x = cx.suffix();
        let mut ex = e.clone();
        ex.extend_from_slice(&x);
        let r = cx.check(&ex, true);
        if clean && dep <= 128 {
            cx.out.bump("roundtrips");
            let want = Dec::Ok(v.clone(), e.len());
            if r != want {
                let got = r.show();
                cx.out.violation(
                    "C14",
                    format!("parse(serialize(v) ++ x) = {} but v consumes {} bytes", if got.len() > 200 { &got[..200] } else { &got }, e.len()),
                    vec![format!("renc {vtxt}"), rdec_line(&ex)],
                );
            }
        } else if dep > 128 && r != Dec::Error {
            cx.out.violation("C13", format!("nesting depth {dep} is not rejected"), vec![rdec_line(&ex)]);
        }
        // strict prefixes of a complete valid frame: need more data
        if clean && dep <= 128 {
            let cuts: Vec<usize> = if e.len() <= 64 {
                (0..e.len()).collect()
            } else {
                let mut c: Vec<usize> = (0..16).map(|_| cx.rng.below(e.len() as u64) as usize).collect();
                c.push(e.len() - 1);
                c.push(e.len() - 2);
                c
            };
            for c in cuts {
                let emit = e.len() <= 64 || c < 2000;
                let r = if emit { cx.check(&e[..c], false) } else { dec(&e[..c]) };
                cx.out.bump("prefix_checks");
                if r != Dec::Incomplete {
                    cx.out.violation(
                        "C13",
                        format!("strict prefix ({c} of {} bytes) of a valid frame gives {} instead of need-more-data", e.len(), r.show()),
                        vec![format!("renc {vtxt}"), rdec_line(&e[..c])],
                    );
                }
            }
        }
        if cx.out.samples.len() < 3 && e.len() < 60 {
            cx.out.sample(format!("renc {vtxt} -> {}", hx(&e)));
        }
    }

    // (b2) LONG arrays (1025..5000 elements) of the smallest frames there are - the empty simple string and the
    // empty error are 3 bytes on the wire, less than any other frame - with a few other elements mixed in; at top
    // level, as the last element of an outer array, two levels down; with and without trailing bytes
    let n_long = (n / 75).clamp(4, 24);
    for i in 0..n_long {
        let count = match i % 4 {
            0 => 1025usize,
            1 => cx.rng.pick(&[1026usize, 1100, 2048, 4096, 5000]),
            _ => cx.rng.range(1025, 5000) as usize,
        };
        let style = cx.rng.below(3); // all simple strings | all errors | both
        let others_per_mille = cx.rng.pick(&[0u64, 0, 5, 30, 80]);
        let elems: Vec<RespValue> = (0..count)
            .map(|_| {
                if cx.rng.below(1000) < others_per_mille {
                    match cx.rng.below(6) {
                        0 => RespValue::Integer(cx.rng.range(0, 9)),
                        1 => RespValue::BulkString(Some(String::new())),
                        2 => RespValue::BulkString(None),
                        3 => RespValue::SimpleString("a".into()),
                        4 => RespValue::Array(vec![]),
                        _ => RespValue::Error("e".into()),
                    }
                } else if style == 0 || (style == 2 && cx.rng.chance(1, 2)) {
                    RespValue::SimpleString(String::new())
                } else {
                    RespValue::Error(String::new())
                }
            })
            .collect();
        let big = RespValue::Array(elems);
        let v = match i % 3 {
            0 => big,
            1 => RespValue::Array(vec![RespValue::Integer(7), RespValue::BulkString(Some("x".into())), big]),
            _ => RespValue::Array(vec![RespValue::Array(vec![RespValue::SimpleString(String::new()), big])]),
        };
        let vtxt = show(&v);
        let Some(e) = enc(&v) else {
            cx.out.violation("C14", "RespSerializer::serialize panicked".into(), vec![format!("renc A[... {count} elements]")]);
            continue;
        };
        cx.out.line(format!("renc {vtxt}"), hx(&e));
        cx.out.bump("values");
        cx.out.bump("long_arrays_of_tiny_elements");
        cx.out.note_case(&vtxt);
        // nothing after the value, then a few more bytes after it
        let x = loop {
            let x = cx.suffix();
            if !x.is_empty() {
                break x;
            }
        };
        let mut ex = e.clone();
        ex.extend_from_slice(&x);
        for (buf, what) in [(&e, "serialize(v)"), (&ex, "serialize(v) ++ x")] {
            let r = cx.check(buf, false);
            cx.out.bump("roundtrips");
            if r != Dec::Ok(v.clone(), e.len()) {
                let got = r.show();
                cx.out.violation(
                    "C14",
                    format!("array of {count} tiny elements ({} bytes encoded): parse({what}) = {} instead of the value and its {} bytes", e.len(), &got[..got.len().min(120)], e.len()),
                    vec![format!("renc {}", if vtxt.len() > 400 { format!("{}...", &vtxt[..400]) } else { vtxt.clone() }), rdec_line(buf)],
                );
            }
        }
        // strict prefixes: need more data
        for c in [e.len() - 1, e.len() - 3, cx.rng.below(e.len() as u64) as usize] {
            cx.out.bump("prefix_checks");
            let r = dec(&e[..c]);
            if r != Dec::Incomplete {
                cx.out.violation("C13", format!("strict prefix ({c} of {} bytes) of a valid frame gives {} instead of need-more-data", e.len(), &r.show()[..40.min(r.show().len())]), vec![rdec_line(&e[..c])]);
            }
        }
    }

    // (b3) WIDE arrays, up to the documented limit of 1 048 576 elements (no op lines: far too long).  Whatever the
    // serializer emits the parser must take back: parse(serialize(v)) = (v, encoded length), with and without bytes
    // after the value, at top level and as the last element of a small outer array; one element more than the limit
    // is rejected - from the header alone and with all its elements present
    wide_arrays(&mut cx);

    // (c) mutations of valid encodings
    let n_mut = n * 3;
    for _ in 0..n_mut {
        let d = cx.rng.pick(&[0usize, 1, 1, 2, 2, 3]);
        let mut r = cx.rng.fork();
        let v = gen_value(&mut r, d, false);
        let Some(e) = enc(&v) else { continue };
        if e.len() > 4000 {
            continue;
        }
        cx.out.bump("mutation_bases");
        // byte flips
        for _ in 0..3 {
            let mut m = e.clone();
            let k = cx.rng.range(1, 3);
            for _ in 0..k {
                let p = cx.rng.below(m.len() as u64) as usize;
                m[p] = if cx.rng.chance(2, 3) { cx.rng.pick(&ALPHABET) } else { cx.rng.below(256) as u8 };
            }
            cx.check(&m, true);
            cx.out.bump("mutations");
        }
        // truncations (every offset for small frames)
        if e.len() <= 48 {
            for c in 0..e.len() {
                cx.check(&e[..c], false);
            }
        }
        // header replacement
        let spans = header_spans(&e);
        if !spans.is_empty() {
            for _ in 0..3 {
                let (a, b) = cx.rng.pick(&spans);
                let rep = cx.rng.pick(&HDR_REPL);
                let mut m = e[..a].to_vec();
                m.extend_from_slice(rep.as_bytes());
                m.extend_from_slice(&e[b..]);
                cx.check(&m, true);
                cx.out.bump("mutations");
            }
        }
        // lone CR / lone LF instead of a CRLF, doubled CR, swapped
        let crlfs: Vec<usize> = (0..e.len().saturating_sub(1)).filter(|&i| e[i] == b'\r' && e[i + 1] == b'\n').collect();
        if !crlfs.is_empty() {
            for rep in [&b"\r"[..], &b"\n"[..], &b"\n\r"[..], &b"\r\r\n"[..]] {
                let p = cx.rng.pick(&crlfs);
                let mut m = e[..p].to_vec();
                m.extend_from_slice(rep);
                m.extend_from_slice(&e[p + 2..]);
                cx.check(&m, true);
                cx.out.bump("mutations");
            }
        }
        // insertion / deletion of one byte
        {
            let p = cx.rng.below(e.len() as u64 + 1) as usize;
            let mut m = e.clone();
            m.insert(p, cx.rng.pick(&ALPHABET));
            cx.check(&m, true);
            let p = cx.rng.below(e.len() as u64) as usize;
            let mut m = e.clone();
            m.remove(p);
            cx.check(&m, true);
            cx.out.bump("mutations");
        }
    }
    // hostile headers on their own
    for rep in HDR_REPL {
        for marker in ["$", "*", ":"] {
            for tail in ["\r\n", "\r\nab\r\n", "\r\n:1\r\n", ""] {
                let m = format!("{marker}{rep}{tail}");
                cx.check(m.as_bytes(), true);
            }
        }
    }
}
