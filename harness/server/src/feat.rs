// The PROTOCOL FEATURES phase shared by the modes `wire` (in-process server) and `binary` (real process): the same
// server addressed the way legitimate but less common clients do it -
//   HTTP/1.1 keep-alive, pipelining, chunked request bodies, `Expect: 100-continue`, HTTP/1.0, header-name case,
//     `Content-Type` parameters, unusual JSON spellings;
//   gRPC: many concurrent RPCs multiplexed on ONE channel (one HTTP/2 connection), `grpc-timeout`, calls cancelled by
//     dropping their future (RST_STREAM), sequential reuse of one channel;
//   RESP: one connection reused for hundreds of commands with error replies in between, command names in any case,
//     integer-typed / empty / null arguments, two connections used alternately on one key, PING interleaved with
//     THROTTLE in one long pipeline.
// EVERY request of the phase is subject to the oracles the simple clients are subject to:
//   * the answer is the limiter's decision for THAT request: every key of the phase is a fresh key with a burst of its
//     own and 1 token per 3600 s or more, every quantity is 1 (or omitted), so the decision follows from the number of
//     requests the key has admitted so far (`Model`) - whichever protocol / connection / spelling carried them;
//   * in `wire` also: the limiter's own log shows exactly one call per answered request, with the request that was
//     sent and the answer that was received, in the order of the requests of a connection;
//   * the counters (GET /metrics) at the next quiescent point: identities, per transport, denied, errors;
//   * at the end every key of the phase is asked once more by a simple client: what is left is what the model says.
// Tags: an answer that is not the limiter's decision for that request: C12; a budget that is not shared / not the
// key's own: C09; a missing, duplicated or reordered reply: C10; requests not answered after something unusual (but
// legitimate) happened on the connection / channel: C11; counters: C15.
use crate::util::*;
use crate::val::hx;
use crate::wire::{grpc_call, http_answer, http_throttle, json_body, parse_proc, resp_answer, resp_command, DocGrpc, DocThrottleRequest, DocThrottleResponse, Logical, Ports, Proto, RespConn, WireAns};
use std::collections::BTreeMap;
use std::sync::Arc;
use std::time::{Duration, Instant};
use throttlecrab_server::actor::verif::take_log;
use throttlecrab_server::grpc::rate_limiter_client::RateLimiterClient;
use throttlecrab_server::grpc::ThrottleRequest as GrpcRequest;
use throttlecrab_server::transport::redis::resp::RespValue;
use tokio::io::{AsyncReadExt, AsyncWriteExt};
use tokio::net::TcpStream;

// ----------------------------------------------------------------------------------------
// an HTTP/1.x client that keeps its connection
// ----------------------------------------------------------------------------------------
#[derive(Clone, Debug)]
pub struct HttpResp {
    pub version: String,
    pub status: u16,
    pub headers: Vec<(String, String)>,
    pub body: String,
    /// 1xx responses that came in front of this one
    pub interim: Vec<u16>,
}

impl HttpResp {
    pub fn header(&self, name: &str) -> Option<&str> {
        self.headers.iter().find(|h| h.0.eq_ignore_ascii_case(name)).map(|h| h.1.as_str())
    }
}

pub struct HttpConn {
    sock: TcpStream,
    buf: Vec<u8>,
}

fn find(hay: &[u8], needle: &[u8]) -> Option<usize> {
    hay.windows(needle.len()).position(|w| w == needle)
}

impl HttpConn {
    pub async fn open(port: u16) -> Result<HttpConn, String> {
        let sock = match tokio::time::timeout(Duration::from_secs(5), TcpStream::connect(("127.0.0.1", port))).await {
            Ok(Ok(s)) => s,
            Ok(Err(e)) => return Err(format!("connect: {e}")),
            Err(_) => return Err("connect: timeout".into()),
        };
        sock.set_nodelay(true).ok();
        Ok(HttpConn { sock, buf: vec![] })
    }

    pub async fn send(&mut self, bytes: &[u8]) -> Result<(), String> {
        self.sock.write_all(bytes).await.map_err(|e| format!("write: {e}"))
    }

    /// more bytes into the buffer; Ok(0) = the server closed
    async fn fill(&mut self, deadline: Instant) -> Result<usize, String> {
        let mut tmp = vec![0u8; 8192];
        let left = deadline.saturating_duration_since(Instant::now());
        match tokio::time::timeout(left, self.sock.read(&mut tmp)).await {
            Err(_) => Err("timeout".into()),
            Ok(Err(e)) => Err(format!("read: {e}")),
            Ok(Ok(n)) => {
                self.buf.extend_from_slice(&tmp[..n]);
                Ok(n)
            }
        }
    }

    /// waits until an interim `100 Continue` has arrived (it stays in the buffer for `response`)
    pub async fn await_continue(&mut self, wait: Duration) -> bool {
        let deadline = Instant::now() + wait;
        loop {
            if self.buf.starts_with(b"HTTP/1.1 100") && find(&self.buf, b"\r\n\r\n").is_some() {
                return true;
            }
            if !self.buf.is_empty() && !b"HTTP/1.1 100".starts_with(&self.buf[..self.buf.len().min(12)]) {
                return false; // a final response came instead
            }
            match self.fill(deadline).await {
                Ok(n) if n > 0 => {}
                _ => return false,
            }
        }
    }

    /// ONE complete final response (1xx responses in front of it are skipped and recorded)
    pub async fn response(&mut self, wait: Duration) -> Result<HttpResp, String> {
        let deadline = Instant::now() + wait;
        let mut interim = vec![];
        loop {
            let end = loop {
                if let Some(p) = find(&self.buf, b"\r\n\r\n") {
                    break p;
                }
                match self.fill(deadline).await? {
                    0 => return Err(if self.buf.is_empty() { "closed".into() } else { format!("closed inside a response head ({} bytes)", self.buf.len()) }),
                    _ => {}
                }
            };
            let head = String::from_utf8_lossy(&self.buf[..end]).to_string();
            self.buf.drain(..end + 4);
            let mut lines = head.split("\r\n");
            let status_line = lines.next().unwrap_or("");
            let mut parts = status_line.splitn(3, ' ');
            let version = parts.next().unwrap_or("").to_string();
            let status: u16 = parts.next().and_then(|x| x.parse().ok()).ok_or_else(|| format!("no status in {status_line:?}"))?;
            if !version.starts_with("HTTP/1.") {
                return Err(format!("not an HTTP/1.x status line: {status_line:?}"));
            }
            let headers: Vec<(String, String)> = lines.filter_map(|l| l.split_once(':')).map(|(a, b)| (a.trim().to_string(), b.trim().to_string())).collect();
            if (100..200).contains(&status) {
                interim.push(status);
                continue;
            }
            let hget = |n: &str| headers.iter().find(|h| h.0.eq_ignore_ascii_case(n)).map(|h| h.1.clone());
            let chunked = hget("transfer-encoding").map(|v| v.to_ascii_lowercase().contains("chunked")).unwrap_or(false);
            let body: Vec<u8> = if chunked {
                let mut out = vec![];
                loop {
                    let line_end = loop {
                        if let Some(p) = find(&self.buf, b"\r\n") {
                            break p;
                        }
                        if self.fill(deadline).await? == 0 {
                            return Err("closed inside a chunked body".into());
                        }
                    };
                    let size_txt = String::from_utf8_lossy(&self.buf[..line_end]).to_string();
                    let n = usize::from_str_radix(size_txt.split(';').next().unwrap_or("").trim(), 16).map_err(|_| format!("bad chunk size {size_txt:?}"))?;
                    self.buf.drain(..line_end + 2);
                    while self.buf.len() < n + 2 {
                        if self.fill(deadline).await? == 0 {
                            return Err("closed inside a chunk".into());
                        }
                    }
                    if n == 0 {
                        // (no trailers expected)
                        self.buf.drain(..2);
                        break;
                    }
                    out.extend_from_slice(&self.buf[..n]);
                    self.buf.drain(..n + 2);
                }
                out
            } else if let Some(cl) = hget("content-length").and_then(|v| v.parse::<usize>().ok()) {
                while self.buf.len() < cl {
                    if self.fill(deadline).await? == 0 {
                        return Err(format!("closed inside a body ({} of {cl} bytes)", self.buf.len()));
                    }
                }
                self.buf.drain(..cl).collect()
            } else if status == 204 || status == 304 {
                vec![]
            } else {
                // delimited by the end of the connection
                while self.fill(deadline).await? > 0 {}
                std::mem::take(&mut self.buf)
            };
            return Ok(HttpResp { version, status, headers, body: String::from_utf8_lossy(&body).to_string(), interim });
        }
    }

    /// true = the server closed the connection within `wait` (bytes that arrive instead are kept)
    pub async fn closed_within(&mut self, wait: Duration) -> bool {
        let mut tmp = vec![0u8; 4096];
        match tokio::time::timeout(wait, self.sock.read(&mut tmp)).await {
            Err(_) => false,
            Ok(Ok(0)) | Ok(Err(_)) => true,
            Ok(Ok(n)) => {
                self.buf.extend_from_slice(&tmp[..n]);
                false
            }
        }
    }

    pub fn pending(&self) -> usize {
        self.buf.len()
    }
}

/// how a request is spelled
#[derive(Clone, Debug)]
pub struct Style {
    pub v10: bool,
    /// header names: 0 lower, 1 UPPER, 2 mIxEd, 3 Canonical
    pub case: u8,
    pub ctype: &'static str,
    /// body offsets at which a chunk ends (`Transfer-Encoding: chunked`); None = Content-Length
    pub cuts: Option<Vec<usize>>,
    pub expect: bool,
    pub connection: Option<&'static str>,
    pub host: bool,
}

pub const CONTENT_TYPES: [&str; 5] = ["application/json", "application/json; charset=utf-8", "application/json;charset=UTF-8", "application/json", "Application/JSON"];

impl Style {
    pub fn plain() -> Style {
        Style { v10: false, case: 3, ctype: "application/json", cuts: None, expect: false, connection: None, host: true }
    }
    pub fn random(rng: &mut Rng, body: &[u8]) -> Style {
        let cuts = if rng.chance(1, 3) { Some(chunk_cuts(rng, body)) } else { None };
        Style { v10: false, case: rng.below(4) as u8, ctype: rng.pick(&CONTENT_TYPES), cuts, expect: rng.chance(1, 8), connection: if rng.chance(1, 4) { Some("keep-alive") } else { None }, host: true }
    }
    pub fn describe(&self) -> String {
        format!(
            "{}{}, header names {}, Content-Type {:?}{}{}",
            if self.v10 { "HTTP/1.0" } else { "HTTP/1.1" },
            self.connection.map(|c| format!(" Connection: {c}")).unwrap_or_default(),
            ["lower case", "UPPER CASE", "mIxEd case", "canonical"][self.case as usize % 4],
            self.ctype,
            match &self.cuts {
                None => String::new(),
                Some(c) => format!(", chunked body cut at {c:?}"),
            },
            if self.expect { ", Expect: 100-continue" } else { "" }
        )
    }
}

/// 0..4 chunk boundaries; when the body has one, a boundary INSIDE a multi-byte character and one INSIDE a number
pub fn chunk_cuts(rng: &mut Rng, body: &[u8]) -> Vec<usize> {
    let mut cuts: Vec<usize> = vec![];
    if body.len() < 2 {
        return cuts;
    }
    if let Some(p) = body.iter().position(|b| *b >= 0xC0) {
        if p + 1 < body.len() && rng.chance(2, 3) {
            cuts.push(p + 1);
        }
    }
    if let Some(p) = (0..body.len() - 1).find(|&i| body[i].is_ascii_digit() && body[i + 1].is_ascii_digit() && (i == 0 || body[i - 1] == b':' || body[i - 1] == b' ')) {
        if rng.chance(2, 3) {
            cuts.push(p + 1);
        }
    }
    let extra = rng.below(4) as usize;
    for _ in 0..extra {
        cuts.push(rng.range(1, body.len() as i64 - 1) as usize);
    }
    cuts.sort();
    cuts.dedup();
    cuts.truncate(4);
    cuts
}

fn hname(name: &str, case: u8, rng: &mut Rng) -> String {
    match case % 4 {
        0 => name.to_ascii_lowercase(),
        1 => name.to_ascii_uppercase(),
        2 => name.chars().map(|c| if rng.chance(1, 2) { c.to_ascii_uppercase() } else { c.to_ascii_lowercase() }).collect(),
        _ => name.to_string(),
    }
}

/// the request in pieces: [head, body piece, body piece, ...]; written in one go or piece by piece
pub fn request_pieces(rng: &mut Rng, method: &str, path: &str, body: Option<&[u8]>, st: &Style) -> Vec<Vec<u8>> {
    let mut head = format!("{method} {path} {}\r\n", if st.v10 { "HTTP/1.0" } else { "HTTP/1.1" });
    if st.host {
        head.push_str(&format!("{}: 127.0.0.1\r\n", hname("Host", st.case, rng)));
    }
    if let Some(c) = st.connection {
        head.push_str(&format!("{}: {c}\r\n", hname("Connection", st.case, rng)));
    }
    let mut pieces: Vec<Vec<u8>> = vec![];
    if let Some(body) = body {
        head.push_str(&format!("{}: {}\r\n", hname("Content-Type", st.case, rng), st.ctype));
        if st.expect {
            head.push_str(&format!("{}: 100-continue\r\n", hname("Expect", st.case, rng)));
        }
        match &st.cuts {
            None => {
                head.push_str(&format!("{}: {}\r\n", hname("Content-Length", st.case, rng), body.len()));
                pieces.push(body.to_vec());
            }
            Some(cuts) => {
                head.push_str(&format!("{}: chunked\r\n", hname("Transfer-Encoding", st.case, rng)));
                let mut at = 0usize;
                let mut ends: Vec<usize> = cuts.iter().copied().filter(|c| *c > 0 && *c < body.len()).collect();
                ends.push(body.len());
                for e in ends {
                    if e > at {
                        let size = if rng.chance(1, 2) { format!("{:x}", e - at) } else { format!("{:X}", e - at) };
                        let mut p = format!("{size}\r\n").into_bytes();
                        p.extend_from_slice(&body[at..e]);
                        p.extend_from_slice(b"\r\n");
                        pieces.push(p);
                        at = e;
                    }
                }
                pieces.push(b"0\r\n\r\n".to_vec());
            }
        }
    }
    head.push_str("\r\n");
    pieces.insert(0, head.into_bytes());
    pieces
}

// ----------------------------------------------------------------------------------------
// the model: fresh keys, 1 token per >= 3600 s, unit requests
// ----------------------------------------------------------------------------------------
#[derive(Clone, Debug)]
pub struct Bucket {
    pub b: i64,
    pub c: i64,
    pub p: i64,
    pub used: i64,
}

#[derive(Default)]
pub struct Model {
    pub keys: BTreeMap<String, Bucket>,
}

impl Model {
    /// (allowed, remaining) of the next unit request
    pub fn next(&self, key: &str) -> (bool, i64) {
        let k = &self.keys[key];
        if k.used < k.b { (true, k.b - k.used - 1) } else { (false, 0) }
    }
}

/// what must happen to a request
#[derive(Clone, Debug, PartialEq)]
pub enum Want {
    /// well-formed: answered with the limiter's decision
    Decision,
    /// an unusual spelling: EITHER refused with a protocol-level client error (nothing consumed) OR decided like `Decision`
    Either,
    /// malformed: a protocol-level client error (HTTP 4xx / `-ERR`), the limiter is not called
    Refused,
    /// reaches the limiter, which rejects it (quantity -1): HTTP 500 / gRPC status / `-ERR`, counted
    LimiterError,
}

#[derive(Default, Clone, Debug)]
pub struct Counts {
    pub http: u64,
    pub grpc: u64,
    pub resp: u64,
    pub denied: u64,
    pub errors: u64,
}

pub struct Fx {
    pub ports: Ports,
    pub rng: Rng,
    /// the limiter's log is available (mode `wire`)
    pub inproc: bool,
    /// key prefix (unique per server and round)
    pub tag: String,
    /// first replay line of every violation
    pub header: String,
    pub log: Vec<String>,
    pub model: Model,
    /// requests that certainly count
    pub cnt: Counts,
    /// gRPC requests (always-allowed keys) that may or may not have been counted: timed out / cancelled
    pub unsure_grpc: u64,
    /// every `allowed=false` a client was told: the key
    pub denials: Vec<String>,
    pub sent: [u64; 3],
    base: Option<[u64; 7]>,
    last: Option<[u64; 7]>,
    seq: u64,
    /// the EMPTY key may be used (one model per server only)
    pub empty_key: bool,
    /// a key made of decimal digits (burst 1): sent as a RESP INTEGER where a bulk string belongs
    pub int_key: String,
    /// `wire`: the server's Metrics (the denied-keys table around a denial)
    pub metrics: Option<Arc<throttlecrab_server::metrics::Metrics>>,
    /// the heavy parts (gRPC deadlines at volume) run in this phase
    pub heavy: bool,
    /// number of the phase on this server / in this run (selects pipeline sizes)
    pub round: usize,
    /// `wire`: the limiter calls of the phase as events of ONE `atrace-loose` line (sequential requests: client 0;
    /// every simultaneous request a client of its own), and whether every judged request agreed with its log entry
    pub trace: Vec<String>,
    trace_idx: usize,
    trace_clients: usize,
    pub clean: std::cell::Cell<bool>,
}

pub const COUNTER_NAMES: [&str; 7] = [
    "throttlecrab_requests_total",
    "throttlecrab_requests_by_transport{http}",
    "throttlecrab_requests_by_transport{grpc}",
    "throttlecrab_requests_by_transport{redis}",
    "throttlecrab_requests_allowed",
    "throttlecrab_requests_denied",
    "throttlecrab_requests_errors",
];

/// total, http, grpc, redis, allowed, denied, errors of an export
pub fn parse_counters(text: &str) -> Option<[u64; 7]> {
    let mut vals: BTreeMap<String, u64> = BTreeMap::new();
    for line in text.split('\n') {
        if line.is_empty() || line.starts_with('#') {
            continue;
        }
        if let Ok(s) = crate::metrics::lex_sample(line) {
            let k = if s.labels.is_empty() { s.name.clone() } else { format!("{}{{{}}}", s.name, s.labels[0].1) };
            if let Ok(v) = s.value.parse::<u64>() {
                vals.insert(k, v);
            }
        }
    }
    let mut o = [0u64; 7];
    for (i, n) in COUNTER_NAMES.iter().enumerate() {
        o[i] = *vals.get(*n)?;
    }
    Some(o)
}

pub async fn scrape_counters(http_port: u16) -> Option<[u64; 7]> {
    match crate::wire::http_raw(http_port, b"GET /metrics HTTP/1.1\r\nHost: x\r\nConnection: close\r\n\r\n").await {
        Ok((200, text)) => parse_counters(&text),
        _ => None,
    }
}

fn short(s: &str, n: usize) -> String {
    if s.chars().count() > n { format!("{}... ({} bytes)", s.chars().take(n).collect::<String>(), s.len()) } else { s.to_string() }
}

fn show_key(k: &str) -> String {
    short(&format!("{k:?}"), 80)
}

impl Fx {
    pub fn new(ports: Ports, rng: Rng, inproc: bool, tag: String, header: String) -> Fx {
        Fx { ports, rng, inproc, tag, header, log: vec![], model: Model::default(), cnt: Counts::default(), unsure_grpc: 0, denials: vec![], sent: [0; 3], base: None, last: None, seq: 0, empty_key: false, int_key: String::new(), metrics: None, heavy: false, round: 0, trace: vec![], trace_idx: 0, trace_clients: 1, clean: std::cell::Cell::new(true) }
    }

    /// a fresh key with a burst of its own; 1 token per 3600 s or 86400 s
    pub fn new_key(&mut self, what: &str, b: i64) -> String {
        self.seq += 1;
        let key = format!("{}{}{}", self.tag, what, self.seq);
        self.adopt_key(key.clone(), b);
        key
    }

    pub fn adopt_key(&mut self, key: String, b: i64) {
        let p = self.rng.pick(&[3600i64, 86400]);
        self.model.keys.insert(key, Bucket { b, c: 1, p, used: 0 });
    }

    pub fn logical(&self, key: &str, q: Option<i64>) -> Logical {
        let k = &self.model.keys[key];
        Logical { key: key.to_string(), b: k.b, c: k.c, p: k.p, q }
    }

    fn replay(&self, from: usize) -> Vec<String> {
        let mut v = vec![format!("# {}", self.header)];
        let from = from.min(self.log.len());
        let lines = &self.log[from..];
        if lines.len() > 60 {
            v.extend(lines[..20].iter().map(|l| format!("# {l}")));
            v.push(format!("# ... ({} lines) ...", lines.len() - 50));
            v.extend(lines[lines.len() - 30..].iter().map(|l| format!("# {l}")));
        } else {
            v.extend(lines.iter().map(|l| format!("# {l}")));
        }
        v
    }

    pub fn viol(&self, out: &mut Out, prop: &str, what: String, from: usize) {
        self.clean.set(false);
        out.violation(prop, what, self.replay(from));
    }

    /// the limiter calls logged since the last look: (id fields, response); empty outside `wire`
    pub fn procs(&self) -> Vec<(Vec<String>, String)> {
        if self.inproc { take_log().iter().filter_map(|x| parse_proc(x)).collect() } else { vec![] }
    }

    /// a sequential request and its limiter call, as trace events
    fn trace_seq(&mut self, id: &[String], resp: &str, ret: &str) {
        if id[0].len() > 4000 {
            return;
        }
        let i = self.trace_idx;
        self.trace_idx += 1;
        self.trace.push(format!("call:0:{i}:{};proc:0:{i}:{resp};ret:0:{i}:{ret}", id.join(":")));
    }

    /// simultaneous requests: every limiter call a client of its own
    fn trace_simultaneous(&mut self, procs: &[&(Vec<String>, String)]) {
        let first = self.trace_clients;
        let mut ev = vec![];
        for (j, (id, _)) in procs.iter().enumerate() {
            ev.push(format!("call:{}:0:{}", first + j, id.join(":")));
        }
        for (j, (_, resp)) in procs.iter().enumerate() {
            ev.push(format!("proc:{}:0:{resp};ret:{}:0:{resp}", first + j, first + j));
        }
        self.trace_clients += procs.len();
        if !ev.is_empty() {
            self.trace.push(ev.join(";"));
        }
    }

    fn account(&mut self, proto: Proto, ans: &WireAns, status: u16, key: &str) {
        self.sent[proto as usize] += 1;
        match proto {
            Proto::Http => {
                if status == 200 || status == 500 {
                    self.cnt.http += 1;
                }
                if status == 500 {
                    self.cnt.errors += 1;
                }
            }
            Proto::Grpc => match ans {
                WireAns::Ok(..) => self.cnt.grpc += 1,
                WireAns::Err(_) => {
                    self.cnt.grpc += 1;
                    self.cnt.errors += 1;
                }
                WireAns::Broken(_) => {}
            },
            Proto::Resp => {
                if !matches!(ans, WireAns::Broken(_)) {
                    self.cnt.resp += 1;
                }
            }
        }
        if let WireAns::Ok(false, ..) = ans {
            self.cnt.denied += 1;
            self.denials.push(key.to_string());
        }
    }

    /// One answered THROTTLE request on a model key, judged: against the model (tag `tag`), in `wire` against the
    /// limiter call `proc` (None = look it up now: the request was the only one since the last look).  Returns false
    /// when the connection / scenario should stop (no answer at all).
    #[allow(clippy::too_many_arguments)]
    pub fn judge(&mut self, out: &mut Out, from: usize, tag: &str, proto: Proto, want: Want, l: &Logical, ans: &WireAns, status: u16, what: &str, proc_: Option<Option<(Vec<String>, String)>>) -> bool {
        self.account(proto, ans, status, &l.key);
        out.bump("feature_requests");
        let proc_: Option<(Vec<String>, String)> = match proc_ {
            Some(p) => p,
            None => {
                let mut ps = self.procs();
                if ps.len() > 1 {
                    self.viol(out, "C12", format!("{what}: ONE request caused {} limiter calls", ps.len()), from);
                }
                if ps.is_empty() { None } else { Some(ps.remove(0)) }
            }
        };
        let client_error = match proto {
            Proto::Http => (400..500).contains(&status),
            Proto::Resp => matches!(ans, WireAns::Err(_)),
            Proto::Grpc => false,
        };
        let want_id = [hx(l.key.as_bytes()), l.b.to_string(), l.c.to_string(), l.p.to_string(), l.q.unwrap_or(1).to_string()];
        match (&want, ans) {
            (_, WireAns::Broken(e)) => {
                self.viol(out, if tag == "C10" || proto == Proto::Resp { "C10" } else { "C11" }, format!("{what}: no answer at all ({e})"), from);
                return false;
            }
            (Want::Refused, _) | (Want::Either, WireAns::Err(_)) if client_error => {
                if let Some((id, resp)) = &proc_ {
                    self.viol(out, "C12", format!("{what}: refused with a client error ({}) but the limiter was called: {} -> {resp} - budget consumed without an answer", short(&ans_text(ans), 100), id[..5].join(":")), from);
                }
                return true;
            }
            (Want::Refused, _) => {
                self.viol(out, "C12", format!("{what}: a malformed request must get a protocol-level client error, got {} (status {status})", short(&ans_text(ans), 120)), from);
                return true;
            }
            (Want::LimiterError, WireAns::Err(_)) if !client_error || proto == Proto::Resp => {
                if self.inproc {
                    match &proc_ {
                        Some((id, resp)) if resp == "err" && id[..5] == want_id => {
                            let (id, resp) = (id.clone(), resp.clone());
                            self.trace_seq(&id, &resp, "err");
                        }
                        other => self.viol(out, "C12", format!("{what}: answered with an error, limiter log {:?} (want one call answered `err`)", other.as_ref().map(|p| (p.0[1..5].join(":"), p.1.clone()))), from),
                    }
                }
                return true;
            }
            (Want::LimiterError, _) => {
                self.viol(out, "C12", format!("{what}: a request the limiter rejects (quantity -1) must be answered with its error (HTTP 500 / gRPC status / -ERR), got {} (status {status})", short(&ans_text(ans), 120)), from);
                return true;
            }
            (_, WireAns::Err(e)) => {
                let prop = if proto == Proto::Http && status >= 500 { "C12" } else { tag };
                self.viol(out, if prop == "C09" { "C12" } else { prop }, format!("{what}: a well-formed request was answered with an error (status {status}): {}", short(e, 160)), from);
                if let Some((id, resp)) = &proc_ {
                    if resp.starts_with("ok,1") {
                        // the limiter did take a token
                        if let Some(k) = self.model.keys.get_mut(&l.key) {
                            k.used += 1;
                        }
                        let _ = id;
                    }
                }
                return true;
            }
            (_, WireAns::Ok(al, lim, rem, rs, rt)) => {
                let (wa, wr) = self.model.next(&l.key);
                let used = self.model.keys[&l.key].used;
                if (*al, *lim, *rem) != (wa, l.b, wr) {
                    // (the model follows the answer from here on: one defect, one report)
                    if *lim == l.b && (0..l.b).contains(rem) {
                        if let Some(k) = self.model.keys.get_mut(&l.key) {
                            k.used = if *al { l.b - rem - 1 } else { l.b };
                        }
                    }
                    self.viol(
                        out,
                        tag,
                        format!("{what}: answered {}, want ok,{},{},{wr},_,_ - key {} (burst {}, 1 per {} s) has admitted {used} unit requests so far in this phase, over whatever protocol and connection", ans.show(), wa as u8, l.b, show_key(&l.key), l.b, l.p),
                        from,
                    );
                } else if *al && (*rt != 0 || *rs <= 0) || !*al && (*rt <= 0 || *rs <= 0) {
                    self.viol(out, "C12", format!("{what}: answered {}: an allowed request has retry_after 0 and reset_after > 0, a denied one (1 token per {} s) waits > 0", ans.show(), l.p), from);
                }
                if *al {
                    if let Some(k) = self.model.keys.get_mut(&l.key) {
                        k.used += 1;
                    }
                } else if let (Some(m), true) = (&self.metrics, l.key == self.int_key && !self.int_key.is_empty()) {
                    // a denial on the key that was sent as a RESP integer is reported under the key the limiter used
                    let told = self.denials.iter().filter(|k| **k == l.key).count() as u64;
                    let table = m.verif_denied_table().unwrap_or_default();
                    let have = table.iter().find(|e| e.0 == l.key).map(|e| e.1).unwrap_or(0);
                    if have < told && table.len() < 290 {
                        self.viol(out, "C16", format!("{what}: denied, but the denied-keys table has {have} denial(s) under key {} ({told} told) - a denial must be reported under the key the limiter used", show_key(&l.key)), from);
                    }
                }
                if self.inproc {
                    match &proc_ {
                        Some((id, resp)) => {
                            if id[..5] != want_id {
                                self.viol(out, "C12", format!("{what}: the limiter saw {} for the request {}", id[..5].join(":"), want_id.join(":")), from);
                            }
                            if resp != &ans.show() {
                                self.viol(out, "C12", format!("{what}: the answer on the wire is {} but the limiter decided {resp}", ans.show()), from);
                            }
                            let (id, resp) = (id.clone(), resp.clone());
                            self.trace_seq(&id, &resp, &ans.show());
                        }
                        None => self.viol(out, "C12", format!("{what}: answered {} but the limiter was not called", ans.show()), from),
                    }
                }
                return true;
            }
        }
    }

    // ------------------------------------------------------------------ counters (C15)
    async fn scrape(&mut self) -> Option<[u64; 7]> {
        scrape_counters(self.ports.http).await
    }

    /// call once before the first request of the phase
    pub async fn start(&mut self) {
        if self.inproc {
            take_log();
        }
        self.base = self.scrape().await;
        self.last = self.base;
    }

    /// at a quiescent point: the export agrees with what the clients of this phase were told
    pub async fn check_counters(&mut self, out: &mut Out, what: &str, from: usize) {
        let Some(base) = self.base else { return };
        // (requests that timed out or were cancelled may still be on their way through the server)
        let mut cur = self.scrape().await;
        if self.unsure_grpc > 0 {
            let t0 = Instant::now();
            loop {
                tokio::time::sleep(Duration::from_millis(25)).await;
                let c = self.scrape().await;
                if c == cur || t0.elapsed() > Duration::from_secs(2) {
                    break;
                }
                cur = c;
            }
        }
        out.bump("metrics_scrapes");
        let Some(c) = cur else {
            self.viol(out, "C15", format!("{what}: GET /metrics failed"), from);
            return;
        };
        self.last = Some(c);
        let d: Vec<u64> = (0..7).map(|i| c[i].saturating_sub(base[i])).collect();
        let shown = format!("total +{} http +{} grpc +{} redis +{} allowed +{} denied +{} errors +{}", d[0], d[1], d[2], d[3], d[4], d[5], d[6]);
        if c[0] != c[1] + c[2] + c[3] || c[0] != c[4] + c[5] + c[6] {
            self.viol(out, "C15", format!("{what}: identities broken: total {} http {} grpc {} redis {} allowed {} denied {} errors {}", c[0], c[1], c[2], c[3], c[4], c[5], c[6]), from);
        }
        let k = self.cnt.clone();
        if d[1] != k.http || d[3] != k.resp || d[2] < k.grpc || d[2] > k.grpc + self.unsure_grpc {
            let g = if self.unsure_grpc > 0 { format!("{}..{}", k.grpc, k.grpc + self.unsure_grpc) } else { k.grpc.to_string() };
            self.viol(out, "C15", format!("{what}: since the start of the protocol-features phase the counters moved by {shown}, but the clients got {} HTTP / {g} gRPC / {} RESP answers that count", k.http, k.resp), from);
        }
        if d[5] != k.denied {
            self.viol(out, "C15", format!("{what}: requests_denied moved by {} but the clients were told allowed=false {} times", d[5], k.denied), from);
        }
        if d[6] != k.errors {
            self.viol(out, "C15", format!("{what}: requests_errors moved by {} but the clients saw {} internal errors (HTTP 500 / gRPC status)", d[6], k.errors), from);
        }
    }

    /// how far the counters really moved during the phase: http, grpc, redis, denied, errors (for the caller's tally)
    pub fn moved(&self) -> Counts {
        match (self.base, self.last) {
            (Some(b), Some(l)) => Counts { http: l[1] - b[1], grpc: l[2] - b[2], resp: l[3] - b[3], denied: l[5] - b[5], errors: l[6] - b[6] },
            _ => self.cnt.clone(),
        }
    }
}

fn ans_text(a: &WireAns) -> String {
    match a {
        WireAns::Err(e) => e.clone(),
        a => a.show(),
    }
}

// ----------------------------------------------------------------------------------------
// A. HTTP
// ----------------------------------------------------------------------------------------
#[derive(Clone, Debug)]
enum HttpItem {
    Throttle { key: String, want: Want, body: String, q: Option<i64> },
    Health,
    Metrics,
    NotFound,
}

impl HttpItem {
    fn describe(&self) -> String {
        match self {
            HttpItem::Throttle { body, want, .. } => format!("POST /throttle {}{}", short(&body.replace('\n', "\\n").replace('\r', "\\r"), 300), if *want == Want::Refused { " (malformed)" } else { "" }),
            HttpItem::Health => "GET /health".into(),
            HttpItem::Metrics => "GET /metrics".into(),
            HttpItem::NotFound => "GET /nothing-here".into(),
        }
    }
}

const MALFORMED_JSON: [&str; 6] = [
    "{\"key\":\"k\",\"max_burst\":2,",
    "{\"key\":\"k\",\"max_burst\":\"2\",\"count_per_period\":1,\"period\":60}",
    "{\"key\":\"k\",\"max_burst\":2,\"count_per_period\":1}",
    "{\"key\":\"k\" \"max_burst\":2,\"count_per_period\":1,\"period\":60}",
    "not json at all",
    "{\"key\":\"k\",\"max_burst\":2,\"count_per_period\":1,\"period\":60,}",
];

impl Fx {
    fn throttle_item(&mut self, key: &str, want: Want) -> HttpItem {
        match want {
            Want::Refused => HttpItem::Throttle { key: key.to_string(), want, body: self.rng.pick(&MALFORMED_JSON).to_string(), q: None },
            Want::LimiterError => {
                let l = self.logical(key, Some(-1));
                HttpItem::Throttle { key: key.to_string(), want, body: json_body(&mut self.rng, &l), q: Some(-1) }
            }
            _ => {
                let q = if self.rng.chance(1, 2) { Some(1) } else { None };
                let l = self.logical(key, q);
                HttpItem::Throttle { key: key.to_string(), want, body: json_body(&mut self.rng, &l), q }
            }
        }
    }

    fn item_pieces(&mut self, item: &HttpItem, st: &Style) -> Vec<Vec<u8>> {
        match item {
            HttpItem::Throttle { body, .. } => request_pieces(&mut self.rng, "POST", "/throttle", Some(body.as_bytes()), st),
            HttpItem::Health => request_pieces(&mut self.rng, "GET", "/health", None, st),
            HttpItem::Metrics => request_pieces(&mut self.rng, "GET", "/metrics", None, st),
            HttpItem::NotFound => request_pieces(&mut self.rng, "GET", "/nothing-here", None, st),
        }
    }

    /// the response `r` to `item`, judged; false = stop using the connection
    #[allow(clippy::too_many_arguments)]
    fn judge_http(&mut self, out: &mut Out, from: usize, tag: &str, item: &HttpItem, r: &Result<HttpResp, String>, what: &str, proc_: Option<Option<(Vec<String>, String)>>) -> bool {
        match item {
            HttpItem::Throttle { key, want, q, .. } => {
                let l = self.logical(key, *q);
                let (ans, status) = http_answer(r.clone().map(|x| (x.status, x.body)));
                self.judge(out, from, tag, Proto::Http, want.clone(), &l, &ans, status, what, proc_)
            }
            other => {
                out.bump("feature_requests");
                match r {
                    Err(e) => {
                        self.viol(out, if tag == "C10" { "C10" } else { "C11" }, format!("{what}: no answer at all ({e})"), from);
                        false
                    }
                    Ok(resp) => {
                        match other {
                            HttpItem::Health if resp.status != 200 || resp.body != "OK" => self.viol(out, tag, format!("{what}: GET /health answered {} {:?}, want 200 \"OK\"", resp.status, short(&resp.body, 80)), from),
                            HttpItem::NotFound if resp.status != 404 => self.viol(out, tag, format!("{what}: GET of an unknown path answered {} {:?}, want 404", resp.status, short(&resp.body, 80)), from),
                            HttpItem::Metrics => match (parse_counters(&resp.body), self.base) {
                                (Some(c), Some(base)) if resp.status == 200 => {
                                    // sequential so far: everything sent before is answered and counted
                                    if c[1] != base[1] + self.cnt.http || c[0] != c[1] + c[2] + c[3] || c[0] != c[4] + c[5] + c[6] {
                                        self.viol(out, "C15", format!("{what}: GET /metrics in the middle of the connection shows http {} (total {} grpc {} redis {} allowed {} denied {} errors {}); {} HTTP requests had been answered with a decision or a 500 before it (+ {} before the phase)", c[1], c[0], c[2], c[3], c[4], c[5], c[6], self.cnt.http, base[1]), from);
                                    }
                                }
                                (_, None) => {}
                                _ => self.viol(out, tag, format!("{what}: GET /metrics answered {} and a body without the counters: {:?}", resp.status, short(&resp.body, 120)), from),
                            },
                            _ => {}
                        }
                        true
                    }
                }
            }
        }
    }

    async fn write_pieces(&mut self, conn: &mut HttpConn, pieces: &[Vec<u8>], st: &Style, piecewise: bool, out: &mut Out) -> Result<(), String> {
        if st.expect && pieces.len() > 1 {
            conn.send(&pieces[0]).await?;
            let got = conn.await_continue(Duration::from_millis(800)).await;
            out.bump(if got { "obs_expect_100_continue_sent_by_server" } else { "obs_expect_100_continue_not_sent" });
            for p in &pieces[1..] {
                conn.send(p).await?;
            }
            Ok(())
        } else if piecewise {
            for p in pieces {
                conn.send(p).await?;
                tokio::time::sleep(Duration::from_micros(self.rng.pick(&[0u64, 200, 1500]))).await;
            }
            Ok(())
        } else {
            conn.send(&pieces.concat()).await
        }
    }

    /// A1: 5..30 requests in sequence on ONE connection
    pub async fn http_keepalive(&mut self, out: &mut Out, shared: &[String]) {
        let from = self.log.len();
        let nreq = self.rng.range(5, 30) as usize;
        let mut keys: Vec<String> = shared.to_vec();
        for _ in 0..2 {
            let b = self.rng.range(2, 4);
            keys.push(self.new_key("ka", b));
        }
        keys.push(self.new_key("ka é€ \"q\" ", 3));
        let bad_at = self.rng.range(1, nreq as i64 - 2) as usize;
        let err_at = if self.rng.chance(2, 3) { self.rng.range(1, nreq as i64 - 2) as usize } else { usize::MAX };
        self.log.push(format!("HTTP keep-alive: ONE connection, {nreq} requests one after the other (request {} has a malformed JSON body{})", bad_at + 1, if err_at < nreq && err_at != bad_at { format!(", request {} has quantity -1", err_at + 1) } else { String::new() }));
        out.bump("http_keepalive_connections");
        let mut conn = match HttpConn::open(self.ports.http).await {
            Ok(c) => c,
            Err(e) => {
                self.viol(out, "C11", format!("HTTP keep-alive: cannot connect: {e}"), from);
                return;
            }
        };
        let mut provoked: Option<String> = None;
        for i in 0..nreq {
            let last = i + 1 == nreq;
            let item = if i == bad_at {
                self.throttle_item(&keys[0].clone(), Want::Refused)
            } else if i == err_at {
                let k = self.rng.pick(&keys);
                self.throttle_item(&k, Want::LimiterError)
            } else {
                match self.rng.below(12) {
                    0 => HttpItem::Health,
                    1 => HttpItem::Metrics,
                    2 if self.rng.chance(1, 2) => HttpItem::NotFound,
                    _ => {
                        let k = self.rng.pick(&keys);
                        self.throttle_item(&k, Want::Decision)
                    }
                }
            };
            let body_bytes: Vec<u8> = match &item {
                HttpItem::Throttle { body, .. } => body.clone().into_bytes(),
                _ => vec![],
            };
            let mut st = Style::random(&mut self.rng, &body_bytes);
            if last && self.rng.chance(1, 2) {
                st.connection = Some("close");
            }
            let pieces = self.item_pieces(&item, &st);
            let piecewise = self.rng.chance(1, 3);
            let what = format!("request {} of {nreq} on one keep-alive HTTP connection ({}; {})", i + 1, short(&item.describe(), 160), st.describe());
            let sent = self.write_pieces(&mut conn, &pieces, &st, piecewise, out).await;
            let r = match sent {
                Err(e) => Err(e),
                Ok(()) => conn.response(Duration::from_secs(5)).await,
            };
            self.log.push(format!("[{}] {} [{}] -> {}", i + 1, item.describe(), st.describe(), match &r { Ok(x) => format!("{} {}{}", x.status, short(&x.body.replace('\n', " "), 110), if x.interim.is_empty() { String::new() } else { format!(" (after {:?})", x.interim) }), Err(e) => format!("no response ({e})") }));
            if let (Err(e), Some(p)) = (&r, &provoked) {
                if matches!(item, HttpItem::Throttle { want: Want::Decision, .. }) || !matches!(item, HttpItem::Throttle { .. }) {
                    self.viol(out, "C11", format!("{what}: no answer ({e}); earlier on this connection: {p} - a client error / limiter error must not disturb the requests that follow on the connection"), from);
                    return;
                }
            }
            if !self.judge_http(out, from, "C12", &item, &r, &what, None) {
                return;
            }
            if let (HttpItem::Throttle { want, .. }, Ok(resp)) = (&item, &r) {
                if *want == Want::Refused || *want == Want::LimiterError {
                    provoked = Some(format!("request {} ({}) was answered {}", i + 1, if *want == Want::Refused { "malformed JSON" } else { "quantity -1" }, resp.status));
                    out.bump(&format!("obs_keepalive_{}_status_{}", if *want == Want::Refused { "malformed_json" } else { "quantity_minus_1" }, resp.status));
                }
            }
            if last && st.connection == Some("close") {
                let closed = conn.closed_within(Duration::from_millis(500)).await;
                out.bump(if closed { "obs_connection_close_honoured" } else { "obs_connection_close_left_open" });
            }
        }
        if conn.pending() > 0 {
            self.viol(out, "C10", format!("HTTP keep-alive: {} unexpected bytes after the last response - more responses than requests", conn.pending()), from);
        }
    }

    /// A2: 3..10 complete requests in ONE write; the responses come back in order, each the right one
    pub async fn http_pipeline(&mut self, out: &mut Out, shared: &[String]) {
        let from = self.log.len();
        let k = self.rng.range(3, 10) as usize;
        let mut keys: Vec<String> = vec![];
        // (bursts of their own: the `limit` of an answer names the request it answers)
        for j in 0..3 {
            let b = 2 + 3 * j + self.rng.range(0, 2);
            keys.push(self.new_key("pl", b));
        }
        if let Some(s) = shared.first() {
            keys.push(s.clone());
        }
        let bad_at = if self.rng.chance(1, 2) { self.rng.below(k as u64) as usize } else { usize::MAX };
        let health_at = if self.rng.chance(1, 2) { self.rng.below(k as u64) as usize } else { usize::MAX };
        let mut items = vec![];
        let mut bytes: Vec<u8> = vec![];
        let mut descr = vec![];
        for i in 0..k {
            let item = if i == bad_at {
                self.throttle_item(&keys[0].clone(), Want::Refused)
            } else if i == health_at {
                HttpItem::Health
            } else {
                let key = self.rng.pick(&keys);
                self.throttle_item(&key, Want::Decision)
            };
            let body_bytes: Vec<u8> = match &item {
                HttpItem::Throttle { body, .. } => body.clone().into_bytes(),
                _ => vec![],
            };
            let mut st = Style::random(&mut self.rng, &body_bytes);
            st.expect = false;
            bytes.extend(self.item_pieces(&item, &st).concat());
            descr.push(format!("[{}] {} [{}]", i + 1, item.describe(), st.describe()));
            items.push(item);
        }
        let split = if self.rng.chance(1, 3) { Some(self.rng.range(1, bytes.len() as i64 - 1) as usize) } else { None };
        self.log.push(format!("HTTP pipelining: ONE connection, {k} complete requests ({} bytes) written in {}", bytes.len(), match split { None => "ONE write".to_string(), Some(s) => format!("two writes (cut after byte {s}, inside a request)") }));
        out.bump("http_pipelines");
        let mut conn = match HttpConn::open(self.ports.http).await {
            Ok(c) => c,
            Err(e) => {
                self.viol(out, "C11", format!("HTTP pipelining: cannot connect: {e}"), from);
                return;
            }
        };
        let w = match split {
            None => conn.send(&bytes).await,
            Some(s) => {
                let a = conn.send(&bytes[..s]).await;
                tokio::time::sleep(Duration::from_millis(2)).await;
                a.and(conn.send(&bytes[s..]).await)
            }
        };
        let mut rs: Vec<Result<HttpResp, String>> = vec![];
        for _ in 0..k {
            let r = match &w {
                Err(e) => Err(e.clone()),
                Ok(()) => conn.response(Duration::from_secs(5)).await,
            };
            let stop = r.is_err();
            rs.push(r);
            if stop {
                break;
            }
        }
        let mut procs = self.procs();
        for (i, d) in descr.iter().enumerate() {
            self.log.push(format!("{d} -> {}", match rs.get(i) { Some(Ok(x)) => format!("{} {}", x.status, short(&x.body.replace('\n', " "), 110)), Some(Err(e)) => format!("no response ({e})"), None => "no response".into() }));
        }
        if rs.len() < k || rs.iter().any(|r| r.is_err()) {
            let got = rs.iter().filter(|r| r.is_ok()).count();
            self.viol(out, "C10", format!("{k} pipelined HTTP requests in one write: only {got} responses arrived ({})", rs.iter().find_map(|r| r.clone().err()).unwrap_or("connection closed".into())), from);
        }
        for (i, item) in items.iter().enumerate() {
            let Some(r) = rs.get(i) else { break };
            if r.is_err() {
                break;
            }
            let takes_proc = match (item, r) {
                (HttpItem::Throttle { .. }, Ok(x)) => x.status == 200 || x.status == 500,
                _ => false,
            };
            let proc_ = if takes_proc && !procs.is_empty() { Some(procs.remove(0)) } else { None };
            let what = format!("response {} of {k} to pipelined HTTP requests written in one go ({})", i + 1, short(&item.describe(), 160));
            self.judge_http(out, from, "C10", item, r, &what, Some(proc_));
        }
        if !procs.is_empty() {
            self.viol(out, "C12", format!("{k} pipelined HTTP requests: {} limiter calls are left without a response that carries their decision ({})", procs.len(), procs.iter().map(|p| p.1.clone()).collect::<Vec<_>>().join(" ")), from);
        }
        if conn.pending() > 0 {
            self.viol(out, "C10", format!("{k} pipelined HTTP requests: {} more bytes after the {k} responses", conn.pending()), from);
        }
    }

    /// one request on `conn` (re-opened when it is gone), its response
    async fn http_one(&mut self, out: &mut Out, conn: &mut Option<HttpConn>, item: &HttpItem, st: &Style, piecewise: bool) -> Result<HttpResp, String> {
        if conn.is_none() {
            *conn = Some(HttpConn::open(self.ports.http).await?);
        }
        let pieces = self.item_pieces(item, st);
        let mut c = conn.take().unwrap();
        let r = match self.write_pieces(&mut c, &pieces, st, piecewise, out).await {
            Err(e) => Err(e),
            Ok(()) => c.response(Duration::from_secs(5)).await,
        };
        if r.is_ok() {
            *conn = Some(c);
        }
        r
    }

    /// A3..A7: chunked bodies written chunk by chunk, `Expect: 100-continue`, HTTP/1.0, JSON spellings
    pub async fn http_specials(&mut self, out: &mut Out, shared: &[String]) {
        let from = self.log.len();
        self.log.push("HTTP specials: chunked bodies written chunk by chunk, Expect: 100-continue, HTTP/1.0, JSON spellings".into());
        let kc = self.new_key("ch é€😀 ", 3);
        // ---- chunked, every chunk a write of its own, boundaries inside a multi-byte character and inside a number
        let mut conn: Option<HttpConn> = None;
        for round in 0..3 {
            let item = self.throttle_item(&kc.clone(), Want::Decision);
            let HttpItem::Throttle { body, .. } = &item else { continue };
            let mut st = Style::plain();
            st.case = self.rng.below(4) as u8;
            let mut cuts = chunk_cuts(&mut self.rng, body.as_bytes());
            if round == 0 {
                cuts.clear(); // ONE chunk
            }
            st.cuts = Some(cuts);
            let r = self.http_one(out, &mut conn, &item, &st, true).await;
            let what = format!("POST /throttle with a chunked body, every chunk written separately ({}): {}", st.describe(), short(&item.describe(), 200));
            self.log.push(format!("{what} -> {}", match &r { Ok(x) => format!("{} {}", x.status, short(&x.body, 110)), Err(e) => format!("no response ({e})") }));
            out.bump("http_chunked_requests");
            self.judge_http(out, from, "C12", &item, &r, &what, None);
        }
        // ---- Expect: 100-continue: the head alone, the body after the interim response (or 800 ms)
        for _ in 0..2 {
            let key = self.rng.pick(&[kc.clone(), shared[0].clone()]);
            let item = self.throttle_item(&key, Want::Decision);
            let mut st = Style::plain();
            st.expect = true;
            st.case = self.rng.below(4) as u8;
            let r = self.http_one(out, &mut conn, &item, &st, false).await;
            let what = format!("POST /throttle with `Expect: 100-continue`, body sent after the interim response: {}", short(&item.describe(), 200));
            self.log.push(format!("{what} -> {}", match &r { Ok(x) => format!("{:?} then {} {}", x.interim, x.status, short(&x.body, 110)), Err(e) => format!("no response ({e})") }));
            out.bump("http_expect_continue_requests");
            self.judge_http(out, from, "C12", &item, &r, &what, None);
        }
        drop(conn);
        // ---- HTTP/1.0, without and with `Connection: keep-alive`
        for ka in [false, true] {
            let mut c10: Option<HttpConn> = None;
            for second in [false, true] {
                if second && c10.is_none() {
                    break;
                }
                let item = self.throttle_item(&kc.clone(), Want::Decision);
                let mut st = Style::plain();
                st.v10 = true;
                st.host = self.rng.chance(1, 2);
                st.connection = if ka { Some("keep-alive") } else { None };
                let r = self.http_one(out, &mut c10, &item, &st, false).await;
                let what = format!("{} HTTP/1.0 request{} on a connection: {}", if second { "second" } else { "first" }, if ka { " with `Connection: keep-alive`" } else { "" }, short(&item.describe(), 200));
                self.log.push(format!("{what} -> {}", match &r { Ok(x) => format!("{} {} {}", x.version, x.status, short(&x.body, 110)), Err(e) => format!("no response ({e})") }));
                out.bump("http10_requests");
                if second {
                    // (whether an HTTP/1.0 connection is kept is the server's choice; if it is gone there is no second request)
                    if let Err(e) = &r {
                        if e == "closed" || e.starts_with("write") || e.starts_with("read") {
                            out.bump("obs_http10_keepalive_connection_not_kept");
                            self.log.pop();
                            break;
                        }
                    }
                    out.bump("obs_http10_keepalive_second_request_answered");
                }
                self.judge_http(out, from, "C12", &item, &r, &what, None);
                if !second {
                    let closed = match c10.as_mut() {
                        Some(c) => c.closed_within(Duration::from_millis(if ka { 30 } else { 300 })).await,
                        None => true,
                    };
                    out.bump(&format!("obs_http10_{}_{}", if ka { "with_keepalive" } else { "plain" }, if closed { "closed_after_response" } else { "left_open" }));
                    if closed {
                        c10 = None;
                    }
                }
            }
        }
        // ---- JSON spellings, all on one keep-alive connection and on two keys (bursts 40 and 7)
        let j1 = self.new_key("js é😀\\ ", 40);
        let j2 = self.new_key("js2 ", 7);
        let (b1, p1) = (self.model.keys[&j1].b, self.model.keys[&j1].p);
        let p2 = self.model.keys[&j2].p;
        let k1 = serde_json::to_string(&j1).unwrap();
        let k2 = serde_json::to_string(&j2).unwrap();
        // (every character of the key as a \uXXXX escape, surrogate pairs for the ones beyond the BMP)
        let k1_escaped: String = format!("\"{}\"", j1.encode_utf16().map(|u| format!("\\u{u:04x}")).collect::<String>());
        let variants: Vec<(&str, String, Want, Option<String>)> = vec![
            ("fields_in_reverse_order", format!("{{\"quantity\":1,\"period\":{p1},\"count_per_period\":1,\"max_burst\":{b1},\"key\":{k1}}}"), Want::Decision, None),
            ("whitespace_tabs_and_line_breaks_between_tokens", format!("\n\t {{ \r\n\"key\"\t:\n{k1} ,\r\n \"max_burst\" :\t{b1}\n,\n\"count_per_period\"\n:\n1 , \"period\" : {p1}\n}}\r\n\n "), Want::Decision, None),
            ("quantity_null", format!("{{\"key\":{k1},\"max_burst\":{b1},\"count_per_period\":1,\"period\":{p1},\"quantity\":null}}"), Want::Decision, None),
            ("key_written_with_u_escapes_and_surrogate_pairs", format!("{{\"key\":{k1_escaped},\"max_burst\":{b1},\"count_per_period\":1,\"period\":{p1}}}"), Want::Decision, None),
            ("unknown_fields_scalars_objects_arrays", format!("{{\"trace\":{{\"id\":[1,2,{{\"x\":null}}],\"f\":1.5e3}},\"key\":{k1},\"max_burst\":{b1},\"tags\":[],\"count_per_period\":1,\"note\":\"quantity\",\"period\":{p1},\"z\":true}}"), Want::Either, None),
            ("unknown_field_Key_differing_in_case", format!("{{\"Key\":{k2},\"key\":{k1},\"max_burst\":{b1},\"count_per_period\":1,\"period\":{p1},\"QUANTITY\":5}}"), Want::Either, None),
            ("duplicate_field_quantity", format!("{{\"key\":{k1},\"max_burst\":{b1},\"count_per_period\":1,\"period\":{p1},\"quantity\":1,\"quantity\":1}}"), Want::Either, None),
            ("duplicate_field_key_two_keys", format!("{{\"key\":{k2},\"key\":{k1},\"max_burst\":{b1},\"count_per_period\":1,\"period\":{p1}}}"), Want::Either, Some(j2.clone())),
            ("max_burst_with_fraction_40.0", format!("{{\"key\":{k1},\"max_burst\":{b1}.0,\"count_per_period\":1,\"period\":{p1}}}"), Want::Either, None),
            ("count_per_period_1e0", format!("{{\"key\":{k1},\"max_burst\":{b1},\"count_per_period\":1e0,\"period\":{p1}}}"), Want::Either, None),
            ("quantity_1E0", format!("{{\"key\":{k1},\"max_burst\":{b1},\"count_per_period\":1,\"period\":{p1},\"quantity\":1E0}}"), Want::Either, None),
            ("quantity_1.0", format!("{{\"key\":{k1},\"max_burst\":{b1},\"count_per_period\":1,\"period\":{p1},\"quantity\":1.0}}"), Want::Either, None),
            ("period_with_plus_sign", format!("{{\"key\":{k1},\"max_burst\":{b1},\"count_per_period\":1,\"period\":+{p1}}}"), Want::Either, None),
            ("period_with_leading_zero", format!("{{\"key\":{k1},\"max_burst\":{b1},\"count_per_period\":1,\"period\":0{p1}}}"), Want::Either, None),
            ("quantity_as_string", format!("{{\"key\":{k1},\"max_burst\":{b1},\"count_per_period\":1,\"period\":{p1},\"quantity\":\"1\"}}"), Want::Either, None),
            ("utf8_bom_in_front", format!("\u{feff}{{\"key\":{k1},\"max_burst\":{b1},\"count_per_period\":1,\"period\":{p1}}}"), Want::Either, None),
            ("positional_array_instead_of_object", format!("[{k1},{b1},1,{p1},1]"), Want::Either, None),
            ("plain_again", format!("{{\"key\":{k1},\"max_burst\":{b1},\"count_per_period\":1,\"period\":{p1}}}"), Want::Decision, None),
        ];
        let _ = p2;
        let mut conn: Option<HttpConn> = None;
        // (a seed-chosen rotation; everything is sent every time)
        let start = self.rng.below(variants.len() as u64) as usize;
        for vi in 0..variants.len() {
            let (name, body, want, other_key) = variants[(start + vi) % variants.len()].clone();
            let mut item = HttpItem::Throttle { key: j1.clone(), want: want.clone(), body: body.clone(), q: Some(1) };
            let mut st = Style::plain();
            st.case = self.rng.below(4) as u8;
            st.ctype = self.rng.pick(&CONTENT_TYPES);
            if self.rng.chance(1, 4) {
                st.cuts = Some(chunk_cuts(&mut self.rng, body.as_bytes()));
            }
            let was_open = conn.is_some();
            let r = self.http_one(out, &mut conn, &item, &st, false).await;
            let what = format!("POST /throttle, JSON spelling `{name}`{}: {}", if was_open { " (on the connection of the spellings before it)" } else { "" }, short(&body.replace('\n', "\\n").replace('\r', "\\r").replace('\t', "\\t"), 260));
            self.log.push(format!("{what} -> {}", match &r { Ok(x) => format!("{} {}", x.status, short(&x.body, 130)), Err(e) => format!("no response ({e})") }));
            out.bump("http_json_spellings");
            if let Ok(x) = &r {
                out.bump(&format!("obs_json_{name}_status_{}", x.status));
                // two keys in one body: whichever the server took, the answer must be that key's
                if let (Some(k2), 200) = (&other_key, x.status) {
                    let lim = serde_json::from_str::<serde_json::Value>(&x.body).ok().and_then(|v| v.get("limit").and_then(|l| l.as_i64()));
                    let _ = lim;
                    // both keys were sent with max_burst of the first: the limiter log (wire) or the drain at the end tell
                    if self.inproc {
                        let ps = self.procs();
                        let took_other = ps.first().map(|p| p.0[0] == hx(k2.as_bytes())).unwrap_or(false);
                        if took_other {
                            // key 2 asked with the burst of key 1: not a model request; only fidelity is judged
                            let (ans, status) = http_answer(Ok((x.status, x.body.clone())));
                            self.account(Proto::Http, &ans, status, k2);
                            if ps[0].1 != ans.show() {
                                self.viol(out, "C12", format!("{what}: wire answer {} but the limiter decided {}", ans.show(), ps[0].1), from);
                            }
                            // the bucket of key 2 was touched with other limits: out of the model
                            self.model.keys.remove(k2);
                            continue;
                        }
                        item = HttpItem::Throttle { key: j1.clone(), want: want.clone(), body: body.clone(), q: Some(1) };
                        self.judge_http(out, from, "C12", &item, &r, &what, Some(ps.into_iter().next()));
                        continue;
                    } else {
                        // not observable which key was taken: leave both keys out of the model from here on
                        let (ans, status) = http_answer(Ok((x.status, x.body.clone())));
                        self.account(Proto::Http, &ans, status, &j1);
                        self.model.keys.remove(k2);
                        self.model.keys.remove(&j1);
                        out.bump("obs_duplicate_key_accepted_keys_dropped_from_model");
                        break;
                    }
                }
            }
            self.judge_http(out, from, "C12", &item, &r, &what, None);
        }
    }
}

// ----------------------------------------------------------------------------------------
// B. gRPC on ONE channel
// ----------------------------------------------------------------------------------------
type Decision = (bool, i64, i64, i64, i64);

async fn open_channel(port: u16) -> Result<tonic::transport::Channel, String> {
    match tokio::time::timeout(Duration::from_secs(5), tonic::transport::Channel::from_shared(format!("http://127.0.0.1:{port}")).map_err(|e| e.to_string())?.connect()).await {
        Ok(Ok(c)) => Ok(c),
        Ok(Err(e)) => Err(format!("connect: {e}")),
        Err(_) => Err("connect: timeout".into()),
    }
}

/// one Throttle RPC on (a clone of) the channel: `documented` = hand-written messages with the documented field
/// numbers, else the client generated from this build's .proto; `timeout` becomes the `grpc-timeout` of the call
async fn rpc(ch: tonic::transport::Channel, documented: bool, l: &Logical, timeout: Option<Duration>) -> Result<Decision, tonic::Status> {
    if documented {
        crate::wire::GRPC_DOC_CALLS.fetch_add(1, std::sync::atomic::Ordering::Relaxed);
        let mut g: DocGrpc = tonic::client::Grpc::new(ch);
        g.ready().await.map_err(|e| tonic::Status::unavailable(format!("channel not ready: {e}")))?;
        let path = tonic::codegen::http::uri::PathAndQuery::from_static("/throttlecrab.RateLimiter/Throttle");
        let codec = tonic_prost::ProstCodec::<DocThrottleRequest, DocThrottleResponse>::default();
        let mut req = tonic::Request::new(DocThrottleRequest { key: l.key.clone(), max_burst: l.b as i32, count_per_period: l.c as i32, period: l.p as i32, quantity: l.q.unwrap_or(1) as i32 });
        if let Some(t) = timeout {
            req.set_timeout(t);
        }
        let r = g.unary(req, path, codec).await?.into_inner();
        Ok((r.allowed, r.limit as i64, r.remaining as i64, r.reset_after as i64, r.retry_after as i64))
    } else {
        let mut c = RateLimiterClient::new(ch);
        let mut req = tonic::Request::new(GrpcRequest { key: l.key.clone(), max_burst: l.b as i32, count_per_period: l.c as i32, period: l.p as i32, quantity: l.q.unwrap_or(1) as i32 });
        if let Some(t) = timeout {
            req.set_timeout(t);
        }
        let r = c.throttle(req).await?.into_inner();
        Ok((r.allowed, r.limit as i64, r.remaining as i64, r.reset_after as i64, r.retry_after as i64))
    }
}

fn as_ans(r: &Result<Decision, tonic::Status>) -> WireAns {
    match r {
        Ok((a, l, r, rs, rt)) => WireAns::Ok(*a, *l, *r, *rs, *rt),
        Err(s) => WireAns::Err(format!("status {:?}: {}", s.code(), s.message())),
    }
}

/// An RPC that failed with its CONNECTION, not with an answer of the service: the HTTP/2 layer of the server closes a
/// connection on which the client resets streams faster than they are accepted (flood protection: GOAWAY), and every
/// call on it ends in `transport error`.  (Observed on the unmodified server with 1500 calls that expire on one channel.)
/// The reason of the GOAWAY (ENHANCE_YOUR_CALM) arrives as code RESOURCE_EXHAUSTED with the text `h2 protocol error`.
fn connection_level(s: &tonic::Status) -> bool {
    matches!(s.code(), tonic::Code::Unknown | tonic::Code::Unavailable) || s.message().contains("h2 protocol error") || s.message().contains("transport error")
}

/// an RPC that ended because its deadline passed / it was cancelled (by either side)
fn timed_out(s: &tonic::Status) -> bool {
    matches!(s.code(), tonic::Code::DeadlineExceeded | tonic::Code::Cancelled)
}

impl Fx {
    /// `answers` to simultaneous unit requests on fresh model key `key`, judged as a set: min(N, B) admitted with
    /// remaining B-1 .. B-admitted, the others denied with remaining 0 (C09); in `wire` the multiset of limiter
    /// decisions for the key = the multiset of answers (C12)
    fn judge_simultaneous(&mut self, out: &mut Out, from: usize, key: &str, answers: &[WireAns], procs: &[(Vec<String>, String)], what: &str) {
        let b = self.model.keys[key].b;
        let used = self.model.keys[key].used;
        let n = answers.len() as i64;
        let mut allowed_rem: Vec<i64> = vec![];
        let mut bad: Vec<String> = vec![];
        let mut inverted = 0i64;
        for a in answers {
            self.account(Proto::Grpc, a, 0, key);
            out.bump("feature_requests");
            match a {
                WireAns::Ok(true, lim, rem, rs, 0) if *lim == b && *rs > 0 => allowed_rem.push(*rem),
                WireAns::Ok(false, lim, 0, rs, rt) if *lim == b && *rs > 0 && *rt > 0 => {}
                // denied with a wait of 0 whole seconds: a request stamped before one that was processed earlier
                // (known finding C09-stamp-inversion), judged with the admitted count below
                WireAns::Ok(false, lim, 0, rs, 0) if *lim == b && *rs > 0 => inverted += 1,
                other => bad.push(other.show()),
            }
        }
        let want_adm = (b - used).min(n).max(0);
        allowed_rem.sort();
        if inverted > 0 && allowed_rem.len() as i64 == want_adm {
            // all tokens were handed out and still somebody was told "wait 0 s": not explained by a stamp inversion
            bad.push(format!("{inverted} denied answer(s) with retry_after 0"));
        }
        if !bad.is_empty() {
            let none = answers.iter().filter(|a| !matches!(a, WireAns::Ok(..))).count();
            self.viol(out, if none > 0 { "C11" } else { "C12" }, format!("{what}: {} of {n} simultaneous RPCs on key {} (burst {b}) were not answered with a decision of that bucket: {}", bad.len(), show_key(key), short(&bad.join(" "), 300)), from);
        }
        // (the `remaining` of simultaneous requests is not a function of their number: the handlers read the clock before
        // they queue, so the limiter may see timestamps a few hundred nanoseconds out of order and report one less)
        if allowed_rem.len() as i64 != want_adm || allowed_rem.iter().any(|r| *r < 0 || *r >= b - used) {
            let tag = if allowed_rem.iter().any(|r| *r < 0 || *r >= b - used) { "C09" } else { crate::wire::race_tag(allowed_rem.len() as i64, want_adm, inverted) };
            self.viol(out, tag, format!("{what}: {n} simultaneous unit requests on key {} (burst {b}, {used} admitted before): {} admitted with remaining {:?}, want exactly {want_adm}, each with less than {} remaining", show_key(key), allowed_rem.len(), allowed_rem, b - used), from);
        }
        if let Some(k) = self.model.keys.get_mut(key) {
            k.used += allowed_rem.len() as i64;
        }
        if self.inproc {
            let mut a1: Vec<String> = answers.iter().map(|a| a.show()).collect();
            let mine: Vec<&(Vec<String>, String)> = procs.iter().filter(|p| p.0[0] == hx(key.as_bytes())).collect();
            self.trace_simultaneous(&mine);
            let mut a2: Vec<String> = mine.iter().map(|p| p.1.clone()).collect();
            a1.sort();
            a2.sort();
            if a1 != a2 {
                self.viol(out, "C12", format!("{what}: key {}: the answers on the wire {:?} are not (as a multiset) the limiter's decisions {:?}", show_key(key), short(&a1.join(" "), 300), short(&a2.join(" "), 300)), from);
            }
        }
    }

    /// B1: 20..100 concurrent RPCs multiplexed on ONE channel, on a mix of keys
    pub async fn grpc_multiplex(&mut self, out: &mut Out) {
        let from = self.log.len();
        let n = self.rng.range(20, 100) as usize;
        let nf = self.rng.range(5, n as i64 / 2) as usize;
        // the fresh key: burst below, just above and above the number of requests it gets (not equal to it: the handlers
        // read the clock before they queue, and a request that reaches the limiter with a timestamp a few hundred
        // nanoseconds older than its predecessor's is refused the LAST token of a burst)
        let bf = match self.rng.below(3) {
            0 => self.rng.range(1, nf as i64 - 1),
            1 => nf as i64 + 1,
            _ => nf as i64 + self.rng.range(2, 6),
        };
        let kf = self.new_key("mx", bf);
        let mut keys = vec![kf.clone()];
        for _ in 0..3 {
            let b = self.rng.range(2, 9);
            keys.push(self.new_key("mxo", b));
        }
        let ch = match open_channel(self.ports.grpc).await {
            Ok(c) => c,
            Err(e) => {
                self.viol(out, "C11", format!("gRPC: cannot open a channel: {e}"), from);
                return;
            }
        };
        let barrier = Arc::new(tokio::sync::Barrier::new(n));
        let mut hs = vec![];
        let mut per_key: BTreeMap<String, usize> = BTreeMap::new();
        for i in 0..n {
            let key = if i < nf { kf.clone() } else { self.rng.pick(&keys[1..]) };
            *per_key.entry(key.clone()).or_insert(0) += 1;
            let l = self.logical(&key, Some(1));
            let (ch, bar, documented) = (ch.clone(), barrier.clone(), i % 2 == 1);
            hs.push(tokio::spawn(async move {
                bar.wait().await;
                let r = tokio::time::timeout(Duration::from_secs(10), rpc(ch, documented, &l, None)).await;
                (key, r)
            }));
        }
        let mut by_key: BTreeMap<String, Vec<WireAns>> = BTreeMap::new();
        for h in hs {
            match h.await {
                Ok((key, Ok(r))) => by_key.entry(key).or_default().push(as_ans(&r)),
                Ok((key, Err(_))) => by_key.entry(key).or_default().push(WireAns::Broken("no answer within 10 s".into())),
                Err(e) => by_key.entry(kf.clone()).or_default().push(WireAns::Broken(format!("client task failed: {e}"))),
            }
        }
        tokio::time::sleep(Duration::from_millis(5)).await;
        let procs = self.procs();
        out.bump("grpc_multiplex_rounds");
        out.add("grpc_multiplexed_rpcs", n as u64);
        self.log.push(format!(
            "gRPC: {n} concurrent unit RPCs multiplexed on ONE channel (one HTTP/2 connection; generated and documented-schema client alternate): {}",
            by_key.iter().map(|(k, v)| format!("{} x key {} (burst {}) -> {}", v.len(), show_key(k), self.model.keys[k].b, short(&v.iter().map(|a| a.show()).collect::<Vec<_>>().join(" "), 400))).collect::<Vec<_>>().join(" | ")
        ));
        let what = format!("{n} concurrent RPCs multiplexed on one gRPC channel");
        for (key, answers) in by_key {
            self.judge_simultaneous(out, from, &key, &answers, &procs, &what);
        }
        if self.inproc && procs.len() != n {
            self.viol(out, "C12", format!("{what}: the limiter was called {} times", procs.len()), from);
        }
        // the channel goes on serving
        for i in 0..3 {
            let l = self.logical(&kf, Some(1));
            let r = tokio::time::timeout(Duration::from_secs(5), rpc(ch.clone(), i % 2 == 0, &l, None)).await;
            let ans = match r {
                Ok(r) => as_ans(&r),
                Err(_) => WireAns::Broken("no answer within 5 s".into()),
            };
            self.log.push(format!("gRPC: RPC {} on the same channel afterwards, key {} -> {}", i + 1, show_key(&kf), ans.show()));
            let what = format!("RPC {} on the channel that carried {n} concurrent RPCs a moment ago", i + 1);
            if !self.judge(out, from, "C09", Proto::Grpc, Want::Decision, &l, &ans, 0, &what, None) {
                break;
            }
        }
    }

    /// B2 + B3: RPCs with a `grpc-timeout` of 1..50 ms and RPCs cancelled right after they were sent, next to ordinary
    /// RPCs on the SAME channel while the server is busy
    pub async fn grpc_deadlines(&mut self, out: &mut Out) {
        let from = self.log.len();
        let ch = match open_channel(self.ports.grpc).await {
            Ok(c) => c,
            Err(e) => {
                self.viol(out, "C11", format!("gRPC: cannot open a channel: {e}"), from);
                return;
            }
        };
        let bt = self.rng.range(3, 6);
        let kt = self.new_key("dl", bt);
        let n_ord = self.rng.range(8, 20) as usize;
        let n_big = self.rng.range(2, 4) as usize;
        // (at most 18 calls end in a reset: the server's HTTP/2 layer closes a connection with more than 20 streams
        // that were reset before it got to accept them)
        let n_victims = self.rng.range(6, 12) as usize;
        let n_cancel = self.rng.range(3, 6) as usize;
        // never denied: burst 1 000 000, 1 000 000 per second (not model keys; a timed-out request may or may not count)
        let free = |key: String| Logical { key, b: 1_000_000, c: 1_000_000, p: 1, q: Some(1) };
        let total = n_ord + n_big + n_victims + n_cancel;
        let barrier = Arc::new(tokio::sync::Barrier::new(total));
        // (kind, key, timeout ms / cancel us, result)
        let mut hs = vec![];
        for i in 0..n_ord {
            let l = self.logical(&kt, Some(1));
            let (ch, bar) = (ch.clone(), barrier.clone());
            hs.push(tokio::spawn(async move {
                bar.wait().await;
                let r = tokio::time::timeout(Duration::from_secs(10), rpc(ch, i % 2 == 0, &l, None)).await;
                ("ordinary", 0u64, r.ok())
            }));
        }
        for i in 0..n_big {
            // ordinary RPCs that take the server a while: a key of 1 MB / 3 MB
            let l = free(format!("{}dlbig{i}_{}", self.tag, "k".repeat(if i % 2 == 0 { 1_000_000 } else { 3_000_000 })));
            let (ch, bar) = (ch.clone(), barrier.clone());
            hs.push(tokio::spawn(async move {
                bar.wait().await;
                let r = tokio::time::timeout(Duration::from_secs(10), rpc(ch, i % 2 == 0, &l, None)).await;
                ("big", 0u64, r.ok())
            }));
        }
        for i in 0..n_victims {
            let ms = self.rng.pick(&[1u64, 1, 2, 3, 5, 10, 20, 50]);
            let pad = self.rng.pick(&[0usize, 0, 100_000, 1_000_000]);
            let l = free(format!("{}dlv{i}_{}", self.tag, "v".repeat(pad)));
            let (ch, bar) = (ch.clone(), barrier.clone());
            hs.push(tokio::spawn(async move {
                bar.wait().await;
                let r = tokio::time::timeout(Duration::from_secs(10), rpc(ch, i % 2 == 0, &l, Some(Duration::from_millis(ms)))).await;
                ("deadline", ms, r.ok())
            }));
        }
        for i in 0..n_cancel {
            let us = self.rng.pick(&[0u64, 30, 100, 300, 1000]);
            let l = free(format!("{}dlc{i}", self.tag));
            let (ch, bar) = (ch.clone(), barrier.clone());
            hs.push(tokio::spawn(async move {
                bar.wait().await;
                // the future of the call is dropped: the stream is reset (RST_STREAM) if it was opened at all
                let r = tokio::time::timeout(Duration::from_micros(us), rpc(ch, i % 2 == 0, &l, None)).await;
                ("cancelled", us, r.ok())
            }));
        }
        let mut ordinary: Vec<WireAns> = vec![];
        let (mut timeouts, mut in_time, mut cancelled_answered) = (0u64, 0u64, 0u64);
        let mut notes: Vec<String> = vec![];
        for h in hs {
            let Ok((kind, arg, r)) = h.await else { continue };
            match (kind, r) {
                ("ordinary", Some(r)) => ordinary.push(as_ans(&r)),
                ("ordinary", None) => ordinary.push(WireAns::Broken("no answer within 10 s".into())),
                ("big", r) => {
                    let ans = match &r {
                        Some(r) => as_ans(r),
                        None => WireAns::Broken("no answer within 10 s".into()),
                    };
                    self.account(Proto::Grpc, &ans, 0, "");
                    out.bump("feature_requests");
                    if !matches!(ans, WireAns::Ok(true, 1_000_000, ..)) {
                        notes.push(format!("big:{}", ans.show()));
                        self.viol(out, "C11", format!("an RPC WITHOUT a deadline (key of 1 MB / 3 MB, burst 1000000: always allowed) on a channel that also carries RPCs with a grpc-timeout of 1..50 ms and cancelled RPCs was answered {} - deadlines and cancellations are per call", short(&ans_text(&ans), 200)), from);
                    }
                }
                ("deadline", Some(Ok(d))) => {
                    in_time += 1;
                    let ans = WireAns::Ok(d.0, d.1, d.2, d.3, d.4);
                    self.account(Proto::Grpc, &ans, 0, "");
                    if !matches!(ans, WireAns::Ok(true, 1_000_000, ..)) {
                        self.viol(out, "C12", format!("an RPC with grpc-timeout {arg} ms on a key with burst 1000000 was answered {}", ans.show()), from);
                    }
                }
                ("deadline", Some(Err(s))) if timed_out(&s) => {
                    timeouts += 1;
                    self.unsure_grpc += 1;
                    self.sent[Proto::Grpc as usize] += 1;
                }
                ("deadline", other) => {
                    self.unsure_grpc += 1;
                    let txt = match other {
                        Some(Err(s)) => format!("status {:?}: {}", s.code(), s.message()),
                        _ => "no answer within 10 s".into(),
                    };
                    notes.push(format!("deadline {arg} ms:{txt}"));
                    self.viol(out, "C11", format!("an RPC with grpc-timeout {arg} ms ended with {} - neither an answer nor DEADLINE_EXCEEDED / CANCELLED", short(&txt, 200)), from);
                }
                ("cancelled", Some(r)) => {
                    // it was answered before the client could drop it
                    cancelled_answered += 1;
                    let ans = as_ans(&r);
                    self.account(Proto::Grpc, &ans, 0, "");
                }
                ("cancelled", None) => {
                    self.unsure_grpc += 1;
                    self.sent[Proto::Grpc as usize] += 1;
                }
                _ => {}
            }
        }
        tokio::time::sleep(Duration::from_millis(30)).await;
        let procs = self.procs();
        out.bump("grpc_deadline_rounds");
        out.add("obs_grpc_deadline_rpcs_timed_out", timeouts);
        out.add("obs_grpc_deadline_rpcs_answered_in_time", in_time);
        out.add("obs_grpc_cancelled_rpcs_answered_before_the_drop", cancelled_answered);
        self.log.push(format!(
            "gRPC: ONE channel, released together: {n_ord} ordinary RPCs on key {} (burst {bt}), {n_big} ordinary RPCs with keys of 1 MB / 3 MB (burst 1000000), {n_victims} RPCs with a grpc-timeout of 1..50 ms ({timeouts} ended DEADLINE_EXCEEDED / CANCELLED, {in_time} answered), {n_cancel} RPCs dropped 0..1000 us after the call was made ({cancelled_answered} answered before that) -> ordinary: {}{}",
            show_key(&kt),
            ordinary.iter().map(|a| a.show()).collect::<Vec<_>>().join(" "),
            if notes.is_empty() { String::new() } else { format!(" ; {}", short(&notes.join(" "), 400)) }
        ));
        let what = "ordinary RPCs on a channel that also carries RPCs with a grpc-timeout of 1..50 ms and RPCs cancelled by dropping their future".to_string();
        self.judge_simultaneous(out, from, &kt, &ordinary, &procs, &what);
        if self.inproc {
            // a request that timed out or was cancelled was processed completely or not at all
            let others = procs.iter().filter(|p| p.0[0] != hx(kt.as_bytes())).count() as u64;
            let least = n_big as u64 + in_time + cancelled_answered;
            if others < least || others > (n_big + n_victims + n_cancel) as u64 {
                self.viol(out, "C12", format!("{what}: the limiter was called {others} times for the {} RPCs on always-allowed keys, {least} of which were answered", n_big + n_victims + n_cancel), from);
            }
        }
        // the channel goes on serving, the key's budget is what the answered RPCs left
        for i in 0..3 {
            let l = self.logical(&kt, Some(1));
            let r = tokio::time::timeout(Duration::from_secs(5), rpc(ch.clone(), i % 2 == 0, &l, None)).await;
            let ans = match r {
                Ok(r) => as_ans(&r),
                Err(_) => WireAns::Broken("no answer within 5 s".into()),
            };
            self.log.push(format!("gRPC: RPC {} on the same channel afterwards, key {} -> {}", i + 1, show_key(&kt), ans.show()));
            let what = format!("RPC {} on a channel after RPCs on it timed out (grpc-timeout) and were cancelled", i + 1);
            if !self.judge(out, from, "C11", Proto::Grpc, Want::Decision, &l, &ans, 0, &what, None) {
                break;
            }
        }
    }

    /// B5: 50 RPCs one after the other on ONE channel (generated / documented-schema client in turn)
    pub async fn grpc_sequential(&mut self, out: &mut Out, shared: &[String]) {
        let from = self.log.len();
        let ch = match open_channel(self.ports.grpc).await {
            Ok(c) => c,
            Err(e) => {
                self.viol(out, "C11", format!("gRPC: cannot open a channel: {e}"), from);
                return;
            }
        };
        let mut keys: Vec<String> = shared.to_vec();
        for _ in 0..2 {
            let b = self.rng.range(3, 12);
            keys.push(self.new_key("sq", b));
        }
        let err_at = self.rng.range(5, 45) as usize;
        self.log.push(format!("gRPC: 50 RPCs one after the other on ONE channel (RPC {} has quantity -1)", err_at + 1));
        out.bump("grpc_sequential_channels");
        for i in 0..50usize {
            let key = self.rng.pick(&keys);
            let (l, want) = if i == err_at { (self.logical(&key, Some(-1)), Want::LimiterError) } else { (self.logical(&key, Some(1)), Want::Decision) };
            let r = tokio::time::timeout(Duration::from_secs(5), rpc(ch.clone(), i % 2 == 1, &l, None)).await;
            let ans = match r {
                Ok(r) => as_ans(&r),
                Err(_) => WireAns::Broken("no answer within 5 s".into()),
            };
            self.log.push(format!("[{}] gRPC Throttle key {} burst {} quantity {} -> {}", i + 1, show_key(&key), l.b, l.q.unwrap_or(1), short(&ans_text(&ans), 120)));
            let what = format!("RPC {} of 50 in sequence on one gRPC channel ({} client, key {})", i + 1, if i % 2 == 1 { "documented-schema" } else { "generated" }, show_key(&key));
            if !self.judge(out, from, "C12", Proto::Grpc, want, &l, &ans, 0, &what, None) {
                return;
            }
        }
    }
}

// ----------------------------------------------------------------------------------------
// C. RESP
// ----------------------------------------------------------------------------------------
fn bulk(s: &[u8]) -> Vec<u8> {
    let mut v = format!("${}\r\n", s.len()).into_bytes();
    v.extend_from_slice(s);
    v.extend_from_slice(b"\r\n");
    v
}

fn array(parts: &[Vec<u8>]) -> Vec<u8> {
    let mut v = format!("*{}\r\n", parts.len()).into_bytes();
    for p in parts {
        v.extend_from_slice(p);
    }
    v
}

fn cased(rng: &mut Rng, name: &str) -> String {
    match rng.below(4) {
        0 => name.to_ascii_uppercase(),
        1 => name.to_ascii_lowercase(),
        2 => {
            let mut c = name.to_ascii_lowercase().chars().collect::<Vec<_>>();
            c[0] = c[0].to_ascii_uppercase();
            c.into_iter().collect()
        }
        _ => name.chars().map(|c| if rng.chance(1, 2) { c.to_ascii_uppercase() } else { c.to_ascii_lowercase() }).collect(),
    }
}

/// what a RESP command of a scenario must be answered with
#[derive(Clone, Debug)]
enum RespWant {
    /// THROTTLE on a model key
    Throttle(Logical, Want),
    /// exactly this reply
    Exactly(RespValue),
    /// an error reply; the limiter is not called
    Error,
}

#[derive(Clone, Debug)]
struct RespItem {
    bytes: Vec<u8>,
    want: RespWant,
    what: String,
}

impl Fx {
    /// a well-formed THROTTLE: name in any case, numbers as bulk strings or RESP integers, quantity 1 or omitted
    fn resp_throttle(&mut self, key: &str) -> RespItem {
        let q = if self.rng.chance(1, 2) { Some(1) } else { None };
        let l = self.logical(key, q);
        let name = cased(&mut self.rng, "throttle");
        let mut parts = vec![bulk(name.as_bytes()), bulk(key.as_bytes())];
        let mut nums = vec![l.b, l.c, l.p];
        if let Some(q) = q {
            nums.push(q);
        }
        for n in nums {
            parts.push(if self.rng.chance(1, 2) { bulk(n.to_string().as_bytes()) } else { format!(":{n}\r\n").into_bytes() });
        }
        let what = format!("{name} {} {} {} {}{}", show_key(key), l.b, l.c, l.p, if q.is_some() { " 1" } else { "" });
        RespItem { bytes: array(&parts), want: RespWant::Throttle(l, Want::Decision), what }
    }

    fn resp_ping(&mut self, tag: Option<String>) -> RespItem {
        let name = cased(&mut self.rng, "ping");
        match tag {
            None => RespItem { bytes: array(&[bulk(name.as_bytes())]), want: RespWant::Exactly(RespValue::SimpleString("PONG".into())), what: name },
            Some(t) => RespItem { bytes: array(&[bulk(name.as_bytes()), bulk(t.as_bytes())]), want: RespWant::Exactly(RespValue::BulkString(Some(t.clone()))), what: format!("{name} {t}") },
        }
    }

    /// a command that is answered with an error reply
    fn resp_error(&mut self, key: &str) -> RespItem {
        let l = self.logical(key, Some(1));
        let t = bulk(cased(&mut self.rng, "throttle").as_bytes());
        let k = bulk(key.as_bytes());
        let n = |x: i64| bulk(x.to_string().as_bytes());
        let null = b"$-1\r\n".to_vec();
        let empty = b"$0\r\n\r\n".to_vec();
        // a third of them: requests the LIMITER rejects (`-ERR Rate limit check failed: ...`)
        if self.rng.chance(1, 3) {
            let (b, c, p, q, what) = match self.rng.below(4) {
                0 => (0, l.c, l.p, 1, "THROTTLE with max_burst 0 (rejected by the limiter)"),
                1 => (l.b, 0, l.p, 1, "THROTTLE with count_per_period 0 (rejected by the limiter)"),
                2 => (l.b, l.c, 0, 1, "THROTTLE with period 0 (rejected by the limiter)"),
                _ => (l.b, l.c, l.p, -1, "THROTTLE with quantity -1 (rejected by the limiter)"),
            };
            let bad = Logical { key: key.to_string(), b, c, p, q: Some(q) };
            let mut parts = vec![t, k, n(b), n(c), n(p)];
            if q != 1 || self.rng.chance(1, 2) {
                parts.push(n(q));
            }
            return RespItem { bytes: array(&parts), want: RespWant::Throttle(bad, Want::LimiterError), what: what.to_string() };
        }
        if self.rng.chance(1, 8) {
            // the key as a RESP integer: an error reply, or - should the server take integers for keys - a decision on
            // the key written in decimal
            let ik = self.int_key.clone();
            let li = self.logical(&ik, Some(1));
            let bytes = array(&[t, format!(":{ik}\r\n").into_bytes(), n(li.b), n(li.c), n(li.p)]);
            return RespItem { bytes, want: RespWant::Throttle(li, Want::Either), what: format!("THROTTLE with the key as a RESP integer (:{ik})") };
        }
        let (bytes, what, want): (Vec<u8>, &str, RespWant) = match self.rng.below(12) {
            0 => (array(&[t, k, n(l.b), n(l.c)]), "THROTTLE with 3 arguments", RespWant::Error),
            1 => (array(&[t, k, n(l.b), n(l.c), n(l.p), n(1), n(1)]), "THROTTLE with 6 arguments", RespWant::Error),
            2 => (array(&[bulk(b"GET"), k]), "an unknown command", RespWant::Error),
            3 => (array(&[bulk(b"thr\xc3\xb6ttle"), k, n(l.b), n(l.c), n(l.p)]), "an unknown command with a non-ASCII name", RespWant::Error),
            4 => (array(&[t, k, bulk(b"two"), n(l.c), n(l.p)]), "THROTTLE with a non-numeric max_burst", RespWant::Error),
            5 => (array(&[t, k, n(l.b), n(l.c), n(l.p), bulk(b"1.0")]), "THROTTLE with quantity 1.0", RespWant::Error),
            6 => (array(&[t, k, n(l.b), n(l.c), n(l.p), n(-1)]), "THROTTLE with quantity -1", RespWant::Throttle(Logical { q: Some(-1), ..l.clone() }, Want::LimiterError)),
            7 => (array(&[t]), "THROTTLE without arguments", RespWant::Error),
            8 => (array(&[t, null, n(l.b), n(l.c), n(l.p)]), "THROTTLE with a NULL bulk string as key", RespWant::Error),
            9 => (array(&[t, k, n(l.b), null, n(l.p)]), "THROTTLE with a NULL bulk string as count_per_period", RespWant::Error),
            10 => (array(&[t, k, n(l.b), n(l.c), empty]), "THROTTLE with an EMPTY bulk string as period", RespWant::Error),
            _ => (array(&[bulk(cased(&mut self.rng, "ping").as_bytes()), bulk(b"a"), bulk(b"b")]), "PING with two arguments", RespWant::Error),
        };
        RespItem { bytes, want, what: what.to_string() }
    }

    /// the reply to `item`, judged; false = stop
    fn judge_resp(&mut self, out: &mut Out, from: usize, tag: &str, item: &RespItem, r: &Result<RespValue, String>, what: &str, proc_: Option<Option<(Vec<String>, String)>>) -> bool {
        match &item.want {
            RespWant::Throttle(l, want) => {
                let ans = resp_answer(r.clone());
                self.judge(out, from, tag, Proto::Resp, want.clone(), l, &ans, 0, what, proc_)
            }
            RespWant::Exactly(v) => {
                out.bump("feature_requests");
                self.sent[Proto::Resp as usize] += 1;
                match r {
                    Ok(got) => {
                        self.cnt.resp += 1;
                        if got != v {
                            self.viol(out, tag, format!("{what}: replied {}, want {}", short(&crate::val::show(got), 120), crate::val::show(v)), from);
                        }
                        true
                    }
                    Err(e) => {
                        self.viol(out, if tag == "C10" { "C10" } else { "C11" }, format!("{what}: no reply ({e})"), from);
                        false
                    }
                }
            }
            RespWant::Error => {
                out.bump("feature_requests");
                self.sent[Proto::Resp as usize] += 1;
                match r {
                    Ok(RespValue::Error(_)) => {
                        self.cnt.resp += 1;
                        if let Some(Some((id, resp))) = &proc_ {
                            self.viol(out, "C12", format!("{what}: answered with an error reply but the limiter was called ({} -> {resp})", id[..5].join(":")), from);
                        }
                        true
                    }
                    Ok(other) => {
                        self.cnt.resp += 1;
                        self.viol(out, if tag == "C10" { "C10" } else { "C12" }, format!("{what}: must be answered with an error reply, got {}", short(&crate::val::show(other), 120)), from);
                        true
                    }
                    Err(e) => {
                        self.viol(out, if tag == "C10" { "C10" } else { "C11" }, format!("{what}: no reply ({e}); a command that is refused gets an error reply and the connection goes on"), from);
                        false
                    }
                }
            }
        }
    }

    async fn resp_call(conn: &mut RespConn, bytes: &[u8]) -> Result<RespValue, String> {
        match tokio::time::timeout(Duration::from_secs(3), conn.call(bytes)).await {
            Ok(r) => r,
            Err(_) => Err("no reply within 3 s".into()),
        }
    }

    /// C1: ONE connection, hundreds of commands one round trip each (some in small groups), error replies in between
    pub async fn resp_long_connection(&mut self, out: &mut Out, shared: &[String], ncmd: usize) {
        let from = self.log.len();
        let mut keys: Vec<String> = shared.to_vec();
        for _ in 0..2 {
            let b = self.rng.range(3, 30);
            keys.push(self.new_key("rl", b));
        }
        keys.push(self.new_key("rl é€ ", 5));
        // the EMPTY key is a key like any other
        if self.empty_key {
            if !self.model.keys.contains_key("") {
                let b = self.rng.range(3, 8);
                self.adopt_key(String::new(), b);
            }
            keys.push(String::new());
        }
        self.log.push(format!("RESP: ONE connection, {ncmd} commands (one round trip each; groups of 2..5 in one write now and then), error replies in between"));
        out.bump("resp_long_connections");
        let mut conn = match RespConn::open(self.ports.resp).await {
            Ok(c) => c,
            Err(e) => {
                self.viol(out, "C11", format!("RESP: cannot connect: {e}"), from);
                return;
            }
        };
        let mut after_error: Option<String> = None;
        let mut i = 0usize;
        while i < ncmd {
            let group = if after_error.is_none() && self.rng.chance(1, 10) { self.rng.range(2, 5) as usize } else { 1 };
            let mut items = vec![];
            for g in 0..group {
                let key = self.rng.pick(&keys);
                let item = if after_error.is_some() && g == 0 {
                    // right after an error reply: a command whose reply is known exactly
                    if self.rng.chance(1, 3) { let t = format!("after-error-{i}"); self.resp_ping(Some(t)) } else { self.resp_throttle(&key) }
                } else {
                    match self.rng.below(10) {
                        0 => self.resp_ping(None),
                        1 => {
                            let t = format!("tag-{i}-{g}");
                            self.resp_ping(Some(t))
                        }
                        2 | 3 | 4 => self.resp_error(&key),
                        _ => self.resp_throttle(&key),
                    }
                };
                items.push(item);
            }
            let bytes: Vec<u8> = items.iter().flat_map(|x| x.bytes.clone()).collect();
            let mut replies = vec![];
            for g in 0..group {
                let r = Self::resp_call(&mut conn, if g == 0 { &bytes } else { b"" }).await;
                let stop = r.is_err();
                replies.push(r);
                if stop {
                    break;
                }
            }
            let mut procs = if group > 1 { self.procs() } else { vec![] };
            for (g, item) in items.iter().enumerate() {
                let Some(r) = replies.get(g) else { break };
                let shown = match r {
                    Ok(v) => short(&crate::val::show(v), 90),
                    Err(e) => format!("no reply ({e})"),
                };
                self.log.push(format!("[{}] RESP {} -> {shown}", i + g + 1, item.what));
                let what = format!("command {} of {ncmd} on one RESP connection ({}){}", i + g + 1, item.what, after_error.as_ref().map(|e| format!(", right after {e}")).unwrap_or_default());
                let proc_ = if group == 1 && !matches!(item.want, RespWant::Throttle(..)) {
                    Some(self.procs().into_iter().next())
                } else if group > 1 {
                    let takes = matches!((&item.want, r), (RespWant::Throttle(..), Ok(RespValue::Array(_))) | (RespWant::Throttle(_, Want::LimiterError), Ok(_)));
                    Some(if takes && !procs.is_empty() { Some(procs.remove(0)) } else { None })
                } else {
                    None
                };
                let tag = if after_error.is_some() { "C11" } else { "C12" };
                if !self.judge_resp(out, from, tag, item, r, &what, proc_) {
                    return;
                }
                after_error = match r {
                    Ok(RespValue::Error(_)) => Some(format!("command {} ({}) was answered with an error reply", i + g + 1, item.what)),
                    _ => None,
                };
            }
            i += group;
        }
    }

    /// C2: two connections used alternately on the same key
    pub async fn resp_two_connections(&mut self, out: &mut Out) {
        let from = self.log.len();
        let b = self.rng.range(4, 8);
        let key = self.new_key("r2", b);
        let (c1, c2) = (RespConn::open(self.ports.resp).await, RespConn::open(self.ports.resp).await);
        let (Ok(c1), Ok(c2)) = (c1, c2) else {
            self.viol(out, "C11", "RESP: cannot open two connections".into(), from);
            return;
        };
        let mut conns = [c1, c2];
        let n = (b + self.rng.range(2, 5)) as usize;
        self.log.push(format!("RESP: two connections used alternately for {n} unit requests on key {} (burst {b})", show_key(&key)));
        out.bump("resp_two_connection_rounds");
        for i in 0..n {
            let which = if self.rng.chance(1, 6) { self.rng.below(2) as usize } else { i % 2 };
            let item = self.resp_throttle(&key);
            let r = Self::resp_call(&mut conns[which], &item.bytes).await;
            self.log.push(format!("[{}] connection {} RESP {} -> {}", i + 1, which + 1, item.what, match &r { Ok(v) => crate::val::show(v), Err(e) => format!("no reply ({e})") }));
            let what = format!("request {} of {n} on one key over two RESP connections in turn (this one on connection {})", i + 1, which + 1);
            if !self.judge_resp(out, from, "C09", &item, &r, &what, None) {
                return;
            }
        }
    }

    /// C3: PING interleaved with THROTTLE (and a few refused commands) in ONE long pipeline
    pub async fn resp_pipeline(&mut self, out: &mut Out, shared: &[String]) {
        let from = self.log.len();
        let n = self.rng.range(100, 300) as usize;
        let mut keys: Vec<String> = vec![shared[self.rng.below(shared.len() as u64) as usize].clone()];
        for j in 0..3 {
            let b = 3 + 7 * j + self.rng.range(0, 6);
            keys.push(self.new_key("rp", b));
        }
        let mut items = vec![];
        for i in 0..n {
            let key = self.rng.pick(&keys);
            items.push(match self.rng.below(10) {
                0 | 1 => self.resp_ping(None),
                2 | 3 | 4 => {
                    let t = format!("p{i}-{}", "x".repeat(self.rng.below(30) as usize));
                    self.resp_ping(Some(t))
                }
                5 => self.resp_error(&key),
                _ => self.resp_throttle(&key),
            });
        }
        let bytes: Vec<u8> = items.iter().flat_map(|x| x.bytes.clone()).collect();
        let mut conn = match TcpStream::connect(("127.0.0.1", self.ports.resp)).await {
            Ok(c) => c,
            Err(e) => {
                self.viol(out, "C11", format!("RESP: cannot connect: {e}"), from);
                return;
            }
        };
        conn.set_nodelay(true).ok();
        // written in pieces that do not respect command boundaries
        let one_write = self.rng.chance(1, 3);
        let mut at = 0usize;
        let mut writes = 0usize;
        while at < bytes.len() {
            let len = if one_write { bytes.len() } else { self.rng.range(200, 4000) as usize };
            let end = (at + len).min(bytes.len());
            if conn.write_all(&bytes[at..end]).await.is_err() {
                break;
            }
            writes += 1;
            at = end;
        }
        self.log.push(format!("RESP: ONE connection, a pipeline of {n} commands ({} bytes, PING / PING <tag> / THROTTLE on {} keys / refused commands) written in {writes} write(s) without waiting for replies", bytes.len(), keys.len()));
        out.bump("resp_pipelines");
        out.add("resp_pipelined_commands", n as u64);
        // read until n replies are there (or nothing comes for 3 s)
        let mut buf: Vec<u8> = vec![];
        let mut replies: Vec<RespValue> = vec![];
        let mut parser = throttlecrab_server::transport::redis::resp::RespParser::new();
        let mut tmp = vec![0u8; 16384];
        let mut end = "nothing more for 3 s";
        while replies.len() < n {
            match tokio::time::timeout(Duration::from_secs(3), conn.read(&mut tmp)).await {
                Err(_) => break,
                Ok(Ok(0)) | Ok(Err(_)) => {
                    end = "connection closed by the server";
                    break;
                }
                Ok(Ok(k)) => buf.extend_from_slice(&tmp[..k]),
            }
            while let crate::resp::Dec::Ok(v, used) = crate::resp::parse_with(&mut parser, &buf) {
                buf.drain(..used);
                replies.push(v);
            }
        }
        // anything beyond the n replies?
        if replies.len() == n {
            if let Ok(Ok(k)) = tokio::time::timeout(Duration::from_millis(30), conn.read(&mut tmp)).await {
                buf.extend_from_slice(&tmp[..k]);
            }
        }
        let mut procs = self.procs();
        if replies.len() != n || !buf.is_empty() {
            self.viol(out, "C10", format!("a pipeline of {n} RESP commands on one connection got {} replies and {} bytes that are no complete reply ({end})", replies.len(), buf.len()), from);
        }
        let mut shown_bad = 0;
        for (i, item) in items.iter().enumerate() {
            let Some(v) = replies.get(i) else { break };
            let r = Ok(v.clone());
            let takes = matches!((&item.want, v), (RespWant::Throttle(..), RespValue::Array(_)) | (RespWant::Throttle(_, Want::LimiterError), _));
            let proc_ = if takes && !procs.is_empty() { Some(procs.remove(0)) } else { None };
            let before: u64 = out.stats.iter().filter(|s| s.0.starts_with("violations_")).map(|s| *s.1).sum();
            let what = format!("reply {} of a pipeline of {n} RESP commands (to: {})", i + 1, item.what);
            self.judge_resp(out, from, "C10", item, &r, &what, Some(proc_));
            let after: u64 = out.stats.iter().filter(|s| s.0.starts_with("violations_")).map(|s| *s.1).sum();
            if after != before {
                self.log.push(format!("[{}] RESP {} -> {}", i + 1, item.what, short(&crate::val::show(v), 100)));
                shown_bad += 1;
                if shown_bad >= 3 {
                    break; // (one shifted reply makes all later ones wrong)
                }
            }
        }
        if self.inproc && !procs.is_empty() && shown_bad == 0 {
            self.viol(out, "C12", format!("a pipeline of {n} RESP commands: {} limiter calls are left without a reply that carries their decision", procs.len()), from);
        }
    }

    /// C4: a VERY long pipeline in ONE write: `n` short commands - THROTTLE on one fresh key with burst 5, a PING every
    /// `every`-th - while a reader takes the replies as they come; judged BY POSITION: count, kind, decisions (exactly
    /// the burst admitted, in front)
    pub async fn resp_uniform_pipeline(&mut self, out: &mut Out, n: usize) {
        let from = self.log.len();
        let key = self.new_key("ru", 5);
        let every = self.rng.pick(&[10usize, 50]);
        let mut items = vec![];
        for i in 0..n {
            if i % every == every - 1 {
                items.push(self.resp_ping(None));
            } else {
                items.push(self.resp_throttle(&key));
            }
        }
        let bytes: Vec<u8> = items.iter().flat_map(|x| x.bytes.clone()).collect();
        let conn = match TcpStream::connect(("127.0.0.1", self.ports.resp)).await {
            Ok(c) => c,
            Err(e) => {
                self.viol(out, "C11", format!("RESP: cannot connect: {e}"), from);
                return;
            }
        };
        conn.set_nodelay(true).ok();
        let (mut rd, mut wr) = conn.into_split();
        let total = bytes.len();
        let writer = tokio::spawn(async move {
            let r = wr.write_all(&bytes).await;
            (wr, r.is_ok())
        });
        let mut buf: Vec<u8> = vec![];
        let mut replies: Vec<RespValue> = vec![];
        let mut parser = throttlecrab_server::transport::redis::resp::RespParser::new();
        let mut tmp = vec![0u8; 65536];
        let mut end = "nothing more for 3 s";
        let mut reply_bytes = 0usize;
        while replies.len() < n {
            match tokio::time::timeout(Duration::from_secs(3), rd.read(&mut tmp)).await {
                Err(_) => break,
                Ok(Ok(0)) | Ok(Err(_)) => {
                    end = "connection closed by the server";
                    break;
                }
                Ok(Ok(k)) => {
                    reply_bytes += k;
                    buf.extend_from_slice(&tmp[..k]);
                }
            }
            while let crate::resp::Dec::Ok(v, used) = crate::resp::parse_with(&mut parser, &buf) {
                buf.drain(..used);
                replies.push(v);
            }
        }
        if replies.len() == n {
            // anything after the last reply?
            if let Ok(Ok(k)) = tokio::time::timeout(Duration::from_millis(40), rd.read(&mut tmp)).await {
                reply_bytes += k;
                buf.extend_from_slice(&tmp[..k]);
            }
        }
        let wrote = matches!(tokio::time::timeout(Duration::from_secs(3), writer).await, Ok(Ok((_, true))));
        let mut procs = self.procs();
        self.log.push(format!("RESP: ONE connection, ONE write of {n} commands ({total} bytes{}): THROTTLE on key {} (burst 5, unit requests) with a PING every {every}th -> {} replies ({reply_bytes} bytes), {} bytes left over", if wrote { "" } else { ", NOT all written" }, show_key(&key), replies.len(), buf.len()));
        out.bump("resp_uniform_pipelines");
        out.add("resp_pipelined_commands", n as u64);
        if replies.len() != n || !buf.is_empty() {
            self.viol(out, "C10", format!("{n} RESP commands in one write on one connection got {} replies and {} bytes beyond them ({end}): one reply per command", replies.len(), buf.len()), from);
        }
        let mut reported = 0;
        for (i, item) in items.iter().enumerate() {
            let Some(v) = replies.get(i) else { break };
            let takes = matches!((&item.want, v), (RespWant::Throttle(..), RespValue::Array(_)));
            let proc_ = if takes && !procs.is_empty() { Some(procs.remove(0)) } else { None };
            let before: u64 = out.stats.iter().filter(|s| s.0.starts_with("violations_")).map(|s| *s.1).sum();
            let what = format!("reply {} of {n} to RESP commands written in ONE write (to: {})", i + 1, item.what);
            self.judge_resp(out, from, "C10", item, &Ok(v.clone()), &what, Some(proc_));
            let after: u64 = out.stats.iter().filter(|s| s.0.starts_with("violations_")).map(|s| *s.1).sum();
            if after != before {
                self.log.push(format!("[{}] RESP {} -> {}", i + 1, item.what, short(&crate::val::show(v), 100)));
                reported += 1;
                if reported >= 3 {
                    break;
                }
            }
        }
        let admitted = replies.iter().filter(|v| matches!(v, RespValue::Array(a) if matches!(a.first(), Some(RespValue::Integer(1))))).count();
        if admitted != 5 && replies.len() >= n.min(6 + 6 / every) {
            self.viol(out, "C09", format!("{n} RESP commands in one write, the THROTTLEs all unit requests on one fresh key with burst 5: {admitted} replies say allowed, want exactly 5"), from);
        }
    }

    /// B4: gRPC deadlines AT VOLUME.  Background callers keep the limiter's queue tens of milliseconds deep; 1500..2000
    /// calls with a grpc-timeout of 5..10 ms on an EXHAUSTED key are multiplexed on one channel (most expire); then the
    /// load stops and the used channel AND a fresh channel must serve as before (C11).  The counters: a call is recorded
    /// by its handler after the limiter answered; the handler is dropped at the deadline (server side: grpc-timeout
    /// after the request arrived; or when the client's RST_STREAM arrives), so told <= counted <= told + expired
    /// always, and when a call WITHOUT deadline that was queued in front of all of them is answered only after the last
    /// of their deadlines (+ 40 ms) - the limiter is FIFO - none of the expired ones can have been recorded: counted =
    /// told exactly (C15).
    pub async fn grpc_deadline_volume(&mut self, out: &mut Out) {
        use std::sync::atomic::{AtomicBool, Ordering::SeqCst};
        let from = self.log.len();
        let ch = match open_channel(self.ports.grpc).await {
            Ok(c) => c,
            Err(e) => {
                self.viol(out, "C11", format!("gRPC: cannot open a channel: {e}"), from);
                return;
            }
        };
        // the exhausted key: whatever the limiter still processes is a DENIAL
        let kd = self.new_key("dv", 1);
        let ld = self.logical(&kd, Some(1));
        let first = as_ans(&rpc(ch.clone(), false, &ld, None).await);
        self.log.push(format!("gRPC: key {} (burst 1, 1 per {} s) exhausted: {}", show_key(&kd), ld.p, first.show()));
        if !self.judge(out, from, "C12", Proto::Grpc, Want::Decision, &ld, &first, 0, "the request that exhausts the key of the deadline volume test", None) {
            return;
        }
        self.check_counters(out, "before the gRPC deadlines at volume", from).await;
        let Some(c0) = self.last else { return };
        let denied0 = self.cnt.denied;
        let pad = if self.inproc { 200_000 } else { 2_000_000 };
        // ---- background load: always-allowed requests with keys of 2 MB, 8 channels x 8 callers
        let stop = Arc::new(AtomicBool::new(false));
        let mut load = vec![];
        for c in 0..8usize {
            let Ok(lch) = open_channel(self.ports.grpc).await else { continue };
            for t in 0..8usize {
                let (lch, stop) = (lch.clone(), Arc::clone(&stop));
                let l = Logical { key: format!("{}dvload{c}_{t}_{}", self.tag, "L".repeat(pad)), b: 1_000_000, c: 1_000_000, p: 1, q: Some(1) };
                load.push(tokio::spawn(async move {
                    let (mut ok, mut bad) = (0u64, 0u64);
                    while !stop.load(SeqCst) {
                        match tokio::time::timeout(Duration::from_secs(10), rpc(lch.clone(), t % 2 == 0, &l, None)).await {
                            Ok(Ok((true, ..))) => ok += 1,
                            Ok(Ok(_)) | Ok(Err(_)) => bad += 1,
                            Err(_) => {
                                bad += 1;
                                break;
                            }
                        }
                    }
                    (ok, bad)
                }));
            }
        }
        // (`wire`: the limiter's log would keep every 2 MB key in hex - it is thrown away while the load runs)
        let drainer = if self.inproc {
            let stop = Arc::clone(&stop);
            Some(tokio::spawn(async move {
                while !stop.load(SeqCst) {
                    take_log();
                    tokio::time::sleep(Duration::from_millis(4)).await;
                }
            }))
        } else {
            None
        };
        tokio::time::sleep(Duration::from_millis(120)).await;
        // ---- the fence: a call without deadline, queued in front of the batch
        let lfence = Logical { key: format!("{}dvfence", self.tag), b: 1_000_000, c: 1_000_000, p: 1, q: Some(1) };
        // (on a channel of its own: the server's HTTP/2 layer may close the channel of the batch - see `connection_level`)
        let fch = match open_channel(self.ports.grpc).await {
            Ok(c) => c,
            Err(_) => ch.clone(),
        };
        let lf2 = lfence.clone();
        let t_fence = Instant::now();
        let fence = tokio::spawn(async move {
            let r = tokio::time::timeout(Duration::from_secs(10), rpc(fch, false, &lf2, None)).await;
            (r, Instant::now())
        });
        tokio::time::sleep(Duration::from_millis(20)).await;
        // ---- the batch
        // (in waves of 100..200 every 8..12 ms: the calls of a wave reach their handlers, wait for the limiter and expire;
        // all at once, most of them would end with their connection before they reach a handler - see `connection_level`)
        let n = self.rng.range(1500, 2000) as usize;
        let mut hs = Vec::with_capacity(n);
        let mut wave_left = 0usize;
        for i in 0..n {
            if wave_left == 0 {
                if i > 0 {
                    tokio::time::sleep(Duration::from_millis(self.rng.range(8, 12) as u64)).await;
                }
                wave_left = self.rng.range(100, 200) as usize;
            }
            wave_left -= 1;
            let ms = self.rng.range(5, 10) as u64;
            let (ch, l) = (ch.clone(), ld.clone());
            hs.push(tokio::spawn(async move {
                let t = Instant::now();
                let r = tokio::time::timeout(Duration::from_secs(10), rpc(ch, i % 2 == 0, &l, Some(Duration::from_millis(ms)))).await;
                (t + Duration::from_millis(ms), r)
            }));
        }
        let (mut told_denied, mut expired, mut other) = (0u64, 0u64, Vec::<String>::new());
        let mut conn_failed = 0u64;
        let mut last_deadline = Instant::now();
        for h in hs {
            let Ok((deadline, r)) = h.await else { continue };
            last_deadline = last_deadline.max(deadline);
            self.sent[Proto::Grpc as usize] += 1;
            match r {
                Ok(Ok(d)) => {
                    let a = WireAns::Ok(d.0, d.1, d.2, d.3, d.4);
                    if matches!(a, WireAns::Ok(false, 1, 0, ..)) {
                        told_denied += 1;
                    } else if other.len() < 5 {
                        other.push(a.show());
                    }
                    // counted exactly once
                    self.cnt.grpc += 1;
                    if !d.0 {
                        self.cnt.denied += 1;
                        self.denials.push(kd.clone());
                    }
                }
                Ok(Err(s)) if timed_out(&s) => expired += 1,
                Ok(Err(s)) if connection_level(&s) => {
                    expired += 1;
                    conn_failed += 1;
                }
                Ok(Err(s)) => {
                    expired += 1;
                    if other.len() < 5 {
                        other.push(format!("status {:?}: {}", s.code(), short(s.message(), 80)));
                    }
                }
                Err(_) => {
                    expired += 1;
                    if other.len() < 5 {
                        other.push("no answer within 10 s".into());
                    }
                }
            }
        }
        let (fence_r, fence_at) = match fence.await {
            Ok(x) => x,
            Err(_) => (Err(tokio::time::timeout(Duration::ZERO, std::future::pending::<()>()).await.unwrap_err()), Instant::now()),
        };
        let fence_conn_lost = matches!(&fence_r, Ok(Err(s)) if connection_level(s) || timed_out(s));
        let fence_ans = match fence_r {
            Ok(r) => as_ans(&r),
            Err(_) => WireAns::Broken("no answer within 10 s".into()),
        };
        if fence_conn_lost {
            // (it may or may not have been recorded)
            self.unsure_grpc += 1;
            out.bump("obs_grpc_volume_connection_closed_by_the_server");
        } else {
            self.account(Proto::Grpc, &fence_ans, 0, "");
        }
        let fence_ms = fence_at.duration_since(t_fence).as_millis() as u64;
        let deep = matches!(fence_ans, WireAns::Ok(..)) && fence_at >= last_deadline + Duration::from_millis(40);
        stop.store(true, SeqCst);
        let (mut load_ok, mut load_bad) = (0u64, 0u64);
        for t in load {
            if let Ok((a, b)) = t.await {
                load_ok += a;
                load_bad += b;
            }
        }
        if let Some(d) = drainer {
            let _ = d.await;
        }
        if self.inproc {
            tokio::time::sleep(Duration::from_millis(50)).await;
            take_log();
        }
        // the load requests: answered, counted (all of them allowed unless something is wrong)
        self.cnt.grpc += load_ok + load_bad;
        self.sent[Proto::Grpc as usize] += load_ok + load_bad;
        out.bump("grpc_deadline_volume_rounds");
        out.add("obs_grpc_volume_calls", n as u64);
        out.add("obs_grpc_volume_calls_expired", expired);
        out.add("obs_grpc_volume_calls_answered_in_time", told_denied);
        out.add("obs_grpc_volume_fence_latency_ms", fence_ms);
        out.add(if deep { "obs_grpc_volume_queue_deep_enough_for_the_exact_check" } else { "obs_grpc_volume_queue_not_deep_enough" }, 1);
        self.log.push(format!(
            "gRPC: with {} background RPCs (keys of {pad} bytes, 64 callers) keeping the limiter busy, a call without deadline was queued 20 ms earlier on a channel of its own (answered {fence_ms} ms after it was sent: {}) and behind it {n} calls with a grpc-timeout of 5..10 ms on the exhausted key, all multiplexed on one channel (waves of 100..200 every 8..12 ms): {told_denied} answered (denied) in time, {expired} ended DEADLINE_EXCEEDED / CANCELLED{}",
            load_ok + load_bad,
            fence_ans.show(),
            if other.is_empty() { String::new() } else { format!("; unexpected: {}", other.join(" | ")) }
        ));
        if load_bad > 0 {
            self.viol(out, "C11", format!("{load_bad} of the background RPCs (always-allowed keys of 2 MB) were not answered `allowed` while {n} calls with a grpc-timeout of 5..10 ms ran on ANOTHER channel"), from);
        }
        out.add("obs_grpc_volume_calls_failed_with_the_connection", conn_failed);
        if !matches!(fence_ans, WireAns::Ok(true, ..)) && !fence_conn_lost {
            self.viol(out, "C11", format!("a call WITHOUT deadline on a channel of its own, while another channel carries {n} calls with a grpc-timeout, was answered {}", short(&ans_text(&fence_ans), 160)), from);
        }
        if !other.is_empty() {
            self.viol(out, "C11", format!("calls with a grpc-timeout of 5..10 ms on an exhausted key (burst 1) must end with a denial or DEADLINE_EXCEEDED / CANCELLED; got: {}", other.join(" | ")), from);
        }
        // ---- afterwards: the used channel and a fresh one serve as before
        let kp = self.new_key("dvp", 4);
        for (ci, which) in ["the channel that carried the expired calls", "a NEW channel"].into_iter().enumerate() {
            let pch = if ci == 0 { Ok(ch.clone()) } else { open_channel(self.ports.grpc).await };
            let Ok(pch) = pch else {
                self.viol(out, "C11", format!("after {expired} expired calls: cannot open {which}"), from);
                continue;
            };
            for i in 0..3 {
                let l = self.logical(&kp, Some(1));
                // (a channel whose connection the server closed connects again; calls that fail with the connection
                // are repeated - they cannot have reached the service)
                let mut r = tokio::time::timeout(Duration::from_secs(5), rpc(pch.clone(), i % 2 == 0, &l, None)).await;
                for _ in 0..4 {
                    if !matches!(&r, Ok(Err(s)) if connection_level(s)) {
                        break;
                    }
                    out.bump("obs_grpc_volume_probe_repeated_after_a_connection_error");
                    tokio::time::sleep(Duration::from_millis(30)).await;
                    r = tokio::time::timeout(Duration::from_secs(5), rpc(pch.clone(), i % 2 == 0, &l, None)).await;
                }
                let ans = match r {
                    Ok(r) => as_ans(&r),
                    Err(_) => WireAns::Broken("no answer within 5 s".into()),
                };
                self.log.push(format!("gRPC: afterwards, RPC {} on {which}, key {} -> {}", i + 1, show_key(&kp), short(&ans_text(&ans), 120)));
                let what = format!("after {expired} calls on one channel ended at their grpc-timeout, RPC {} on {which}", i + 1);
                if !self.judge(out, from, "C11", Proto::Grpc, Want::Decision, &l, &ans, 0, &what, None) {
                    break;
                }
            }
        }
        // ---- the counters once the queue has drained: nothing may trickle in for calls that ended at their deadline
        let t0 = Instant::now();
        let mut cur = self.scrape().await;
        loop {
            tokio::time::sleep(Duration::from_millis(60)).await;
            let c = self.scrape().await;
            if c == cur || t0.elapsed() > Duration::from_secs(4) {
                break;
            }
            cur = c;
        }
        if let Some(c) = cur {
            let d_denied = c[5] - c0[5];
            // (denials told since then: the calls of the batch that were answered in time, and the probes afterwards)
            let told_all = self.cnt.denied - denied0;
            let extra = d_denied.saturating_sub(told_all);
            out.add("obs_grpc_volume_expired_calls_counted_nevertheless", extra);
            let ident = c[0] == c[1] + c[2] + c[3] && c[0] == c[4] + c[5] + c[6];
            if !ident || d_denied < told_all || d_denied > told_all + expired || (deep && extra != 0) {
                self.viol(
                    out,
                    "C15",
                    format!(
                        "{n} calls with a grpc-timeout of 5..10 ms on an exhausted key: {told_denied} were answered (denied), {expired} ended DEADLINE_EXCEEDED / CANCELLED; with the probes afterwards {told_all} denials were told in all; requests_denied moved by {d_denied}{} (total {} http {} grpc {} redis {} allowed {} denied {} errors {}){}",
                        if deep { format!(" - a call queued in front of all of them was answered {fence_ms} ms later, after every deadline had passed, so no expired call can have been recorded: want exactly {told_all}") } else { format!(", want {told_all}..{}", told_all + expired) },
                        c[0], c[1], c[2], c[3], c[4], c[5], c[6],
                        if ident { "" } else { " - identities broken" }
                    ),
                    from,
                );
            }
            // expired calls that were recorded nevertheless (possible only when the queue was not deep): the running tally follows
            self.cnt.grpc += extra;
            self.cnt.denied += extra;
            // (the denied-keys report of `binary` counts what the server recorded)
            for _ in 0..extra {
                self.denials.push(kd.clone());
            }
        }
    }

    // ------------------------------------------------------------------ the drain
    /// every key of the phase once more, by the simple clients (HTTP `Connection: close`, a new gRPC channel, a new
    /// RESP connection) in rotation: what is left of its budget is what the model says
    pub async fn drain(&mut self, out: &mut Out) {
        let from = self.log.len();
        let keys: Vec<String> = self.model.keys.keys().cloned().collect();
        self.log.push(format!("drain: every one of the {} keys of the phase is asked once more by a simple client", keys.len()));
        let start = self.rng.below(3) as usize;
        for (i, key) in keys.iter().enumerate() {
            let proto = [Proto::Http, Proto::Grpc, Proto::Resp][(start + i) % 3];
            let l = self.logical(key, Some(1));
            let (ans, status) = match proto {
                Proto::Http => http_throttle(self.ports.http, &json_body(&mut self.rng, &l)).await,
                Proto::Grpc => (grpc_call(self.ports.grpc, &l).await, 0),
                Proto::Resp => match RespConn::open(self.ports.resp).await {
                    Ok(mut c) => (resp_answer(c.call(&resp_command(&mut self.rng, &l)).await), 0),
                    Err(e) => (WireAns::Broken(e), 0),
                },
            };
            self.log.push(format!("drain: key {} (burst {}, {} admitted in this phase) over {proto:?} -> {}", show_key(key), l.b, self.model.keys[key].used, ans.show()));
            out.bump("feature_drain_requests");
            let what = format!("at the end of the protocol-features phase, one more unit request on key {} by a simple {proto:?} client", show_key(key));
            self.judge(out, from, "C09", proto, Want::Decision, &l, &ans, status, &what, None);
        }
    }

    // ------------------------------------------------------------------ the whole phase
    /// `scale` >= 1: number of RESP commands on the long connection = 150 x scale + 0..100
    pub async fn run_all(&mut self, out: &mut Out, scale: usize) {
        self.start().await;
        // three keys shared by the sequential scenarios of ALL protocols (bursts of their own)
        self.int_key = format!("{}{:05}", 4_200_000 + self.round, self.rng.below(100_000));
        self.adopt_key(self.int_key.clone(), 1);
        let mut shared = vec![];
        for j in 0..3 {
            let b = 60 + 20 * j + self.rng.range(0, 15);
            shared.push(self.new_key("sh", b));
        }
        let t0 = Instant::now();
        let from = self.log.len();
        self.http_keepalive(out, &shared).await;
        self.http_pipeline(out, &shared).await;
        self.http_specials(out, &shared).await;
        self.check_counters(out, "after the HTTP part (keep-alive, pipelining, chunked, Expect, HTTP/1.0, JSON spellings)", from).await;
        out.add("ms_features_http", t0.elapsed().as_millis() as u64);
        let t1 = Instant::now();
        let from = self.log.len();
        self.grpc_sequential(out, &shared).await;
        self.grpc_multiplex(out).await;
        self.check_counters(out, "after the gRPC part without deadlines (50 sequential RPCs on one channel, concurrent RPCs on one channel)", from).await;
        self.grpc_deadlines(out).await;
        self.check_counters(out, "after RPCs with a grpc-timeout and cancelled RPCs (each counted completely or not at all)", from).await;
        if self.heavy {
            let t = Instant::now();
            self.grpc_deadline_volume(out).await;
            self.check_counters(out, "after the gRPC deadlines at volume", from).await;
            out.add("ms_features_grpc_volume", t.elapsed().as_millis() as u64);
        }
        out.add("ms_features_grpc", t1.elapsed().as_millis() as u64);
        let t2 = Instant::now();
        let from = self.log.len();
        let ncmd = 150 * scale.clamp(1, 3) + self.rng.below(100) as usize;
        self.resp_long_connection(out, &shared, ncmd).await;
        self.resp_two_connections(out).await;
        self.resp_pipeline(out, &shared).await;
        for k in 0..2 {
            let n = [150usize, 400, 4000][(self.round + k) % 3];
            self.resp_uniform_pipeline(out, n).await;
        }
        self.check_counters(out, "after the RESP part (long connection with error replies, two connections on one key, long pipeline)", from).await;
        out.add("ms_features_resp", t2.elapsed().as_millis() as u64);
        let from = self.log.len();
        let t3 = Instant::now();
        self.drain(out).await;
        out.add("ms_features_drain", t3.elapsed().as_millis() as u64);
        self.check_counters(out, "at the end of the protocol-features phase", from).await;
        out.add("ms_features", t0.elapsed().as_millis() as u64);
        out.bump("feature_phases");
    }
}
