// tcv-server: correspondence (leg M) case generation + implementation-side oracles (leg O)
// for the server properties C09-C16 on the REAL code of throttlecrab-server.
//
//   tcv-server <mode> --seed S --n N --out DIR        generate / execute / judge
//   tcv-server replay --file F                         re-execute a replay file
//
// modes: resp cmd conn actor metrics wire binary
//
// Writes DIR/<mode>.ops (driver request lines), DIR/<mode>.imp (what the real code
// answered), DIR/<mode>.viol (violations of the property on the real code, with replays),
// DIR/<mode>.stats.json.
#![allow(dead_code)] // util.rs is a verbatim copy of tcv-core's
mod actor;
mod binary;
mod cmd;
mod conn;
mod metrics;
mod net;
mod replay;
mod resp;
mod slow;
mod util;
mod val;
mod wire;
mod feat;

use std::io::Write;
use util::{json_escape, Out};

fn main() {
    // keep panics of the code under test quiet: they are caught and reported as outcomes
    // (TCV_DEBUG=1 shows them, e.g. to debug the harness itself)
    if std::env::var("TCV_DEBUG").is_err() {
        std::panic::set_hook(Box::new(|_| {}));
    }
    let args: Vec<String> = std::env::args().collect();
    if args.len() < 2 {
        eprintln!("usage: tcv-server <mode> [--seed S] [--n N] [--out DIR] [--file F]");
        std::process::exit(2);
    }
    let mode = args[1].clone();
    let mut seed: u64 = std::env::var("VERIF_SEED").ok().and_then(|s| s.parse().ok()).unwrap_or(1);
    let mut n: usize = 100;
    let mut outdir = String::from(".");
    let mut file = String::new();
    let mut i = 2;
    while i < args.len() {
        match args[i].as_str() {
            "--seed" => {
                seed = args[i + 1].parse().unwrap();
                i += 1;
            }
            "--n" => {
                n = args[i + 1].parse().unwrap();
                i += 1;
            }
            "--out" => {
                outdir = args[i + 1].clone();
                i += 1;
            }
            "--file" => {
                file = args[i + 1].clone();
                i += 1;
            }
            _ => {}
        }
        i += 1;
    }
    let mut out = Out::default();
    match mode.as_str() {
        "resp" => resp::run(seed, n, &mut out),
        "cmd" => cmd::run(seed, n, &mut out),
        "conn" => conn::run(seed, n, &mut out),
        "actor" => actor::run(seed, n, &mut out),
        "metrics" => metrics::run(seed, n, &mut out),
        "wire" => wire::run(seed, n, &mut out),
        "binary" => binary::run(seed, n, &mut out),
        "replay" => {
            replay::run(&file);
            return;
        }
        _ => {
            eprintln!("unknown mode {mode}");
            std::process::exit(2);
        }
    }
    std::fs::create_dir_all(&outdir).unwrap();
    let w = |name: &str, lines: &[String]| {
        let mut f = std::io::BufWriter::new(std::fs::File::create(format!("{outdir}/{mode}.{name}")).unwrap());
        for l in lines {
            f.write_all(l.as_bytes()).unwrap();
            f.write_all(b"\n").unwrap();
        }
    };
    w("ops", &out.ops);
    w("imp", &out.imp);
    let mut v = vec![];
    for (p, what, replay) in &out.viol {
        v.push(format!("VIOL {p} {what}"));
        for l in replay {
            v.push(format!("  {l}"));
        }
        v.push("END".into());
    }
    w("viol", &v);
    let mut s = String::from("{");
    s.push_str(&format!("\"mode\":\"{mode}\",\"seed\":{seed},\"n\":{n},\"lines\":{},\"distinct\":{},", out.ops.len(), out.distinct.len()));
    s.push_str("\"stats\":{");
    s.push_str(&out.stats.iter().map(|(k, v)| format!("\"{}\":{}", json_escape(k), v)).collect::<Vec<_>>().join(","));
    s.push_str("},\"samples\":[");
    s.push_str(&out.samples.iter().map(|x| format!("\"{}\"", json_escape(x))).collect::<Vec<_>>().join(","));
    s.push_str("]}");
    std::fs::write(format!("{outdir}/{mode}.stats.json"), s).unwrap();
    for (p, what, _) in &out.viol {
        println!("impl-violation {p}: {what}");
    }
    // the in-process servers of `conn` / `wire` keep accept loops alive: leave without joining them
    std::process::exit(0);
}
