// Hostile CONNECTION behaviour shared by the modes `wire` and `binary`: abort storms (connect, then RST at once -
// C11) and abandoned requests (a complete request, then close / RST without reading the answer - C15).
use crate::util::Rng;
use std::io::Write;
use std::net::{SocketAddr, TcpStream};
use std::time::Duration;

#[derive(Default, Debug, Clone)]
pub struct StormStats {
    pub attempted: u64,
    pub connected: u64,
    pub with_data: u64,
}

/// SO_LINGER 0: closing the socket sends RST instead of FIN
pub fn set_abort_on_close<S: std::os::fd::AsFd>(s: &S) {
    let _ = socket2::SockRef::from(s).set_linger(Some(Duration::ZERO));
}

/// `total` connections to `port`, from `threads` OS threads at once, each aborted (RST) immediately after connect -
/// so that the reset reaches the server while the connection still sits in the accept queue - some after writing an
/// INCOMPLETE request (`partials`: data the server has not read yet is pending when the RST arrives; nothing of it
/// can count as a request), some in groups of 4..12 (at most ~100 pending at once, below the smallest listen backlog of 128) that are opened first and then aborted together (a backlog of dead
/// connections).  Blocking.
pub fn abort_storm(port: u16, total: usize, threads: usize, partials: &[Vec<u8>], seed: u64) -> StormStats {
    let addr: SocketAddr = format!("127.0.0.1:{port}").parse().unwrap();
    let per = total.div_ceil(threads.max(1));
    let hs: Vec<_> = (0..threads)
        .map(|t| {
            let partials = partials.to_vec();
            std::thread::spawn(move || {
                let mut rng = Rng::new(seed ^ (t as u64 + 1).wrapping_mul(0x9E37_79B9));
                let mut st = StormStats::default();
                let mut left = per;
                while left > 0 {
                    let group = if rng.chance(1, 5) { (rng.range(4, 12) as usize).min(left) } else { 1 };
                    let mut socks = vec![];
                    for _ in 0..group {
                        st.attempted += 1;
                        if let Ok(mut s) = TcpStream::connect_timeout(&addr, Duration::from_secs(2)) {
                            st.connected += 1;
                            if !partials.is_empty() && rng.chance(1, 3) {
                                let _ = s.write_all(&partials[rng.below(partials.len() as u64) as usize]);
                                st.with_data += 1;
                            }
                            set_abort_on_close(&s);
                            socks.push(s);
                        }
                    }
                    drop(socks); // RST, all of the group at once
                    left -= group;
                }
                st
            })
        })
        .collect();
    let mut all = StormStats::default();
    for h in hs {
        if let Ok(s) = h.join() {
            all.attempted += s.attempted;
            all.connected += s.connected;
            all.with_data += s.with_data;
        }
    }
    all
}

/// incomplete requests for the three ports (never a complete request: nothing here may be counted)
pub fn partial_requests(proto: &str) -> Vec<Vec<u8>> {
    match proto {
        "http" => vec![
            b"POST /throttle HTTP/1.1\r\nHost: x\r\nContent-Type: application/json\r\nContent-Length: 200\r\n\r\n{\"key\":\"abort".to_vec(),
            b"POST /thr".to_vec(),
            b"GET /metr".to_vec(),
        ],
        "grpc" => vec![b"PRI * HTTP/2.0\r\n\r\nSM\r\n\r\n".to_vec(), b"PRI * HT".to_vec(), b"PRI * HTTP/2.0\r\n\r\nSM\r\n\r\n\x00\x00\x12\x04\x00\x00".to_vec()],
        _ => vec![b"*5\r\n$8\r\nTHROTTLE\r\n$5\r\nabort\r\n$1\r\n".to_vec(), b"*2\r\n$4\r\nPING\r\n$100\r\nxx".to_vec(), b"*1".to_vec()],
    }
}

/// a COMPLETE request, then the connection is closed (FIN) or aborted (RST) at once, the answer never read
pub async fn abandon(port: u16, request: Vec<u8>, rst: bool, linger_us: u64) -> bool {
    use tokio::io::AsyncWriteExt;
    let Ok(Ok(mut s)) = tokio::time::timeout(Duration::from_secs(2), tokio::net::TcpStream::connect(("127.0.0.1", port))).await else {
        return false;
    };
    let _ = s.set_nodelay(true);
    if s.write_all(&request).await.is_err() {
        return false;
    }
    if linger_us > 0 {
        tokio::time::sleep(Duration::from_micros(linger_us)).await;
    }
    if rst {
        set_abort_on_close(&s);
    }
    drop(s);
    true
}

/// STALLED clients: connections that sent the beginning of a request - enough for the server to have started working
/// on it - and then go quiet while staying open: a complete HTTP head with Content-Length and half of the body, a
/// RESP array header and half of a bulk string, an HTTP/2 preface with SETTINGS and a partial HEADERS frame.
/// Nothing here is a complete request: none of it may ever be counted or answered.
pub struct Stalled {
    socks: Vec<tokio::net::TcpStream>,
    /// connections open per port (http, grpc, resp)
    pub open: [usize; 3],
}

pub fn stalled_request(proto: &str, i: usize) -> Vec<u8> {
    match proto {
        "http" => {
            let half = format!("{{\"key\":\"stalled-{i}\",\"max_burst\":5,");
            format!("POST /throttle HTTP/1.1\r\nHost: x\r\nContent-Type: application/json\r\nContent-Length: {}\r\n\r\n{half}", half.len() * 2).into_bytes()
        }
        "grpc" => {
            let mut v = b"PRI * HTTP/2.0\r\n\r\nSM\r\n\r\n".to_vec();
            // an empty SETTINGS frame, then the 9-byte header of a HEADERS frame (stream 1) that promises 64 bytes, and 10 of them
            v.extend_from_slice(&[0, 0, 0, 4, 0, 0, 0, 0, 0]);
            v.extend_from_slice(&[0, 0, 64, 1, 4, 0, 0, 0, 1]);
            v.extend_from_slice(&[0x83, 0x86, 0x44, 0x20, 0x62, 0x31, 0x62, 0x31, 0x62, 0x31]);
            v
        }
        _ => format!("*5\r\n$8\r\nTHROTTLE\r\n$40\r\nstalled-{i}-half-of-").into_bytes(),
    }
}

/// `per_port` stalled connections on each of the three ports (opened one after the other per port, 32 at a time, the
/// three ports in parallel; a connection that cannot be opened within 3 s is left out)
pub async fn open_stalled(http: u16, grpc: u16, resp: u16, per_port: usize) -> Stalled {
    use tokio::io::AsyncWriteExt;
    let mut tasks = vec![];
    for (name, port) in [("http", http), ("grpc", grpc), ("resp", resp)] {
        tasks.push(tokio::spawn(async move {
            let t0 = std::time::Instant::now();
            let mut socks = vec![];
            for i in 0..per_port {
                let Ok(Ok(mut s)) = tokio::time::timeout(Duration::from_secs(3), tokio::net::TcpStream::connect(("127.0.0.1", port))).await else {
                    continue;
                };
                let _ = s.set_nodelay(true);
                if s.write_all(&stalled_request(name, i)).await.is_ok() {
                    socks.push(s);
                }
                // (paced: never more connections waiting to be accepted than the smallest listen backlog, 128, holds -
                // a SYN that finds the queue full is only retransmitted a second later)
                if i % 32 == 31 {
                    tokio::time::sleep(Duration::from_millis(2)).await;
                }
            }
            if std::env::var("TCV_DEBUG").is_ok() {
                eprintln!("stalled {name}: {} open in {:?}", socks.len(), t0.elapsed());
            }
            socks
        }));
    }
    let mut st = Stalled { socks: vec![], open: [0; 3] };
    for (i, t) in tasks.into_iter().enumerate() {
        if let Ok(v) = t.await {
            st.open[i] = v.len();
            st.socks.extend(v);
        }
    }
    st
}

impl Stalled {
    /// how many of them the server has closed on its own meanwhile (not an oracle: a server may shed idle clients)
    pub fn closed_by_server(&self) -> usize {
        let mut b = [0u8; 1];
        self.socks.iter().filter(|s| matches!(s.try_read(&mut b), Ok(0))).count()
    }
    /// close them all: every other one with RST
    pub fn close(self) {
        for (i, s) in self.socks.into_iter().enumerate() {
            if i % 2 == 1 {
                set_abort_on_close(&s);
            }
            drop(s);
        }
    }
}
