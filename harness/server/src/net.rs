// Hostile CONNECTION behaviour shared by the modes `wire` and `binary`: abort storms (connect, then RST at once -
// C11) and abandoned requests (a complete request, then close / RST without reading the answer - C15).
use crate::util::Rng;
use std::io::Write;
use std::net::{SocketAddr, TcpStream};
use std::time::Duration;

#[derive(Default, Debug, Clone)]
pub struct StormStats {
    pub attempted: u64,
    pub connected: u64,
    pub with_data: u64,
}

/// SO_LINGER 0: closing the socket sends RST instead of FIN
pub fn set_abort_on_close<S: std::os::fd::AsFd>(s: &S) {
    let _ = socket2::SockRef::from(s).set_linger(Some(Duration::ZERO));
}

/// `total` connections to `port`, from `threads` OS threads at once, each aborted (RST) immediately after connect -
/// so that the reset reaches the server while the connection still sits in the accept queue - some after writing an
/// INCOMPLETE request (`partials`: data the server has not read yet is pending when the RST arrives; nothing of it
/// can count as a request), some in groups of 4..12 (at most ~100 pending at once, below the smallest listen backlog of 128) that are opened first and then aborted together (a backlog of dead
/// connections).  Blocking.
pub fn abort_storm(port: u16, total: usize, threads: usize, partials: &[Vec<u8>], seed: u64) -> StormStats {
    let addr: SocketAddr = format!("127.0.0.1:{port}").parse().unwrap();
    let per = total.div_ceil(threads.max(1));
    let hs: Vec<_> = (0..threads)
        .map(|t| {
            let partials = partials.to_vec();
            std::thread::spawn(move || {
                let mut rng = Rng::new(seed ^ (t as u64 + 1).wrapping_mul(0x9E37_79B9));
                let mut st = StormStats::default();
                let mut left = per;
                while left > 0 {
                    let group = if rng.chance(1, 5) { (rng.range(4, 12) as usize).min(left) } else { 1 };
                    let mut socks = vec![];
                    for _ in 0..group {
                        st.attempted += 1;
                        if let Ok(mut s) = TcpStream::connect_timeout(&addr, Duration::from_secs(2)) {
                            st.connected += 1;
                            if !partials.is_empty() && rng.chance(1, 3) {
                                let _ = s.write_all(&partials[rng.below(partials.len() as u64) as usize]);
                                st.with_data += 1;
                            }
                            set_abort_on_close(&s);
                            socks.push(s);
                        }
                    }
                    drop(socks); // RST, all of the group at once
                    left -= group;
                }
                st
            })
        })
        .collect();
    let mut all = StormStats::default();
    for h in hs {
        if let Ok(s) = h.join() {
            all.attempted += s.attempted;
            all.connected += s.connected;
            all.with_data += s.with_data;
        }
    }
    all
}

/// incomplete requests for the three ports (never a complete request: nothing here may be counted)
pub fn partial_requests(proto: &str) -> Vec<Vec<u8>> {
    match proto {
        "http" => vec![
            b"POST /throttle HTTP/1.1\r\nHost: x\r\nContent-Type: application/json\r\nContent-Length: 200\r\n\r\n{\"key\":\"abort".to_vec(),
            b"POST /thr".to_vec(),
            b"GET /metr".to_vec(),
        ],
        "grpc" => vec![b"PRI * HTTP/2.0\r\n\r\nSM\r\n\r\n".to_vec(), b"PRI * HT".to_vec(), b"PRI * HTTP/2.0\r\n\r\nSM\r\n\r\n\x00\x00\x12\x04\x00\x00".to_vec()],
        _ => vec![b"*5\r\n$8\r\nTHROTTLE\r\n$5\r\nabort\r\n$1\r\n".to_vec(), b"*2\r\n$4\r\nPING\r\n$100\r\nxx".to_vec(), b"*1".to_vec()],
    }
}

/// a COMPLETE request, then the connection is closed (FIN) or aborted (RST) at once, the answer never read
pub async fn abandon(port: u16, request: Vec<u8>, rst: bool, linger_us: u64) -> bool {
    use tokio::io::AsyncWriteExt;
    let Ok(Ok(mut s)) = tokio::time::timeout(Duration::from_secs(2), tokio::net::TcpStream::connect(("127.0.0.1", port))).await else {
        return false;
    };
    let _ = s.set_nodelay(true);
    if s.write_all(&request).await.is_err() {
        return false;
    }
    if linger_us > 0 {
        tokio::time::sleep(Duration::from_micros(linger_us)).await;
    }
    if rst {
        set_abort_on_close(&s);
    }
    drop(s);
    true
}
