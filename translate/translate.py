#!/usr/bin/env python3
"""Regenerates lean/TcVerif/Gen/Consts.lean from /repo's current sources (run on every check).

Only constants and small tables are translated; function bodies are hand-modelled and tied
to the code by the correspondence leg.  Theorems are stated with the property's own numbers,
so a changed constant makes a proof obligation (or the correspondence) fail instead of
silently re-proving a different claim.  A constant that can no longer be located is an error:
the tie between model and code is broken."""
import re, sys, os

REPO = os.environ.get("VERIF_REPO", "/repo")
OUT = os.path.join(os.path.dirname(os.path.dirname(os.path.abspath(__file__))), "lean", "TcVerif", "Gen", "Consts.lean")

def src(rel):
    return open(os.path.join(REPO, rel)).read()

def strip_comments(s):
    s = re.sub(r"//[^\n]*", "", s)
    return s

def num(expr):
    """evaluate a Rust integer constant expression such as `512 * 1024 * 1024` or `10_000`"""
    e = expr.replace("_", "").strip()
    if not re.fullmatch(r"[0-9 *+\-()/]+", e):
        raise ValueError(f"not a constant integer expression: {expr!r}")
    return int(eval(e.replace("/", "//")))

def const(text, name):
    m = re.search(r"const\s+" + name + r"\s*:\s*\w+\s*=\s*([^;]+);", text)
    if not m:
        raise KeyError(f"constant {name} not found")
    return m.group(1).strip()

def need(text, pattern, what):
    m = re.search(pattern, text)
    if not m:
        raise KeyError(f"pattern for {what} not found: {pattern}")
    return m

def main():
    items = []  # (name, value, comment)
    def add(name, value, comment):
        items.append((name, int(value), comment))

    rl = strip_comments(src("throttlecrab/src/core/rate_limiter.rs"))
    add("MAX_RETRIES", num(const(rl, "MAX_RETRIES")), "rate_limiter.rs retry limit")

    per = strip_comments(src("throttlecrab/src/core/store/periodic.rs"))
    add("PERIODIC_DEFAULT_INTERVAL_SECS", num(const(per, "DEFAULT_CLEANUP_INTERVAL_SECS")), "periodic.rs")

    ada = strip_comments(src("throttlecrab/src/core/store/adaptive_cleanup.rs"))
    add("ADAPTIVE_MIN_INTERVAL_SECS", num(const(ada, "MIN_CLEANUP_INTERVAL_SECS")), "adaptive_cleanup.rs")
    add("ADAPTIVE_MAX_INTERVAL_SECS", num(const(ada, "MAX_CLEANUP_INTERVAL_SECS")), "adaptive_cleanup.rs")
    add("ADAPTIVE_DEFAULT_INTERVAL_SECS", num(const(ada, "DEFAULT_CLEANUP_INTERVAL_SECS")), "adaptive_cleanup.rs")
    add("ADAPTIVE_MAX_OPS", num(const(ada, "MAX_OPERATIONS_BEFORE_CLEANUP")), "adaptive_cleanup.rs")
    thr = const(ada, "EXPIRED_RATIO_THRESHOLD")
    m = re.fullmatch(r"0\.(\d+)", thr)
    if not m:
        raise ValueError("EXPIRED_RATIO_THRESHOLD is not a decimal fraction")
    add("ADAPTIVE_RATIO_THRESHOLD_PERMILLE", int((m.group(1) + "000")[:3]), "adaptive_cleanup.rs EXPIRED_RATIO_THRESHOLD x 1000")
    add("ADAPTIVE_EXPIRED_MIN", num(need(ada, r"self\.expired_count\s*>\s*(\d+)", "expired_count floor").group(1)), "adaptive_cleanup.rs `expired_count > 50`")
    add("ADAPTIVE_PRODUCTIVE_DIV", num(need(ada, r"self\.last_cleanup_removed\s*>\s*self\.last_cleanup_total\s*/\s*(\d+)", "productive divisor").group(1)), "adaptive_cleanup.rs")

    pro = strip_comments(src("throttlecrab/src/core/store/probabilistic.rs"))
    add("PROB_DEFAULT_MODULO", num(const(pro, "PROBABILISTIC_CLEANUP_MODULO")), "probabilistic.rs")
    add("PROB_MULT", num(need(pro, r"operations_count\)?\s*(?:\.wrapping_mul\(|\*)\s*([0-9_]+)", "multiplier").group(1)), "probabilistic.rs hash multiplier")

    rate = strip_comments(src("throttlecrab/src/core/rate/mod.rs"))
    for fn, nm in (("per_second", "UNIT_SECOND"), ("per_minute", "UNIT_MINUTE"), ("per_hour", "UNIT_HOUR"), ("per_day", "UNIT_DAY")):
        m = need(rate, r"pub fn " + fn + r"\(n: u64\) -> Self \{\s*Rate \{\s*period: Duration::from_secs\((\d+)\) / n as u32", fn)
        add(nm + "_SECS", num(m.group(1)), f"rate/mod.rs {fn}")
    m = need(rate, r"period_seconds as f64 \* ([0-9_]+)\.0 / count as f64", "ns per second literal")
    add("NS_PER_SEC", num(m.group(1)), "rate/mod.rs from_count_and_period")

    resp = strip_comments(src("throttlecrab-server/src/transport/redis/resp.rs"))
    add("RESP_MAX_BULK", num(const(resp, "MAX_BULK_STRING_SIZE")), "resp.rs")
    add("RESP_MAX_ARRAY", num(const(resp, "MAX_ARRAY_SIZE")), "resp.rs")
    add("RESP_MAX_DEPTH", num(const(resp, "MAX_ARRAY_DEPTH")), "resp.rs")
    rmod = strip_comments(src("throttlecrab-server/src/transport/redis/mod.rs"))
    add("RESP_MAX_BUFFER", num(const(rmod, "MAX_BUFFER_SIZE")), "redis/mod.rs per-connection buffer cap")
    add("RESP_READ_CHUNK", num(need(rmod, r"vec!\[0;\s*(\d+)\]", "read chunk").group(1)), "redis/mod.rs read size")

    met = strip_comments(src("throttlecrab-server/src/metrics.rs"))
    add("METRICS_MAX_KEY_LENGTH", num(const(met, "MAX_KEY_LENGTH")), "metrics.rs")
    add("METRICS_MAX_DENIED_KEYS_LIMIT", num(const(met, "MAX_DENIED_KEYS_LIMIT")), "metrics.rs")
    add("METRICS_GROWTH_FACTOR", num(need(met, r"self\.counts\.len\(\)\s*>\s*self\.max_size\s*\*\s*(\d+)", "growth factor").group(1)), "metrics.rs `len > max_size * 3`")
    add("METRICS_DEFAULT_MAX_DENIED", num(need(met, r"max_denied_keys:\s*(\d+),", "default").group(1)), "metrics.rs MetricsBuilder::new")

    # metric increment table: which counters each record function bumps
    def fn_body(text, name):
        m = re.search(r"pub fn " + name + r"\b[^{]*\{", text)
        if not m:
            raise KeyError(name)
        i = m.end(); depth = 1
        while depth:
            c = text[i]
            depth += (c == "{") - (c == "}")
            i += 1
        return text[m.end():i - 1]
    counters = ["total_requests", "http_requests", "grpc_requests", "redis_requests", "requests_allowed", "requests_denied", "requests_errors"]
    def incs(body):
        return [c for c in counters for _ in re.findall(r"self\." + c + r"\.fetch_add\(1,", body)]
    rr = fn_body(met, "record_request")
    re_ = fn_body(met, "record_error")
    tbl = dict(record_request=sorted(incs(rr)), record_error=sorted(incs(re_)))

    # protobuf field numbers
    proto = src("throttlecrab-server/proto/throttlecrab.proto")
    def fields(msg):
        m = need(proto, r"message " + msg + r" \{([^}]*)\}", msg)
        return re.findall(r"(\w+)\s+(\w+)\s*=\s*(\d+);", re.sub(r"//[^\n]*", "", m.group(1)))
    preq, presp = fields("ThrottleRequest"), fields("ThrottleResponse")

    # ---- wire mappings (C12): which library field lands in which wire position ----------------
    types = strip_comments(src("throttlecrab-server/src/types.rs"))
    body = re.search(r"impl From<\(bool, RateLimitResult\)> for ThrottleResponse \{(.*?)\n\}\n", types, re.S).group(1)
    types_map = re.findall(r"^\s*(\w+)(?::\s*([^,\n]+))?,\s*$", re.search(r"ThrottleResponse \{(.*?)\}", body, re.S).group(1), re.M)
    types_map = [(a, (b or a).strip()) for a, b in types_map]
    grpc = strip_comments(src("throttlecrab-server/src/transport/grpc.rs"))
    gresp = re.search(r"let response = ThrottleResponse \{(.*?)\};", grpc, re.S)
    if not gresp:
        raise KeyError("grpc response literal")
    grpc_resp = [(a, b.strip()) for a, b in re.findall(r"^\s*(\w+):\s*([^,\n]+),\s*$", gresp.group(1), re.M)]
    greq = re.search(r"let actor_request = ActorRequest \{(.*?)\};", grpc, re.S)
    if not greq:
        raise KeyError("grpc request literal")
    grpc_req = [(a, (b or a).strip()) for a, b in re.findall(r"^\s*(\w+)(?::\s*([^,\n]+))?,\s*$", greq.group(1), re.M)]
    http = strip_comments(src("throttlecrab-server/src/transport/http.rs"))
    hreq = re.search(r"let internal_req = InternalRequest \{(.*?)\};", http, re.S)
    if not hreq:
        raise KeyError("http request literal")
    http_req = [(a, (b or a).strip()) for a, b in re.findall(r"^\s*(\w+)(?::\s*([^,\n]+))?,\s*$", hreq.group(1), re.M)]
    rreply = re.search(r"Ok\(response\) => \{\s*RespValue::Array\(vec!\[(.*?)\]\)", rmod, re.S)
    if not rreply:
        raise KeyError("resp reply literal")
    resp_reply = re.findall(r"response\.(\w+)", rreply.group(1))
    rargs = []
    for nm in ("max_burst", "count_per_period", "period"):
        m = need(rmod, r"let " + nm + r" = match parse_integer\(&args\[(\d+)\]\)", "RESP arg " + nm)
        rargs.append((nm, int(m.group(1))))
    m = need(rmod, r"let key = match &args\[(\d+)\]", "RESP key arg")
    rargs.insert(0, ("key", int(m.group(1))))
    m = re.search(r"let quantity = if args\.len\(\) == (\d+) \{\s*match parse_integer\(&args\[(\d+)\]\)(.*?)\} else \{\s*(\d+)\s*\};", rmod, re.S)
    if not m:
        raise KeyError("RESP quantity block")
    rargs.append(("quantity", int(m.group(2))))
    add("RESP_DEFAULT_QUANTITY", int(m.group(4)), "redis/mod.rs quantity when the 6th argument is omitted")
    add("RESP_THROTTLE_FULL_ARITY", int(m.group(1)), "redis/mod.rs args.len() with explicit quantity")
    m = re.search(r"args\.len\(\) < (\d+) \|\| args\.len\(\) > (\d+)", rmod) or re.search(r"!\((\d+)\.\.=(\d+)\)\.contains\(&args\.len\(\)\)", rmod)
    if not m:
        raise KeyError("RESP arity check")
    add("RESP_THROTTLE_MIN_ARGS", int(m.group(1)), "redis/mod.rs arity lower bound")
    add("RESP_THROTTLE_MAX_ARGS", int(m.group(2)), "redis/mod.rs arity upper bound")
    m = need(http, r"quantity:\s*req\.quantity\.unwrap_or\((\d+)\)", "HTTP default quantity")
    add("HTTP_DEFAULT_QUANTITY", int(m.group(1)), "http.rs quantity.unwrap_or")

    # ---- main.rs wiring (C09): one limiter, one handle cloned to every transport ----------------
    mainrs = strip_comments(src("throttlecrab-server/src/main.rs"))
    add("MAIN_CREATE_LIMITER_CALLS", len(re.findall(r"create_rate_limiter\s*\(", mainrs)), "main.rs: number of calls of store::create_rate_limiter")
    starts = re.findall(r"transport\.start\(\s*(\w+)\s*\)", mainrs)
    add("MAIN_TRANSPORT_STARTS", len(starts), "main.rs: number of transport.start(..) calls")
    handles = re.findall(r"let\s+limiter_handle\s*=\s*([^;]+);", mainrs)
    add("MAIN_HANDLES_CLONED_FROM_LIMITER", sum(1 for h in handles if h.strip() == "limiter.clone()"), "main.rs: transport handles that are `limiter.clone()`")
    add("MAIN_METRICS_BUILDS", len(re.findall(r"Metrics::builder\(\)", mainrs)), "main.rs: number of Metrics instances built")
    storers = strip_comments(src("throttlecrab-server/src/store.rs"))
    add("STORE_SPAWN_CALLS", len(re.findall(r"RateLimiterActor::spawn_\w+\(", storers)), "store.rs: actor spawns (one per store kind branch)")

    # ---- which metric call each transport makes in which arm (C15) -------------------------------
    def metric_calls(text, what):
        m = re.search(r"match\s+(?:state|self)\.limiter\.throttle\([^)]*\)\.await\s*\{", text)
        if not m:
            raise KeyError("limiter.throttle match in " + what)
        i = m.end(); depth = 1
        while depth:
            ch = text[i]
            depth += (ch == "{") - (ch == "}")
            i += 1
        body = text[m.end():i - 1]
        arms = re.split(r"\n\s*Err\(", body, maxsplit=1)
        if len(arms) != 2:
            raise KeyError("Ok/Err arms in " + what)
        def calls(t):
            def norm(c):
                c = re.sub(r"\s+", " ", c.strip())
                c = re.sub(r"\(\s+", "(", c)
                c = re.sub(r",?\s*\)$", ")", c)
                return c
            return [norm(c) for c in re.findall(r"metrics\s*\.\s*(record_\w+\([^;]*?\));", t, re.S)]
        return [("ok", c) for c in calls(arms[0])] + [("err", c) for c in calls(arms[1])]
    http_calls = metric_calls(http, "http.rs")
    grpc_calls = metric_calls(grpc, "grpc.rs")
    resp_calls = [re.sub(r"\s+", " ", c.strip()) for c in re.findall(r"metrics\.(record_\w+\([^;]*?\));", rmod, re.S)]

    def pairs(name, doc, xs):
        # a struct literal's field order is irrelevant in Rust: sort by field; collapse whitespace in expressions
        xs = sorted((a, re.sub(r"\s+", " ", b).strip()) for a, b in xs)
        return [f"/-- {doc} -/", f"def {name} : List (String × String) := [" + ", ".join(f'("{a}", "{b}")' for a, b in xs) + "]"]

    lines = ["/- GENERATED by verif/translate/translate.py from /repo's sources on every run. Do not edit. -/",
             "namespace TcVerif.Gen", ""]
    for n, v, c in items:
        lines.append(f"/-- {c} -/")
        lines.append(f"def {n} : Nat := {v}")
    lines.append("")
    lines.append("/-- counters bumped (one `fetch_add(1)` each) by `Metrics::record_request` (both outcomes listed) -/")
    lines.append("def RECORD_REQUEST_INCS : List String := [" + ", ".join(f'"{c}"' for c in tbl["record_request"]) + "]")
    lines.append("/-- counters bumped by `Metrics::record_error` (all transports listed) -/")
    lines.append("def RECORD_ERROR_INCS : List String := [" + ", ".join(f'"{c}"' for c in tbl["record_error"]) + "]")
    lines.append("/-- (type, name, number) of throttlecrab.proto ThrottleRequest -/")
    lines.append("def PROTO_REQUEST : List (String × String × Nat) := [" + ", ".join(f'("{t}", "{n}", {k})' for t, n, k in preq) + "]")
    lines.append("/-- (type, name, number) of throttlecrab.proto ThrottleResponse -/")
    lines.append("def PROTO_RESPONSE : List (String × String × Nat) := [" + ", ".join(f'("{t}", "{n}", {k})' for t, n, k in presp) + "]")
    lines += pairs("TYPES_RESPONSE_MAP", "types.rs `From<(bool, RateLimitResult)> for ThrottleResponse`: (wire field, source expression)", types_map)
    lines += pairs("GRPC_RESPONSE_MAP", "grpc.rs response literal: (proto field, source expression)", grpc_resp)
    lines += pairs("GRPC_REQUEST_MAP", "grpc.rs ActorRequest literal: (request field, source expression)", grpc_req)
    lines += pairs("HTTP_REQUEST_MAP", "http.rs InternalRequest literal: (request field, source expression)", http_req)
    lines += pairs("HTTP_METRIC_CALLS", "http.rs handle_throttle: (arm of the limiter result, metrics call)", http_calls)
    lines += pairs("GRPC_METRIC_CALLS", "grpc.rs throttle: (arm of the limiter result, metrics call)", grpc_calls)
    lines.append("/-- redis/mod.rs: every metrics call of the RESP command handler, in source order -/")
    lines.append("def RESP_METRIC_CALLS : List String := [" + ", ".join('"' + c.replace('"', "'") + '"' for c in resp_calls) + "]")
    lines.append("/-- redis/mod.rs: the response fields in the order of the 5-integer reply array -/")
    lines.append("def RESP_REPLY_FIELDS : List String := [" + ", ".join(f'"{x}"' for x in resp_reply) + "]")
    lines.append("/-- redis/mod.rs: which command-array index feeds which request field -/")
    lines.append("def RESP_ARG_INDEX : List (String × Nat) := [" + ", ".join(f'("{a}", {b})' for a, b in rargs) + "]")
    lines += ["", "end TcVerif.Gen", ""]
    text = "\n".join(lines)
    os.makedirs(os.path.dirname(OUT), exist_ok=True)
    old = open(OUT).read() if os.path.exists(OUT) else None
    if old != text:
        with open(OUT, "w") as f:
            f.write(text)
        print("regenerated", OUT)

if __name__ == "__main__":
    try:
        main()
    except Exception as e:
        print(f"translate: {type(e).__name__}: {e}")
        sys.exit(1)
