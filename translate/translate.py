#!/usr/bin/env python3
"""Regenerates lean/TcVerif/Gen/Consts.lean from /repo's current sources (run on every check).

Only constants and small tables are translated; function bodies are hand-modelled and tied to the
code by the correspondence leg.  Theorems are stated with the property's own numbers, so a CHANGED
constant or table makes a proof obligation (or the correspondence) fail instead of silently
re-proving a different claim.

Every item is extracted on its own.  Three outcomes per item:
  located          the expected declaration / code shape was found; its CURRENT content is emitted
                   (if it differs from what the theorems expect, a `decide` tie theorem fails);
  located-by-value a named constant is gone but some `const` of the same crate has the expected
                   value (a rename or a move): the value is emitted;
  not-located      the code was restructured beyond what the patterns recognise.  The last known
                   content (translate/baseline.json, committed) is emitted so that the model still
                   builds, and the item is listed in work/translator_status.json: for this run the
                   tie of that item rests on the correspondence legs alone (the checks print a NOTE).
A restructuring is not evidence of a behaviour change, a different content is."""
import re, sys, os, json, glob

ROOT = os.path.dirname(os.path.dirname(os.path.abspath(__file__)))
REPO = os.environ.get("VERIF_REPO", "/repo")
OUT = os.path.join(os.environ.get("VERIF_LEAN_DIR", os.path.join(ROOT, "lean")), "TcVerif", "Gen", "Consts.lean")
BASELINE = os.path.join(ROOT, "translate", "baseline.json")
STATUS = os.environ.get("VERIF_TRANSLATOR_STATUS", os.path.join(ROOT, "work", "translator_status.json"))

class NotLocated(Exception):
    pass

_src_cache = {}
def src(rel):
    if rel not in _src_cache:
        try:
            _src_cache[rel] = open(os.path.join(REPO, rel)).read()
        except OSError as e:
            raise NotLocated(f"source file {rel} not readable ({e.__class__.__name__})")
    return _src_cache[rel]

def strip_comments(s):
    return re.sub(r"//[^\n]*", "", s)

def code(rel):
    return strip_comments(src(rel))

def num(expr):
    """evaluate a Rust integer constant expression such as `512 * 1024 * 1024` or `10_000`"""
    e = expr.replace("_", "").strip()
    if not re.fullmatch(r"[0-9 *+\-()/]+", e):
        raise NotLocated(f"not a constant integer expression: {expr!r}")
    return int(eval(e.replace("/", "//")))

def const(text, name):
    m = re.search(r"const\s+" + name + r"\s*:\s*\w+\s*=\s*([^;]+);", text)
    if not m:
        raise NotLocated(f"constant {name} not found")
    return m.group(1).strip()

def need(text, pattern, what):
    m = re.search(pattern, text, re.S)
    if not m:
        raise NotLocated(f"code shape for {what} not found")
    return m

def crate_consts(crate):
    """every `const NAME: T = <integer expression>;` of a crate's src tree -> {value: [names]}"""
    out = {}
    for f in glob.glob(os.path.join(REPO, crate, "src", "**", "*.rs"), recursive=True):
        try:
            t = strip_comments(open(f).read())
        except OSError:
            continue
        for nm, ex in re.findall(r"const\s+(\w+)\s*:\s*\w+\s*=\s*([^;]+);", t):
            try:
                out.setdefault(num(ex), []).append(nm)
            except NotLocated:
                pass
    return out

def fn_body(text, name):
    m = re.search(r"pub fn " + name + r"\b[^{]*\{", text)
    if not m:
        raise NotLocated(f"fn {name} not found")
    i = m.end(); depth = 1
    while depth:
        if i >= len(text):
            raise NotLocated(f"fn {name}: unbalanced braces")
        c = text[i]
        depth += (c == "{") - (c == "}")
        i += 1
    return text[m.end():i - 1]

RECEIVERS = r"(?:req|request|result|response|resp|res|r|self|state)"

def file_consts(text):
    out = {}
    for nm, ex in re.findall(r"const\s+(\w+)\s*:\s*\w+\s*=\s*([^;]+);", text):
        try:
            out[nm] = num(ex)
        except NotLocated:
            pass
    return out

def norm_expr(e, text=""):
    """a canonical form of a field initialiser that is insensitive to how the value is spelled, not to
    WHICH value it is: whitespace; `i64::from(x)` = `x as i64`; a leading `&`; the receiver the field
    is read from (`req.max_burst` = `max_burst` after destructuring); `.clone()`; an UPPER_CASE
    constant of the same file is replaced by its value; a local bound by `let x = <expr>;` to a call
    without arguments (`SystemTime::now()`) is replaced by that call"""
    e = re.sub(r"\s+", " ", e).strip()
    e = re.sub(r"\b(i64|i32|u64)::from\(([^()]+)\)", r"\2 as \1", e)
    e = re.sub(r"^&\s*", "", e)
    e = re.sub(r"\b" + RECEIVERS + r"\.(?=[a-z_])", "", e)
    e = re.sub(r"\.clone\(\)", "", e)
    if text:
        # a private one-expression helper is inlined: `fn whole_seconds(d: Duration) -> i64 { d.as_secs() as i64 }`
        # makes `whole_seconds(reset_after)` the same initialiser as `reset_after.as_secs() as i64`
        for _ in range(3):
            changed = False
            for m in re.finditer(r"\b([a-z_][a-z0-9_]*)\(([^()]*)\)", e):
                fn, arg = m.group(1), m.group(2).strip()
                d = re.search(r"fn\s+" + fn + r"\s*\(\s*(\w+)\s*:\s*[^)]*\)\s*->\s*[\w:<>]+\s*\{\s*([^{};]+?)\s*\}", text)
                if d and arg and "," not in arg:
                    body = re.sub(r"\b" + d.group(1) + r"\b", arg, re.sub(r"\s+", " ", d.group(2)))
                    e = e[:m.start()] + body + e[m.end():]
                    changed = True
                    break
            if not changed:
                break
        e = re.sub(r"^&\s*", "", e)
        e = re.sub(r"\b" + RECEIVERS + r"\.(?=[a-z_])", "", e)
        consts = file_consts(text)
        e = re.sub(r"\b[A-Z][A-Z0-9_]+\b", lambda m: str(consts[m.group(0)]) if m.group(0) in consts else m.group(0), e)
        if re.fullmatch(r"[a-z_]+", e):
            m = re.search(r"let\s+" + e + r"\s*=\s*([A-Za-z_:]+\(\))\s*;", text)
            if m:
                e = m.group(1)
    return e

def call_sites(text, fn_prefix="record_"):
    """every `metrics.record_xxx(args)` call with balanced parentheses, arguments normalised"""
    out = []
    for m in re.finditer(r"metrics\s*\.\s*(" + fn_prefix + r"\w+)\(", text):
        i = m.end(); depth = 1
        while depth:
            if i >= len(text):
                raise NotLocated("unbalanced parentheses in a metrics call")
            depth += (text[i] == "(") - (text[i] == ")")
            i += 1
        args = text[m.end():i - 1]
        parts, d, cur = [], 0, ""
        for ch in args:
            if ch == "," and d == 0:
                parts.append(cur); cur = ""
            else:
                d += (ch in "([{") - (ch in ")]}")
                cur += ch
        if cur.strip():
            parts.append(cur)
        parts = [re.sub(r"^MetricsTransport::", "", norm_expr(a, text)) for a in parts]
        out.append((m.start(), f"{m.group(1)}({', '.join(parts)})"))
    return out

# ------------------------------------------------------------------------------------------------
# items: (name, kind, doc, crate-for-value-search or None, extractor)
#   kind "nat": extractor returns int; "strs": list[str]; "pairs": list[(str,str)];
#   "proto": list[(type,name,number)]; "idx": list[(str,int)]
# ------------------------------------------------------------------------------------------------
LIB, SRV = "throttlecrab", "throttlecrab-server"
RL = "throttlecrab/src/core/rate_limiter.rs"
ADA = "throttlecrab/src/core/store/adaptive_cleanup.rs"
PRO = "throttlecrab/src/core/store/probabilistic.rs"
RATE = "throttlecrab/src/core/rate/mod.rs"
RESP = "throttlecrab-server/src/transport/redis/resp.rs"
RMOD = "throttlecrab-server/src/transport/redis/mod.rs"
MET = "throttlecrab-server/src/metrics.rs"
HTTP = "throttlecrab-server/src/transport/http.rs"
GRPC = "throttlecrab-server/src/transport/grpc.rs"
TYPES = "throttlecrab-server/src/types.rs"
MAINRS = "throttlecrab-server/src/main.rs"
STORERS = "throttlecrab-server/src/store.rs"
PROTO = "throttlecrab-server/proto/throttlecrab.proto"

def ratio_permille():
    thr = const(code(ADA), "EXPIRED_RATIO_THRESHOLD")
    m = re.fullmatch(r"0\.(\d+)", thr)
    if not m:
        raise NotLocated("EXPIRED_RATIO_THRESHOLD is not a decimal fraction")
    return int((m.group(1) + "000")[:3])

def unit(fn):
    def f():
        m = need(code(RATE), r"pub fn " + fn + r"\(n: u64\) -> Self \{\s*Rate \{\s*period: Duration::from_secs\((\d+)\) / n as u32", fn)
        return num(m.group(1))
    return f

COUNTERS = ["total_requests", "http_requests", "grpc_requests", "redis_requests", "requests_allowed", "requests_denied", "requests_errors"]
def incs(fn):
    def f():
        body = fn_body(code(MET), fn)
        got = sorted(c for c in COUNTERS for _ in re.findall(r"self\." + c + r"\.fetch_add\(1,", body))
        if not got or len(got) != len(re.findall(r"fetch_add\(", body)):
            # increments through a helper / another receiver: the table cannot be read off this body
            raise NotLocated(f"{fn}: not every increment is a direct `self.<counter>.fetch_add(1, ..)`")
        return got
    return f

def proto_fields(msg):
    def f():
        m = need(src(PROTO), r"message " + msg + r" \{([^}]*)\}", msg)
        return [(t, n, int(k)) for t, n, k in re.findall(r"(\w+)\s+(\w+)\s*=\s*(\d+);", re.sub(r"//[^\n]*", "", m.group(1)))]
    return f

def struct_literal(rel, pattern, what):
    def f():
        text = code(rel)
        m = need(text, pattern, what)
        xs = re.findall(r"^\s*(\w+)(?::\s*([^,\n]+))?,\s*$", m.group(1), re.M)
        if not xs:
            raise NotLocated(f"{what}: no fields")
        return sorted((a, norm_expr(b or a, text)) for a, b in xs)
    return f

def types_map():
    body = need(code(TYPES), r"impl From<\(bool, RateLimitResult\)> for ThrottleResponse \{(.*?)\n\}\n", "types.rs From impl").group(1)
    lit = need(body, r"ThrottleResponse \{(.*?)\}", "types.rs response literal").group(1)
    xs = re.findall(r"^\s*(\w+)(?::\s*([^,\n]+))?,\s*$", lit, re.M)
    if not xs:
        raise NotLocated("types.rs response literal: no fields")
    return sorted((a, norm_expr(b or a, code(TYPES))) for a, b in xs)

def resp_reply():
    m = need(code(RMOD), r"Ok\(response\) => \{\s*RespValue::Array\(vec!\[(.*?)\]\)", "RESP reply literal")
    xs = re.findall(r"response\.(\w+)", m.group(1))
    if not xs:
        raise NotLocated("RESP reply literal: no fields")
    return xs

def quantity_block():
    return need(code(RMOD), r"let quantity = if args\.len\(\) == (\d+) \{\s*match parse_integer\(&args\[(\d+)\]\)(.*?)\} else \{\s*(\d+)\s*\};", "RESP quantity block")

def resp_args():
    rmod = code(RMOD)
    out = [("key", int(need(rmod, r"let key = match &args\[(\d+)\]", "RESP key arg").group(1)))]
    for nm in ("max_burst", "count_per_period", "period"):
        out.append((nm, int(need(rmod, r"let " + nm + r" = match parse_integer\(&args\[(\d+)\]\)", "RESP arg " + nm).group(1))))
    out.append(("quantity", int(quantity_block().group(2))))
    return out

def arity(i):
    def f():
        rmod = code(RMOD)
        m = re.search(r"args\.len\(\) < (\d+) \|\| args\.len\(\) > (\d+)", rmod) or re.search(r"!\((\d+)\.\.=(\d+)\)\.contains\(&args\.len\(\)\)", rmod)
        if not m:
            raise NotLocated("RESP arity check not found")
        return int(m.group(i))
    return f

def count(rel, pattern, at_least_one=True):
    def f():
        n = len(re.findall(pattern, code(rel)))
        if n == 0 and at_least_one:
            raise NotLocated(f"no occurrence of /{pattern}/ in {rel}")
        return n
    return f

def main_wiring():
    """main.rs in the shape `let limiter_handle = <expr>; ... transport.start(limiter_handle)` once per transport;
    any other shape (a loop over a table of transports, a helper that starts them) is `not located`"""
    text = code(MAINRS)
    hs = re.findall(r"let\s+limiter_handle\s*=\s*([^;]+);", text)
    starts = re.findall(r"transport\.start\(\s*limiter_handle\s*\)", text)
    if not hs or len(hs) != len(starts):
        raise NotLocated(f"main.rs: {len(hs)} `let limiter_handle = ..` vs {len(starts)} `transport.start(limiter_handle)`")
    return len(starts), sum(1 for h in hs if h.strip() == "limiter.clone()")

def handles_cloned():
    return main_wiring()[1]

def transport_starts():
    return main_wiring()[0]

def metric_calls(rel):
    def f():
        text = code(rel)
        m = re.search(r"match\s+(?:state|self)\.limiter\.throttle\([^)]*\)\.await\s*\{", text)
        if not m:
            raise NotLocated("`match <x>.limiter.throttle(..).await {` not found in " + rel)
        i = m.end(); depth = 1
        while depth:
            if i >= len(text):
                raise NotLocated("unbalanced braces in " + rel)
            ch = text[i]
            depth += (ch == "{") - (ch == "}")
            i += 1
        body = text[m.end():i - 1]
        arms = re.split(r"\n\s*Err\(", body, maxsplit=1)
        if len(arms) != 2:
            raise NotLocated("Ok/Err arms in " + rel)
        def calls(t):
            return [c for _, c in call_sites(t)]
        got = [("ok", c) for c in calls(arms[0])] + [("err", c) for c in calls(arms[1])]
        if not got:
            raise NotLocated("no metrics.record_* call in the limiter-result match of " + rel)
        return sorted(got)
    return f

def resp_metric_calls():
    got = [c.replace('"', "'") for _, c in call_sites(code(RMOD))]
    if not got:
        raise NotLocated("no metrics.record_* call in redis/mod.rs")
    return got

ITEMS = [
    ("MAX_RETRIES", "nat", "rate_limiter.rs retry limit", LIB, lambda: num(const(code(RL), "MAX_RETRIES"))),
    ("ADAPTIVE_RATIO_THRESHOLD_PERMILLE", "nat", "adaptive_cleanup.rs EXPIRED_RATIO_THRESHOLD x 1000", None, ratio_permille),
    ("ADAPTIVE_EXPIRED_MIN", "nat", "adaptive_cleanup.rs `expired_count > 50`", None,
     lambda: num(need(code(ADA), r"self\.expired_count\s*>\s*(\d+)", "expired_count floor").group(1))),
    ("ADAPTIVE_PRODUCTIVE_DIV", "nat", "adaptive_cleanup.rs", None,
     lambda: num(need(code(ADA), r"self\.last_cleanup_removed\s*>\s*self\.last_cleanup_total\s*/\s*(\d+)", "productive divisor").group(1))),
    ("PROB_DEFAULT_MODULO", "nat", "probabilistic.rs", LIB, lambda: num(const(code(PRO), "PROBABILISTIC_CLEANUP_MODULO"))),
    ("PROB_MULT", "nat", "probabilistic.rs hash multiplier", LIB,
     lambda: num(need(code(PRO), r"operations_count\)?\s*(?:\.wrapping_mul\(|\*)\s*([0-9_]+)", "multiplier").group(1))),
    ("UNIT_SECOND_SECS", "nat", "rate/mod.rs per_second", None, unit("per_second")),
    ("UNIT_MINUTE_SECS", "nat", "rate/mod.rs per_minute", None, unit("per_minute")),
    ("UNIT_HOUR_SECS", "nat", "rate/mod.rs per_hour", None, unit("per_hour")),
    ("UNIT_DAY_SECS", "nat", "rate/mod.rs per_day", None, unit("per_day")),
    ("NS_PER_SEC", "nat", "rate/mod.rs from_count_and_period", LIB,
     lambda: num(need(code(RATE), r"period_seconds as f64 \* ([0-9_]+)\.0 / count as f64", "ns per second literal").group(1))),
    ("RESP_MAX_BULK", "nat", "resp.rs", SRV, lambda: num(const(code(RESP), "MAX_BULK_STRING_SIZE"))),
    ("RESP_MAX_ARRAY", "nat", "resp.rs", SRV, lambda: num(const(code(RESP), "MAX_ARRAY_SIZE"))),
    ("RESP_MAX_DEPTH", "nat", "resp.rs", SRV, lambda: num(const(code(RESP), "MAX_ARRAY_DEPTH"))),
    ("RESP_MAX_BUFFER", "nat", "redis/mod.rs per-connection buffer cap", SRV, lambda: num(const(code(RMOD), "MAX_BUFFER_SIZE"))),
    ("RESP_READ_CHUNK", "nat", "redis/mod.rs read size", SRV, lambda: num(need(code(RMOD), r"vec!\[0;\s*(\d+)\]", "read chunk").group(1))),
    ("METRICS_MAX_KEY_LENGTH", "nat", "metrics.rs", SRV, lambda: num(const(code(MET), "MAX_KEY_LENGTH"))),
    ("METRICS_MAX_DENIED_KEYS_LIMIT", "nat", "metrics.rs", SRV, lambda: num(const(code(MET), "MAX_DENIED_KEYS_LIMIT"))),
    ("METRICS_GROWTH_FACTOR", "nat", "metrics.rs `len > max_size * 3`", None,
     lambda: num(need(code(MET), r"self\.counts\.len\(\)\s*>\s*self\.max_size\s*\*\s*(\d+)", "growth factor").group(1))),
    ("METRICS_DEFAULT_MAX_DENIED", "nat", "metrics.rs MetricsBuilder::new", SRV,
     lambda: num(need(code(MET), r"max_denied_keys:\s*(\d+),", "default").group(1))),
    ("RESP_DEFAULT_QUANTITY", "nat", "redis/mod.rs quantity when the 6th argument is omitted", None, lambda: int(quantity_block().group(4))),
    ("RESP_THROTTLE_FULL_ARITY", "nat", "redis/mod.rs args.len() with explicit quantity", None, lambda: int(quantity_block().group(1))),
    ("RESP_THROTTLE_MIN_ARGS", "nat", "redis/mod.rs arity lower bound", None, arity(1)),
    ("RESP_THROTTLE_MAX_ARGS", "nat", "redis/mod.rs arity upper bound", None, arity(2)),
    ("HTTP_DEFAULT_QUANTITY", "nat", "http.rs quantity.unwrap_or", None,
     lambda: num(norm_expr(need(code(HTTP), r"quantity\s*:\s*(?:req\.)?quantity\.unwrap_or\(\s*(\w+)\s*\)", "HTTP default quantity").group(1), code(HTTP)))),
    ("MAIN_CREATE_LIMITER_CALLS", "nat", "main.rs: number of calls of store::create_rate_limiter", None, count(MAINRS, r"create_rate_limiter\s*\(")),
    ("MAIN_TRANSPORT_STARTS", "nat", "main.rs: number of transport.start(..) calls", None, transport_starts),
    ("MAIN_HANDLES_CLONED_FROM_LIMITER", "nat", "main.rs: transport handles that are `limiter.clone()`", None, handles_cloned),
    ("MAIN_METRICS_BUILDS", "nat", "main.rs: number of Metrics instances built", None, count(MAINRS, r"Metrics::builder\(\)")),
    ("STORE_SPAWN_CALLS", "nat", "store.rs: actor spawns (one per store kind branch)", None, count(STORERS, r"RateLimiterActor::spawn_\w+\(")),
    ("RECORD_REQUEST_INCS", "strs", "counters bumped (one `fetch_add(1)` each) by `Metrics::record_request` (both outcomes listed)", None, incs("record_request")),
    ("RECORD_ERROR_INCS", "strs", "counters bumped by `Metrics::record_error` (all transports listed)", None, incs("record_error")),
    ("PROTO_REQUEST", "proto", "(type, name, number) of throttlecrab.proto ThrottleRequest", None, proto_fields("ThrottleRequest")),
    ("PROTO_RESPONSE", "proto", "(type, name, number) of throttlecrab.proto ThrottleResponse", None, proto_fields("ThrottleResponse")),
    ("TYPES_RESPONSE_MAP", "pairs", "types.rs `From<(bool, RateLimitResult)> for ThrottleResponse`: (wire field, source expression)", None, types_map),
    ("GRPC_RESPONSE_MAP", "pairs", "grpc.rs response literal: (proto field, source expression)", None,
     struct_literal(GRPC, r"let response = ThrottleResponse \{(.*?)\};", "grpc response literal")),
    ("GRPC_REQUEST_MAP", "pairs", "grpc.rs ActorRequest literal: (request field, source expression)", None,
     struct_literal(GRPC, r"let actor_request = ActorRequest \{(.*?)\};", "grpc request literal")),
    ("HTTP_REQUEST_MAP", "pairs", "http.rs InternalRequest literal: (request field, source expression)", None,
     struct_literal(HTTP, r"let internal_req = InternalRequest \{(.*?)\};", "http request literal")),
    ("HTTP_METRIC_CALLS", "pairs", "http.rs handle_throttle: (arm of the limiter result, metrics call)", None, metric_calls(HTTP)),
    ("GRPC_METRIC_CALLS", "pairs", "grpc.rs throttle: (arm of the limiter result, metrics call)", None, metric_calls(GRPC)),
    ("RESP_METRIC_CALLS", "strs", "redis/mod.rs: every metrics call of the RESP command handler, in source order", None, resp_metric_calls),
    ("RESP_REPLY_FIELDS", "strs", "redis/mod.rs: the response fields in the order of the 5-integer reply array", None, resp_reply),
    ("RESP_ARG_INDEX", "idx", "redis/mod.rs: which command-array index feeds which request field", None, resp_args),
]

def render(name, kind, doc, v):
    if kind == "nat":
        return [f"/-- {doc} -/", f"def {name} : Nat := {v}"]
    if kind == "strs":
        return [f"/-- {doc} -/", f"def {name} : List String := [" + ", ".join(f'"{c}"' for c in v) + "]"]
    if kind == "pairs":
        return [f"/-- {doc} -/", f"def {name} : List (String × String) := [" + ", ".join(f'("{a}", "{b}")' for a, b in v) + "]"]
    if kind == "proto":
        return [f"/-- {doc} -/", f"def {name} : List (String × String × Nat) := [" + ", ".join(f'("{t}", "{n}", {k})' for t, n, k in v) + "]"]
    if kind == "idx":
        return [f"/-- {doc} -/", f"def {name} : List (String × Nat) := [" + ", ".join(f'("{a}", {b})' for a, b in v) + "]"]
    raise ValueError(kind)

def main():
    write_baseline = "--write-baseline" in sys.argv
    baseline = {}
    if os.path.exists(BASELINE):
        baseline = json.load(open(BASELINE))
    status = dict(repo=REPO, located=[], located_by_value={}, not_located={})
    values = {}
    consts_cache = {}
    for name, kind, doc, crate, fn in ITEMS:
        try:
            v = fn()
            status["located"].append(name)
        except NotLocated as e:
            if write_baseline:
                raise
            if name not in baseline:
                raise
            v = baseline[name]
            v = [tuple(x) if isinstance(x, list) else x for x in v] if isinstance(v, list) else v
            found = None
            if kind == "nat" and crate:
                if crate not in consts_cache:
                    consts_cache[crate] = crate_consts(crate)
                found = consts_cache[crate].get(v)
            if found:
                status["located_by_value"][name] = f"{e}; a constant with the expected value {v} exists: {', '.join(sorted(set(found))[:4])}"
            else:
                status["not_located"][name] = str(e)
        values[name] = v
    lines = ["/- GENERATED by verif/translate/translate.py from /repo's sources on every run. Do not edit. -/",
             "namespace TcVerif.Gen", ""]
    for name, kind, doc, crate, fn in ITEMS:
        lines += render(name, kind, doc, values[name])
    lines += ["", "end TcVerif.Gen", ""]
    text = "\n".join(lines)
    if write_baseline:
        json.dump(values, open(BASELINE, "w"), indent=1, ensure_ascii=False)
        print("wrote", BASELINE)
    os.makedirs(os.path.dirname(OUT), exist_ok=True)
    old = open(OUT).read() if os.path.exists(OUT) else None
    if old != text:
        with open(OUT, "w") as f:
            f.write(text)
        print("regenerated", OUT)
    os.makedirs(os.path.dirname(STATUS), exist_ok=True)
    json.dump(status, open(STATUS, "w"), indent=1)
    for k, v in status["located_by_value"].items():
        print(f"translate: NOTE {k}: {v}")
    for k, v in status["not_located"].items():
        print(f"translate: NOTE {k} not located ({v}); last known content emitted, tie rests on the correspondence legs")

if __name__ == "__main__":
    try:
        main()
    except Exception as e:
        print(f"translate: {type(e).__name__}: {e}")
        sys.exit(1)
