import TcVerif.Model.Basic
import TcVerif.Model.SoftFloat
import TcVerif.Model.Store
import TcVerif.Model.Gcra
import TcVerif.Model.Bucket
