/-
  From one step to whole histories: the run of a fixed-limits key on its cell IS the run of the
  ideal bucket (decisions, remaining tokens, admitted credit per window).
-/
import TcVerif.Lemmas.BucketSim
import TcVerif.Lemmas.BucketWindow
namespace TcVerif

/-- every request of the (single-key) history uses the limits `(B, E)`, is valid, lies in the
    time domain, and timestamps never decrease (starting at or after `t0`) -/
def FixedD (ei : Int → Int → Int) (E B : Int) : Int → List Req → Prop
  | _, [] => True
  | t0, r :: rs => StepD E B t0 r ∧ ei r.count r.period = E ∧ FixedD ei E B r.now rs

def reqTQ (r : Req) : Int × Int := (r.now, r.qty)

/-- credit admitted for requests stamped in `[t1,t2]` -/
def admittedCredit (E t1 t2 : Int) : List (Req × Outcome) → Int
  | [] => 0
  | p :: rest =>
    (if p.2.allowed = true ∧ t1 ≤ p.1.now ∧ p.1.now ≤ t2 then p.1.qty * E else 0) + admittedCredit E t1 t2 rest

/-- the same, for one key of a multi-key run -/
def admittedCreditK (k : Key) (E t1 t2 : Int) : List (Req × Outcome) → Int
  | [] => 0
  | p :: rest =>
    (if p.1.key = k ∧ p.2.allowed = true ∧ t1 ≤ p.1.now ∧ p.1.now ≤ t2 then p.1.qty * E else 0)
      + admittedCreditK k E t1 t2 rest

theorem admittedCreditK_filter (k : Key) (E t1 t2 : Int) (l : List (Req × Outcome)) :
    admittedCreditK k E t1 t2 l = admittedCredit E t1 t2 (l.filter (fun p => p.1.key = k)) := by
  induction l with
  | nil => rfl
  | cons p rest ih =>
    by_cases hk : p.1.key = k
    · simp only [admittedCreditK, List.filter, hk, decide_true, admittedCredit, true_and, ih]
    · simp only [admittedCreditK, List.filter, hk, decide_false, false_and, if_false, ih, Int.zero_add]

theorem fixedD_sorted {ei : Int → Int → Int} {E B t0 : Int} {rs : List Req} (h : FixedD ei E B t0 rs) :
    SortedReqs t0 (rs.map reqTQ) := by
  induction rs generalizing t0 with
  | nil => trivial
  | cons r rs ih =>
    obtain ⟨h1, _, h3⟩ := h
    exact ⟨h1.mono, h1.valid.1, ih h3⟩

/-- **The cell run equals the bucket run** -/
theorem cell_run_bucket {ei : Int → Int → Int} {E B : Int} (rs : List Req) (t0 : Int) (c : Cell) (b : Option Bucket)
    (h : FixedD ei E B t0 rs) (hrel : Rel E B c b t0) (t1 t2 : Int) :
    (runTagged Cell.ops ei c rs).map (fun p => (p.2.allowed, p.2.remaining)) = Bucket.runFull B E b (rs.map reqTQ) ∧
    (∀ p ∈ runTagged Cell.ops ei c rs, p.2.isOk = true ∧ p.2.limit = B) ∧
    admittedCredit E t1 t2 (runTagged Cell.ops ei c rs) = Bucket.windowSum B E t1 t2 b (rs.map reqTQ) := by
  induction rs generalizing t0 c b with
  | nil => exact ⟨rfl, ⟨fun p hp => by simp [runTagged] at hp, rfl⟩⟩
  | cons r rs ih =>
    obtain ⟨h1, h2, h3⟩ := h
    obtain ⟨s1, s2, s3, s4, s5⟩ := cell_bucket_step c b t0 r h1 hrel
    simp only [runTagged, h2, List.map, reqTQ, Bucket.runFull, admittedCredit, Bucket.windowSum]
    obtain ⟨i1, i2, i3⟩ := ih r.now _ _ h3 s5
    refine ⟨?_, ?_, ?_⟩
    · rw [s2, s3]
      congr 1
    · intro p hp
      cases hp with
      | head => exact ⟨s1, s4⟩
      | tail _ hp' => exact i2 p hp'
    · rw [s2, i3]

theorem fixedD_weaken {ei : Int → Int → Int} {E B t0 t1 : Int} {rs : List Req} (h01 : t0 ≤ t1)
    (h : FixedD ei E B t1 rs) : FixedD ei E B t0 rs := by
  cases rs with
  | nil => trivial
  | cons r rs =>
    obtain ⟨h1, h2, h3⟩ := h
    exact ⟨⟨h1.dom, h1.burst, h1.valid, by have := h1.mono; omega, h1.now0, h1.now1⟩, h2, h3⟩

/-- a monotone multi-key history whose requests on `k` all carry the limits `(B,c,p)` (valid
    quantities, time within 1970..2100) satisfies `FixedD` for `k`'s sub-history -/
theorem fixedD_of_forall (ei : Int → Int → Int) (E B : Int) (k : Key) (rs : List Req) (t0 : Int)
    (hD : DomD E B) (hm : MonotoneFrom t0 rs)
    (hreqs : ∀ r ∈ rs, r.key = k → r.burst = B ∧ ei r.count r.period = E ∧ r.valid ∧ 0 ≤ r.now ∧ r.now ≤ T_MAX) :
    FixedD ei E B t0 (rs.filter (fun r => r.key = k)) := by
  induction rs generalizing t0 with
  | nil => trivial
  | cons r rs ih =>
    obtain ⟨h0, hm'⟩ := hm
    have ih' := ih r.now hm' (fun r' hr' => hreqs r' (List.mem_cons_of_mem _ hr'))
    by_cases hk : r.key = k
    · obtain ⟨hb, he, hv, hn0, hn1⟩ := hreqs r (List.mem_cons_self ..) hk
      simp only [List.filter, hk, decide_true]
      exact ⟨⟨hD, hb, hv, h0, hn0, hn1⟩, he, ih'⟩
    · simp only [List.filter, hk, decide_false]
      exact fixedD_weaken h0 ih'


end TcVerif
