/-
  With the built-in stores the write that follows a `get` at the same instant always
  succeeds (C08: no internal error), and every store operation keeps the table's keys
  unique, so this holds along whole histories.
-/
import TcVerif.Lemmas.StoreSim
import TcVerif.Lemmas.BucketSim
namespace TcVerif
open Data

theorem sim_refl {now : Int} {d : Data} (h : NodupKeys d) : Sim now d d := ⟨h, fun _ => rfl⟩

theorem simStore_self {now : Int} {st : AnyStore} (h : NodupKeys st.data) : SimStore now st ⟨st.data⟩ :=
  sim_refl h

theorem anyStore_get (st : AnyStore) (k : Key) (now : Int) :
    AnyStore.ops.get st k now = Data.get st.data k now := by
  cases st <;> rfl

/-- what `get` returned is what is visible at `now` -/
theorem live_of_get {d : Data} {k : Key} {now old : Int} (h : Data.get d k now = some old) :
    ∃ e, live d now k = some (old, e) := by
  rw [get_eq_live] at h
  cases hl : live d now k with
  | none => rw [hl] at h; simp at h
  | some p =>
    obtain ⟨v, e⟩ := p
    rw [hl] at h
    simp at h
    exact ⟨e, by rw [h]⟩

theorem live_of_get_none {d : Data} {k : Key} {now : Int} (h : Data.get d k now = none) :
    live d now k = none := by
  rw [get_eq_live] at h
  cases hl : live d now k with
  | none => rfl
  | some p => rw [hl] at h; simp at h

theorem data_cas_succeeds {d : Data} {k : Key} {now old : Int} (new ttl : Int)
    (h : Data.get d k now = some old) : (Data.cas d k old new ttl now).2.1 = true := by
  obtain ⟨e, hl⟩ := live_of_get h
  rw [cas_eq, hl]
  simp

theorem data_setnx_succeeds {d : Data} {k : Key} {now : Int} (v ttl : Int)
    (h : Data.get d k now = none) : (Data.setnx d k v ttl now).2.1 = true := by
  rw [setnx_eq, live_of_get_none h]

/-- compare-and-swap against the value just read, at the same instant, succeeds on every
    built-in store (whatever sweep the write triggers first) -/
theorem anyStore_cas_succeeds (st : AnyStore) (hd : NodupKeys st.data) (k : Key) (old new ttl now : Int)
    (hg : AnyStore.ops.get st k now = some old) :
    (AnyStore.ops.cas st k old new ttl now).2 = true := by
  obtain ⟨h1, _⟩ := simStore_cas (simStore_self (now := now) hd) k old new ttl
  rw [h1]
  rw [anyStore_get] at hg
  exact data_cas_succeeds new ttl hg

/-- set-if-absent for a key just read as absent, at the same instant, succeeds -/
theorem anyStore_setnx_succeeds (st : AnyStore) (hd : NodupKeys st.data) (k : Key) (v ttl now : Int)
    (hg : AnyStore.ops.get st k now = none) :
    (AnyStore.ops.setnx st k v ttl now).2 = true := by
  obtain ⟨h1, _⟩ := simStore_setnx (simStore_self (now := now) hd) k v ttl
  rw [h1]
  rw [anyStore_get] at hg
  exact data_setnx_succeeds v ttl hg

/-! ### unique keys are preserved by every operation -/

theorem anyStore_cas_nodup (st : AnyStore) (hd : NodupKeys st.data) (k : Key) (old new ttl now : Int) :
    NodupKeys (AnyStore.ops.cas st k old new ttl now).1.data :=
  (simStore_cas (simStore_self (now := now) hd) k old new ttl).2.1

theorem anyStore_setnx_nodup (st : AnyStore) (hd : NodupKeys st.data) (k : Key) (v ttl now : Int) :
    NodupKeys (AnyStore.ops.setnx st k v ttl now).1.data :=
  (simStore_setnx (simStore_self (now := now) hd) k v ttl).2.1

theorem applyOp_nodup (st : AnyStore) (hd : NodupKeys st.data) (op : SOp) :
    NodupKeys (applyOp AnyStore.ops st op).1.data := by
  cases op with
  | get k now => exact hd
  | cas k old new ttl now => exact anyStore_cas_nodup st hd k old new ttl now
  | setnx k v ttl now => exact anyStore_setnx_nodup st hd k v ttl now

/-! ### the retry loop on a built-in store: one pass, never the internal error -/

/-- the store operations one pass issues: the read, then at most one (successful) write -/
def passTrace (st : AnyStore) (E : Int) (r : Req) : List StoreOp :=
  let tv := AnyStore.ops.get st r.key r.now
  let d := decision E r tv
  StoreOp.get r.key r.now tv ::
    (if d.write then
      match tv with
      | some old => [StoreOp.cas r.key old d.newTat d.ttl r.now true]
      | none => [StoreOp.setnx r.key d.newTat d.ttl r.now true]
     else [])

theorem rlLoop_anyStore (n : Nat) (st : AnyStore) (hd : NodupKeys st.data) (E : Int) (r : Req)
    (tr : List StoreOp) :
    (rlLoop AnyStore.ops (n + 1) st E r tr).2.1 = (decision E r (AnyStore.ops.get st r.key r.now)).outcome ∧
    NodupKeys (rlLoop AnyStore.ops (n + 1) st E r tr).1.data ∧
    (rlLoop AnyStore.ops (n + 1) st E r tr).2.2 = tr ++ passTrace st E r := by
  simp only [rlLoop, passTrace]
  by_cases hw : (decision E r (AnyStore.ops.get st r.key r.now)).write = true
  · simp only [hw, if_true]
    cases hg : AnyStore.ops.get st r.key r.now with
    | none =>
      simp only [hg] at hw ⊢
      have hs := anyStore_setnx_succeeds st hd r.key (decision E r none).newTat (decision E r none).ttl r.now hg
      have hn := anyStore_setnx_nodup st hd r.key (decision E r none).newTat (decision E r none).ttl r.now
      simp only [hs, if_true]
      exact ⟨trivial, hn, by simp⟩
    | some old =>
      simp only [hg] at hw ⊢
      have hs := anyStore_cas_succeeds st hd r.key old (decision E r (some old)).newTat
        (decision E r (some old)).ttl r.now hg
      have hn := anyStore_cas_nodup st hd r.key old (decision E r (some old)).newTat
        (decision E r (some old)).ttl r.now
      simp only [hs, if_true]
      exact ⟨trivial, hn, by simp⟩
  · simp only [hw]
    exact ⟨by simp, by simpa using hd, by simp⟩

theorem rateLimitE_anyStore (st : AnyStore) (hd : NodupKeys st.data) (E : Int) (r : Req) (hv : r.valid) :
    (rateLimitE AnyStore.ops st E r).2.1 = (decision E r (AnyStore.ops.get st r.key r.now)).outcome ∧
    NodupKeys (rateLimitE AnyStore.ops st E r).1.data ∧
    (rateLimitE AnyStore.ops st E r).2.2 = passTrace st E r := by
  obtain ⟨h1, h2, h3, h4⟩ := hv
  have hq : ¬ r.qty < 0 := by omega
  have hl : ¬ (r.burst ≤ 0 ∨ r.count ≤ 0 ∨ r.period ≤ 0) := by omega
  simp only [rateLimitE, hq, hl, if_false, maxRetries_pos]
  have := rlLoop_anyStore 9 st hd E r []
  simpa using this

/-- unique keys survive a whole `rate_limit` call, valid parameters or not -/
theorem rateLimitE_nodup (st : AnyStore) (hd : NodupKeys st.data) (E : Int) (r : Req) :
    NodupKeys (rateLimitE AnyStore.ops st E r).1.data := by
  unfold rateLimitE
  split
  · exact hd
  · split
    · exact hd
    · rw [maxRetries_pos]; exact (rlLoop_anyStore 9 st hd E r []).2.1

end TcVerif
