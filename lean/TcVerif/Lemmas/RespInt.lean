/-
  Lemmas about decimal rendering / `i64` parsing.
-/
import TcVerif.Model.Resp

namespace TcVerif.Resp

theorem digit_table : ∀ j, j < 10 →
    isDigit (UInt8.ofNat (48 + j)) = true ∧ (UInt8.ofNat (48 + j)).toNat - 48 = j := by decide

theorem isDigit_digitByte (k : Nat) : isDigit (digitByte k) = true :=
  (digit_table (k % 10) (Nat.mod_lt _ (by omega))).1

theorem digitByte_val (k : Nat) : (digitByte k).toNat - 48 = k % 10 :=
  (digit_table (k % 10) (Nat.mod_lt _ (by omega))).2

theorem isDigit_lt128 {c : UInt8} (h : isDigit c = true) : c < 128 := by
  simp [isDigit, UInt8.le_iff_toNat_le, UInt8.lt_iff_toNat_lt] at *; omega

theorem isDigit_ne {c : UInt8} (h : isDigit c = true) : c ≠ 13 ∧ c ≠ 10 ∧ c ≠ 45 ∧ c ≠ 43 := by
  refine ⟨?_, ?_, ?_, ?_⟩ <;> (intro h2; subst h2; simp [isDigit] at h)

/-! ### rendering -/

theorem natDigitsAux_acc : ∀ (f n : Nat) (acc : List UInt8),
    natDigitsAux f n acc = natDigitsAux f n [] ++ acc
  | 0, _, acc => by simp [natDigitsAux]
  | f + 1, n, acc => by
    simp only [natDigitsAux]
    split
    · simp
    · rw [natDigitsAux_acc f (n / 10) (digitByte n :: acc),
        natDigitsAux_acc f (n / 10) [digitByte n]]
      simp

theorem natDigitsAux_fuel : ∀ (f g n : Nat), n < f → n < g →
    natDigitsAux f n [] = natDigitsAux g n []
  | 0, _, _, h, _ => by omega
  | _ + 1, 0, _, _, h => by omega
  | f + 1, g + 1, n, hf, hg => by
    simp only [natDigitsAux]
    split
    · rfl
    · rw [natDigitsAux_acc f, natDigitsAux_acc g,
        natDigitsAux_fuel f g (n / 10) (by omega) (by omega)]

theorem renderNat_lt {n : Nat} (h : n < 10) : renderNat n = [digitByte n] := by
  simp [renderNat, natDigitsAux, h]

theorem renderNat_ge {n : Nat} (h : 10 ≤ n) :
    renderNat n = renderNat (n / 10) ++ [digitByte n] := by
  have : ¬ n < 10 := by omega
  unfold renderNat
  rw [natDigitsAux]
  simp only [this, if_false]
  rw [natDigitsAux_acc, natDigitsAux_fuel n (n / 10 + 1) (n / 10) (by omega) (by omega)]

theorem renderNat_digits (n : Nat) : ∀ c ∈ renderNat n, isDigit c = true := by
  induction n using Nat.strongRecOn with
  | _ n ih =>
    by_cases h : n < 10
    · rw [renderNat_lt h]; intro c hc; simp at hc; subst hc; exact isDigit_digitByte n
    · rw [renderNat_ge (by omega)]
      intro c hc
      simp only [List.mem_append, List.mem_singleton] at hc
      rcases hc with hc | hc
      · exact ih (n / 10) (by omega) c hc
      · subst hc; exact isDigit_digitByte n

theorem renderNat_ne_nil (n : Nat) : renderNat n ≠ [] := by
  by_cases h : n < 10
  · rw [renderNat_lt h]; simp
  · rw [renderNat_ge (by omega)]; simp

/-! ### parsing -/

theorem digitsVal_snoc : ∀ (xs : List UInt8) (c : UInt8) (a : Nat),
    digitsVal (xs ++ [c]) a =
      match digitsVal xs a with
      | some v => if isDigit c then some (v * 10 + (c.toNat - 48)) else none
      | none => none
  | [], c, a => by simp [digitsVal]
  | x :: xs, c, a => by
    simp only [List.cons_append, digitsVal]
    split
    · exact digitsVal_snoc xs c _
    · rfl

theorem digitsVal_renderNat (n : Nat) : digitsVal (renderNat n) 0 = some n := by
  induction n using Nat.strongRecOn with
  | _ n ih =>
    by_cases h : n < 10
    · rw [renderNat_lt h]
      simp only [digitsVal, isDigit_digitByte, if_true, digitByte_val]
      congr 1; omega
    · rw [renderNat_ge (by omega), digitsVal_snoc, ih (n / 10) (by omega)]
      simp only [isDigit_digitByte, if_true, digitByte_val]
      congr 1; omega

theorem parseDigits_renderNat (n : Nat) : parseDigits (renderNat n) = some n := by
  unfold parseDigits
  split
  · rename_i h; exact absurd h (renderNat_ne_nil n)
  · exact digitsVal_renderNat n

theorem parseI64_renderNat {n : Nat} (h : n ≤ I64_MAX_NAT) :
    parseI64 (renderNat n) = some (n : Int) := by
  have hp := parseDigits_renderNat n
  have hd := renderNat_digits n
  cases hr : renderNat n with
  | nil => exact absurd hr (renderNat_ne_nil n)
  | cons c cs =>
    rw [hr] at hp hd
    have hc := isDigit_ne (hd c (by simp))
    simp only [parseI64, hc.2.2.1, hc.2.2.2, if_false, hp, h, if_true]

theorem parseI64_renderInt {n : Int} (h : inI64 n = true) : parseI64 (renderInt n) = some n := by
  simp only [inI64, Bool.and_eq_true, decide_eq_true_eq] at h
  unfold renderInt
  split
  · rename_i hneg
    simp only [parseI64, if_true, parseDigits_renderNat]
    have : n.natAbs ≤ I64_MAX_NAT + 1 := by omega
    simp only [this, if_true]
    congr 1; omega
  · rename_i hpos
    rw [parseI64_renderNat (by omega)]
    congr 1; omega

theorem renderInt_bytes (n : Int) : ∀ c ∈ renderInt n, c < 128 ∧ c ≠ 13 ∧ c ≠ 10 := by
  intro c hc
  unfold renderInt at hc
  split at hc
  · simp only [List.mem_cons] at hc
    rcases hc with hc | hc
    · subst hc; decide
    · have := renderNat_digits _ c hc
      exact ⟨isDigit_lt128 this, (isDigit_ne this).1, (isDigit_ne this).2.1⟩
  · have := renderNat_digits _ c hc
    exact ⟨isDigit_lt128 this, (isDigit_ne this).1, (isDigit_ne this).2.1⟩

theorem renderNat_bytes (n : Nat) : ∀ c ∈ renderNat n, c < 128 ∧ c ≠ 13 ∧ c ≠ 10 := by
  intro c hc
  have := renderNat_digits _ c hc
  exact ⟨isDigit_lt128 this, (isDigit_ne this).1, (isDigit_ne this).2.1⟩

/-- every accepted integer is an `i64` -/
theorem parseI64_range {l : List UInt8} {k : Int} (h : parseI64 l = some k) : inI64 k = true := by
  simp only [inI64, Bool.and_eq_true, decide_eq_true_eq]
  unfold parseI64 at h
  split at h
  · cases h
  · split at h
    · split at h
      · split at h
        · cases h; omega
        · cases h
      · cases h
    · split at h
      · split at h
        · split at h
          · cases h; omega
          · cases h
        · cases h
      · split at h
        · split at h
          · cases h; omega
          · cases h
        · cases h

theorem parseHdrInt_range {l : List UInt8} {k : Int} (h : parseHdrInt l = some k) :
    inI64 k = true := by
  unfold parseHdrInt at h
  split at h
  · exact parseI64_range h
  · cases h

end TcVerif.Resp
