/-
  Arbitrary timestamp order (C17): what one request does to a fixed-limits key's cell when
  nothing is assumed about how its timestamp relates to earlier ones, and the window bound on
  a store that never physically removes entries.
-/
import TcVerif.Lemmas.CellStep
namespace TcVerif
open Data

/-- one request of the fixed-limits key, inside the domain, NO ordering assumption -/
structure ReqOK (E B : Int) (r : Req) : Prop where
  dom : DomD E B
  burst : r.burst = B
  valid : r.valid
  now0 : 0 ≤ r.now
  now1 : r.now ≤ T_MAX

/-- invariant of a fixed-limits key's stored entry: expiry = TAT + pad, TAT in range -/
def CellInv (E B : Int) : Cell → Prop
  | none => True
  | some (v, e) => e = v + max (B * E - E) E ∧ -TWO60 ≤ v ∧ v ≤ V_MAX

/-- the stored TAT, or `d` if the key was never written -/
def Cell.tatOr (d : Int) : Cell → Int
  | none => d
  | some (v, _) => v

structure NonMonoFacts (E B : Int) (c : Cell) (r : Req) : Prop where
  ok : (rateLimitE Cell.ops c E r).2.1.isOk = true
  inv : CellInv E B (rateLimitE Cell.ops c E r).1
  /-- nothing written unless admitted with positive quantity -/
  unchanged : ¬ ((rateLimitE Cell.ops c E r).2.1.allowed = true ∧ 0 < r.qty) → (rateLimitE Cell.ops c E r).1 = c
  /-- an admitted write raises the stored TAT by at least `q·E` above both the old TAT and `now - E`,
      and never beyond `now + τ` -/
  written : ((rateLimitE Cell.ops c E r).2.1.allowed = true ∧ 0 < r.qty) →
      ∃ v', (rateLimitE Cell.ops c E r).1 = some (v', v' + max (B * E - E) E) ∧
        Cell.tatOr (r.now - E) c + r.qty * E ≤ v' ∧ r.now - E + r.qty * E ≤ v' ∧ v' ≤ r.now + (B * E - E)

theorem cell_step_nonmono {E B : Int} (c : Cell) (r : Req) (h : ReqOK E B r) (hinv : CellInv E B c) :
    NonMonoFacts E B c r := by
  obtain ⟨hD, hb, hv, hn0, hn1⟩ := h
  have hE := hD.hE; have hB := hD.hB; have hBE := hD.hBE; have hEle := hD.E_le
  obtain ⟨hst, hout⟩ := rateLimitE_cell c E r hv
  obtain ⟨τ, hτ⟩ : ∃ τ, τ = B * E - E := ⟨_, rfl⟩
  obtain ⟨pad, hpad⟩ : ∃ pad, pad = max τ E := ⟨_, rfl⟩
  have hpad1 : τ ≤ pad := by rw [hpad]; exact Int.le_max_left _ _
  have hpad2 : E ≤ pad := by rw [hpad]; exact Int.le_max_right _ _
  have hpad3 : pad ≤ B * E := by rw [hpad]; omega
  have hinv' : CellInv E B c := hinv
  unfold CellInv at hinv
  rw [← hτ, ← hpad] at hinv
  -- what `get` returns and how it relates to the stored TAT
  have hget : ∀ v, Cell.ops.get c r.key r.now = some v → -TWO62 ≤ v ∧ v ≤ V_MAX := by
    intro v hg
    cases c with
    | none => simp [Cell.ops, Cell.live] at hg
    | some pr =>
      obtain ⟨v', e⟩ := pr
      obtain ⟨_, h1, h2⟩ := hinv
      by_cases hl : e > r.now
      · have : v = v' := by simp [Cell.ops, Cell.live, hl] at hg; omega
        subst this; constructor <;> bnd
      · simp [Cell.ops, Cell.live, hl] at hg
  have hreq : ReqD E B r (Cell.ops.get c r.key r.now) := ⟨hD, hb, hv.1, hn0, hn1, hget⟩
  obtain ⟨tat, htat⟩ : ∃ tat, tat = gTat E r.now (Cell.ops.get c r.key r.now) := ⟨_, rfl⟩
  obtain ⟨p, hp⟩ : ∃ p, p = E * r.qty := ⟨_, rfl⟩
  obtain ⟨d1, d2, d3, d4, d5, d6, d7, d8, d9, d10, d11, d12, d13⟩ := decision_D hreq τ tat p hτ htat hp
  rw [← hpad] at d4 d10
  have hp0 : 0 ≤ p := by rw [hp]; exact Int.mul_nonneg (by omega) hv.1
  have hpq : r.qty * E = p := by rw [hp]; exact Int.mul_comm _ _
  -- the effective TAT dominates `now - E` and the stored TAT (even when the entry has expired)
  have htat_lo : r.now - E ≤ tat := by
    rw [htat]; unfold gTat effTat; cases Cell.ops.get c r.key r.now <;> simp <;> omega
  have htat_ge : Cell.tatOr (r.now - E) c ≤ tat := by
    cases c with
    | none => simp only [Cell.tatOr]; exact htat_lo
    | some pr =>
      obtain ⟨v, e⟩ := pr
      obtain ⟨he, _, _⟩ := hinv
      simp only [Cell.tatOr]
      by_cases hl : e > r.now
      · have hg : Cell.ops.get (some (v, e)) r.key r.now = some v := by simp [Cell.ops, Cell.live, hl]
        rw [hg] at htat; simp only [gTat, effTat] at htat; omega
      · omega
  obtain ⟨d, hd⟩ : ∃ d, d = decision E r (Cell.ops.get c r.key r.now) := ⟨_, rfl⟩
  rw [← hd] at d1 d2 d3 d4 d5 d6 d7 d8 d9 d10 d11 d12 d13 hst hout
  have hwrite_iff : d.write = true ↔ (d.allowed = true ∧ 0 < r.qty) := by rw [d5]; simp
  constructor
  all_goals (try rw [hout])
  all_goals (try rw [d7])
  all_goals (try rw [hpq])
  · exact d6
  · rw [hst]
    by_cases hw : d.write = true
    · obtain ⟨ha, hq⟩ := hwrite_iff.mp hw
      have h2 := d2.mp ha
      have hsm : p ≤ TWO61 := by bnd
      simp only [hw, if_true, CellInv, d3 hsm, d4 hsm]
      rw [← hτ, ← hpad]
      refine ⟨by omega, by bnd, by bnd⟩
    · simp only [hw, if_false, Bool.false_eq_true]; exact hinv'
  · intro hno
    rw [hst]
    have : ¬ d.write = true := fun hw => hno (hwrite_iff.mp hw)
    simp [this]
  · intro hyes
    have hw : d.write = true := hwrite_iff.mpr hyes
    have h2 := d2.mp hyes.1
    have hsm : p ≤ TWO61 := by bnd
    rw [hst]
    rw [← hτ, ← hpad]
    refine ⟨tat + p, ?_, by omega, by omega, by omega⟩
    simp only [hw, if_true, d3 hsm, d4 hsm]
    congr 2
    omega

end TcVerif
