/-
  The GCRA model as the actor's limiter: its sequential run is `runTagged` (the history runner
  the limiter theorems C01–C06 are stated about).
-/
import TcVerif.Lemmas.ActorTotal
import TcVerif.Lemmas.LimiterSim
import TcVerif.Model.ActorDriver
namespace TcVerif.Actor
open TcVerif

theorem gcra_total : Total gcraLimiter := by
  intro l r h
  simp [gcraLimiter] at h

/-- the store after a history -/
def runState {σ : Type} (S : StoreOps σ) (ei : Int → Int → Int) : σ → List Req → σ
  | s, [] => s
  | s, r :: rs => runState S ei (rateLimitE S s (ei r.count r.period) r).1 rs

theorem runTagged_append {σ : Type} (S : StoreOps σ) (ei : Int → Int → Int) (s : σ) (a b : List Req) :
    runTagged S ei s (a ++ b) = runTagged S ei s a ++ runTagged S ei (runState S ei s a) b := by
  induction a generalizing s with
  | nil => rfl
  | cons r rs ih => simp only [List.cons_append, runTagged, runState, ih]

theorem runTagged_map_fst {σ : Type} (S : StoreOps σ) (ei : Int → Int → Int) (s : σ) (rs : List Req) :
    (runTagged S ei s rs).map (·.1) = rs := by
  induction rs generalizing s with
  | nil => rfl
  | cons r rs ih => simp only [runTagged, List.map_cons, ih]

theorem seqRun_gcra (st : AnyStore) (rs : List Req) :
    seqRun gcraLimiter st rs = some (runState AnyStore.ops emissionInterval st rs,
      (runTagged AnyStore.ops emissionInterval st rs).map (·.2)) := by
  induction rs generalizing st with
  | nil => rfl
  | cons r rs ih =>
    have hstep : gcraLimiter.step st r = some ((rateLimitE AnyStore.ops st (emissionInterval r.count r.period) r).1,
        (rateLimitE AnyStore.ops st (emissionInterval r.count r.period) r).2.1) := rfl
    simp only [seqRun, hstep, ih, runState, runTagged, List.map_cons]

end TcVerif.Actor
