/-
  Lemmas about `validUtf8` (closure under append, ASCII, `sanitize`) and `noCRLF`.
-/
import TcVerif.Lemmas.RespLine

namespace TcVerif.Resp

theorem validUtf8_cons (b0 : UInt8) (r0 : List UInt8) : validUtf8 (b0 :: r0) =
    if b0 < 0x80 then validUtf8 r0
    else if 0xC2 ≤ b0 && b0 ≤ 0xDF then
      match r0 with
      | b1 :: r1 => isCont b1 && validUtf8 r1
      | [] => false
    else if 0xE0 ≤ b0 && b0 ≤ 0xEF then
      match r0 with
      | b1 :: b2 :: r2 =>
        (if b0 = 0xE0 then 0xA0 ≤ b1 && b1 ≤ 0xBF
         else if b0 = 0xED then 0x80 ≤ b1 && b1 ≤ 0x9F
         else isCont b1) && isCont b2 && validUtf8 r2
      | _ => false
    else if 0xF0 ≤ b0 && b0 ≤ 0xF4 then
      match r0 with
      | b1 :: b2 :: b3 :: r3 =>
        (if b0 = 0xF0 then 0x90 ≤ b1 && b1 ≤ 0xBF
         else if b0 = 0xF4 then 0x80 ≤ b1 && b1 ≤ 0x8F
         else isCont b1) && isCont b2 && isCont b3 && validUtf8 r3
      | _ => false
    else false := by
  rw [validUtf8.eq_def]; rfl

theorem validUtf8_append (a b : List UInt8) (ha : validUtf8 a = true) (hb : validUtf8 b = true) :
    validUtf8 (a ++ b) = true := by
  fun_induction validUtf8 a with
  | case1 => simpa using hb
  | case2 b0 r0 h ih =>
    rw [List.cons_append, validUtf8_cons]; simp only [h, if_true]; exact ih ha
  | case3 b0 h1 h2 b1 r1 ih =>
    rw [List.cons_append, List.cons_append, validUtf8_cons]
    simp only [h1, h2, if_true, if_false, Bool.and_eq_true] at ha ⊢
    exact ⟨ha.1, ih ha.2⟩
  | case4 b0 h1 h2 => cases ha
  | case5 b0 h1 h2 h3 b1 b2 r2 ih =>
    rw [List.cons_append, List.cons_append, List.cons_append, validUtf8_cons]
    simp only [h1, h2, h3, if_true, if_false, Bool.false_eq_true, Bool.and_eq_true] at ha ⊢
    exact ⟨ha.1, ih ha.2⟩
  | case6 b0 r0 h1 h2 h3 hr => cases ha
  | case7 b0 h1 h2 h3 h4 b1 b2 b3 r3 ih =>
    rw [List.cons_append, List.cons_append, List.cons_append, List.cons_append, validUtf8_cons]
    simp only [h1, h2, h3, h4, if_true, if_false, Bool.false_eq_true, Bool.and_eq_true] at ha ⊢
    exact ⟨ha.1, ih ha.2⟩
  | case8 b0 r0 h1 h2 h3 h4 hr => cases ha
  | case9 b0 r0 h1 h2 h3 h4 => cases ha

theorem validUtf8_ascii : ∀ (l : List UInt8), (∀ c ∈ l, c < 128) → validUtf8 l = true
  | [], _ => rfl
  | c :: cs, h => by
    rw [validUtf8_cons]
    have hc : c < 128 := h c (by simp)
    simp only [hc, if_true]
    exact validUtf8_ascii cs (fun c' hc' => h c' (by simp [hc']))

/-! ### byte-wise maps that fix every non-ASCII byte and keep ASCII bytes ASCII -/

theorem isCont_hi {b : UInt8} (h : isCont b = true) : ¬ b < 128 := by
  simp [isCont, UInt8.le_iff_toNat_le, UInt8.lt_iff_toNat_lt] at *; omega

theorem validUtf8_map (g : UInt8 → UInt8) (hfix : ∀ c, ¬ c < 128 → g c = c)
    (hlo : ∀ c, c < 128 → g c < 128) (s : List UInt8) (hs : validUtf8 s = true) :
    validUtf8 (s.map g) = true := by
  have hge : ∀ {lo b : UInt8}, ¬ lo < 128 → (decide (lo ≤ b)) = true → ¬ b < 128 := by
    intro lo b h1 h2
    simp [UInt8.le_iff_toNat_le, UInt8.lt_iff_toNat_lt] at *; omega
  fun_induction validUtf8 s with
  | case1 => rfl
  | case2 b0 r0 h ih =>
    rw [List.map_cons, validUtf8_cons]; simp only [hlo b0 h, if_true]; exact ih hs
  | case3 b0 h1 h2 b1 r1 ih =>
    simp only [Bool.and_eq_true] at hs
    rw [List.map_cons, List.map_cons, hfix b0 h1, hfix b1 (isCont_hi hs.1), validUtf8_cons]
    simp only [h1, h2, if_true, if_false, Bool.and_eq_true]
    exact ⟨hs.1, ih hs.2⟩
  | case4 b0 h1 h2 => cases hs
  | case5 b0 h1 h2 h3 b1 b2 r2 ih =>
    simp only [Bool.and_eq_true] at hs
    have hb1 : ¬ b1 < 128 := by
      have := hs.1.1
      split at this
      · simp only [Bool.and_eq_true] at this; exact hge (by decide) this.1
      · split at this
        · simp only [Bool.and_eq_true] at this; exact hge (by decide) this.1
        · exact isCont_hi this
    rw [List.map_cons, List.map_cons, List.map_cons, hfix b0 h1, hfix b1 hb1,
      hfix b2 (isCont_hi hs.1.2), validUtf8_cons]
    simp only [h1, h2, h3, if_true, if_false, Bool.false_eq_true, Bool.and_eq_true]
    exact ⟨hs.1, ih hs.2⟩
  | case6 b0 r0 h1 h2 h3 hr => cases hs
  | case7 b0 h1 h2 h3 h4 b1 b2 b3 r3 ih =>
    simp only [Bool.and_eq_true] at hs
    have hb1 : ¬ b1 < 128 := by
      have := hs.1.1.1
      split at this
      · simp only [Bool.and_eq_true] at this; exact hge (by decide) this.1
      · split at this
        · simp only [Bool.and_eq_true] at this; exact hge (by decide) this.1
        · exact isCont_hi this
    rw [List.map_cons, List.map_cons, List.map_cons, List.map_cons, hfix b0 h1, hfix b1 hb1,
      hfix b2 (isCont_hi hs.1.1.2), hfix b3 (isCont_hi hs.1.2), validUtf8_cons]
    simp only [h1, h2, h3, h4, if_true, if_false, Bool.false_eq_true, Bool.and_eq_true]
    exact ⟨hs.1, ih hs.2⟩
  | case8 b0 r0 h1 h2 h3 h4 hr => cases hs
  | case9 b0 r0 h1 h2 h3 h4 => cases hs

theorem validUtf8_sanitize {s : List UInt8} (hs : validUtf8 s = true) :
    validUtf8 (sanitize s) = true := by
  unfold sanitize
  apply validUtf8_map _ _ _ s hs
  · intro c hc
    have : c ≠ 13 ∧ c ≠ 10 := by
      constructor <;> (intro h; subst h; exact hc (by decide))
    simp [this.1, this.2]
  · intro c hc
    split
    · decide
    · exact hc

theorem sanitize_no_cr (s : List UInt8) : ∀ c ∈ sanitize s, c ≠ 13 := by
  intro c hc
  unfold sanitize at hc
  simp only [List.mem_map] at hc
  obtain ⟨a, _, rfl⟩ := hc
  split
  · decide
  · rename_i h; intro h2; exact h (Or.inl h2)

/-! ### noCRLF -/

theorem findCRLF_no_cr : ∀ (l : List UInt8), (∀ c ∈ l, c ≠ 13) → findCRLF l = none
  | [], _ => rfl
  | c :: cs, h => by
    rw [findCRLF_cons_ne c cs (h c (by simp)),
      findCRLF_no_cr cs (fun c' hc' => h c' (by simp [hc']))]

theorem noCRLF_no_cr (l : List UInt8) (h : ∀ c ∈ l, c ≠ 13) : noCRLF l = true := by
  unfold noCRLF; rw [findCRLF_no_cr l h]; rfl

theorem noCRLF_iff {l : List UInt8} : noCRLF l = true ↔ findCRLF l = none := by
  unfold noCRLF; cases findCRLF l <;> simp

/-- prefixing CR-free bytes keeps a CRLF-free payload CRLF-free -/
theorem noCRLF_prefix : ∀ (p l : List UInt8), (∀ c ∈ p, c ≠ 13) → noCRLF l = true →
    noCRLF (p ++ l) = true
  | [], l, _, h => h
  | c :: cs, l, hp, h => by
    have ih := noCRLF_prefix cs l (fun c' hc' => hp c' (by simp [hc'])) h
    rw [noCRLF_iff] at ih ⊢
    rw [List.cons_append, findCRLF_cons_ne c _ (hp c (by simp)), ih]

end TcVerif.Resp
