/-
  Soft-float lemmas, part 2: `rne` expressed through `rneDiv` (`rne_eq`), exactness of
  `F64.ofNat` / `F64.mul` on integers below 2^53 (`ofNat_exact`, `mul_exact`), and the main
  float fact `div_toU64`: trunc(RNE(P / c)) = P / c for integers 0 < P, c < 2^53.
-/
import TcVerif.Lemmas.Float
namespace TcVerif

def rneM (n d : Nat) (e : Int) : Nat :=
  if e ≥ 0 then rneDiv n (d * 2 ^ e.toNat) else rneDiv (n * 2 ^ (-e).toNat) d

def rneExp (n d : Nat) : Int :=
  let e0 : Int := (Nat.log2 n : Int) - (Nat.log2 d : Int) - 52
  if (scaledDiv n d e0).1 < P52 then e0 - 1 else e0

theorem rneM_eq (n d : Nat) (e : Int) :
    (if (decide (2 * (scaledDiv n d e).2.1 > (scaledDiv n d e).2.2) ||
          (decide (2 * (scaledDiv n d e).2.1 = (scaledDiv n d e).2.2) &&
            decide ((scaledDiv n d e).1 % 2 = 1))) = true
      then (scaledDiv n d e).1 + 1 else (scaledDiv n d e).1) = rneM n d e := by
  unfold rneM scaledDiv rneDiv
  split <;> simp only [Bool.or_eq_true, Bool.and_eq_true, decide_eq_true_eq]

theorem rne_eq (n d : Nat) (hn : n ≠ 0) :
    rne n d = (if rneM n d (rneExp n d) = P53 then ⟨P52, rneExp n d + 1⟩ else ⟨rneM n d (rneExp n d), rneExp n d⟩) := by
  unfold rne rneExp
  rw [if_neg hn]
  simp only []
  generalize (if (scaledDiv n d (↑n.log2 - ↑d.log2 - 52)).fst < P52 then (↑n.log2 - ↑d.log2 - 52 - 1 : Int)
                              else ↑n.log2 - ↑d.log2 - 52) = e
  rw [rneM_eq]

theorem log2_one : Nat.log2 1 = 0 := Nat.log2_two_pow (n := 0)

theorem log2_mul_two_pow (N s : Nat) (hN : N ≠ 0) : (N * 2 ^ s).log2 = N.log2 + s := by
  have hT : 0 < 2 ^ s := Nat.two_pow_pos s
  have hne : N * 2 ^ s ≠ 0 := Nat.mul_ne_zero hN (Nat.ne_of_gt hT)
  rw [Nat.log2_eq_iff hne]
  constructor
  · rw [Nat.pow_add]; exact Nat.mul_le_mul_right _ (Nat.log2_self_le hN)
  · rw [Nat.add_right_comm, Nat.pow_add]
    exact Nat.mul_lt_mul_of_pos_right Nat.lt_log2_self hT

/-- mantissa normalisation bounds: `2^52 ≤ N·2^(52 - log2 N) < 2^53` -/
theorem norm_bounds (N : Nat) (hN : N ≠ 0) (hlt : N < P53) :
    N.log2 ≤ 52 ∧ P52 ≤ N * 2 ^ (52 - N.log2) ∧ N * 2 ^ (52 - N.log2) < P53 := by
  have hk : N.log2 < 53 := (Nat.log2_lt hN).2 (by simpa [P53] using hlt)
  have hk' : N.log2 ≤ 52 := by omega
  refine ⟨hk', ?_, ?_⟩
  · have : 2 ^ N.log2 * 2 ^ (52 - N.log2) ≤ N * 2 ^ (52 - N.log2) :=
      Nat.mul_le_mul_right _ (Nat.log2_self_le hN)
    rw [← Nat.pow_add, show N.log2 + (52 - N.log2) = 52 by omega] at this
    exact this
  · have : N * 2 ^ (52 - N.log2) < 2 ^ (N.log2 + 1) * 2 ^ (52 - N.log2) :=
      Nat.mul_lt_mul_of_pos_right Nat.lt_log2_self (Nat.two_pow_pos _)
    rw [← Nat.pow_add, show N.log2 + 1 + (52 - N.log2) = 53 by omega] at this
    exact this

theorem log2_norm (N : Nat) (hN : N ≠ 0) (hlt : N < P53) : (N * 2 ^ (52 - N.log2)).log2 = 52 := by
  rw [log2_mul_two_pow N _ hN]
  have := (norm_bounds N hN hlt).1
  omega

/-- scaled quotient of `N·2^s / 1` at exponent `k + s - 52` is exactly `N·2^(52-k)` -/
theorem scaledDiv_fst_exact (N s k : Nat) (hk : k ≤ 52) :
    (scaledDiv (N * 2 ^ s) 1 ((k : Int) + s - 52)).1 = N * 2 ^ (52 - k) := by
  unfold scaledDiv
  split
  · rename_i h
    have e1 : ((k : Int) + s - 52).toNat = k + s - 52 := by omega
    have e2 : s = (52 - k) + (k + s - 52) := by omega
    simp only [e1, Nat.one_mul]
    have e3 : N * 2 ^ s = N * 2 ^ (52 - k) * 2 ^ (k + s - 52) := by
      conv => lhs; rw [e2, Nat.pow_add, ← Nat.mul_assoc]
    rw [e3]
    exact Nat.mul_div_cancel _ (Nat.two_pow_pos _)
  · rename_i h
    have e1 : (-((k : Int) + s - 52)).toNat = 52 - k - s := by omega
    have e2 : s + (52 - k - s) = 52 - k := by omega
    simp only [e1, Nat.div_one]
    rw [Nat.mul_assoc, ← Nat.pow_add, e2]

theorem rneM_exact (N s k : Nat) (hk : k ≤ 52) :
    rneM (N * 2 ^ s) 1 ((k : Int) + s - 52) = N * 2 ^ (52 - k) := by
  unfold rneM
  split
  · rename_i h
    have e1 : ((k : Int) + s - 52).toNat = k + s - 52 := by omega
    have e2 : s = (52 - k) + (k + s - 52) := by omega
    simp only [e1, Nat.one_mul]
    have hT := Nat.two_pow_pos (k + s - 52)
    have e3 : N * 2 ^ s = N * 2 ^ (52 - k) * 2 ^ (k + s - 52) := by
      conv => lhs; rw [e2, Nat.pow_add, ← Nat.mul_assoc]
    rw [e3, rneDiv_of_dvd_rem hT (Nat.mul_mod_left _ _)]
    exact Nat.mul_div_cancel _ hT
  · rename_i h
    have e1 : (-((k : Int) + s - 52)).toNat = 52 - k - s := by omega
    have e2 : s + (52 - k - s) = 52 - k := by omega
    simp only [e1]
    rw [rneDiv_of_dvd_rem (by decide) (Nat.mod_one _), Nat.div_one, Nat.mul_assoc, ← Nat.pow_add, e2]

/-- `rne` of an integer `N < 2^53` times a power of two is exact. -/
theorem rne_exact (N s : Nat) (hN : N ≠ 0) (hlt : N < P53) :
    rne (N * 2 ^ s) 1 = ⟨N * 2 ^ (52 - N.log2), (N.log2 : Int) + s - 52⟩ := by
  obtain ⟨hk, hlo, hhi⟩ := norm_bounds N hN hlt
  have hne : N * 2 ^ s ≠ 0 := Nat.mul_ne_zero hN (Nat.ne_of_gt (Nat.two_pow_pos s))
  have hexp : rneExp (N * 2 ^ s) 1 = (N.log2 : Int) + s - 52 := by
    unfold rneExp
    simp only [log2_mul_two_pow N s hN, log2_one]
    have e0 : ((N.log2 + s : Nat) : Int) - ((0 : Nat) : Int) - 52 = (N.log2 : Int) + s - 52 := by omega
    rw [e0, scaledDiv_fst_exact N s _ hk, if_neg (by omega)]
  rw [rne_eq _ _ hne, hexp, rneM_exact N s _ hk, if_neg (by omega)]

theorem ofNat_exact (N : Nat) (hN : N ≠ 0) (hlt : N < P53) :
    F64.ofNat N = ⟨N * 2 ^ (52 - N.log2), (N.log2 : Int) - 52⟩ := by
  have := rne_exact N 0 hN hlt
  simp only [Nat.pow_zero, Nat.mul_one] at this
  unfold F64.ofNat
  rw [this]
  congr 1 <;> omega

/-- the product of two exactly-represented integers is exact when it stays below `2^53` -/
theorem mul_exact (a b : Nat) (ha : a ≠ 0) (hb : b ≠ 0) (hab : a * b < P53) :
    F64.mul (F64.ofNat a) (F64.ofNat b) = F64.ofNat (a * b) := by
  have hab0 : a * b ≠ 0 := Nat.mul_ne_zero ha hb
  have hapos : 0 < a := Nat.pos_of_ne_zero ha
  have hbpos : 0 < b := Nat.pos_of_ne_zero hb
  have ha53 : a < P53 := Nat.lt_of_le_of_lt (Nat.le_mul_of_pos_right a hbpos) hab
  have hb53 : b < P53 := Nat.lt_of_le_of_lt (Nat.le_mul_of_pos_left b hapos) hab
  have hka := (norm_bounds a ha ha53).1
  have hkb := (norm_bounds b hb hb53).1
  have hkab := (norm_bounds (a * b) hab0 hab).1
  rw [ofNat_exact a ha ha53, ofNat_exact b hb hb53, ofNat_exact (a * b) hab0 hab]
  unfold F64.mul
  simp only []
  have e : a * 2 ^ (52 - a.log2) * (b * 2 ^ (52 - b.log2)) = (a * b) * 2 ^ ((52 - a.log2) + (52 - b.log2)) := by
    rw [Nat.pow_add, Nat.mul_mul_mul_comm]
  rw [e, rne_exact (a * b) _ hab0 hab]
  simp only []
  congr 1
  omega

def U64MAX : Nat := 18446744073709551615

/-- value computed by `toU64` before saturation -/
theorem toU64_shift (m J : Nat) (h : m / 2 ^ J ≤ U64MAX) : F64.toU64 ⟨m, -(J : Int)⟩ = m / 2 ^ J := by
  unfold F64.toU64
  simp only []
  have hv : (if -(J : Int) ≥ 0 then m * 2 ^ (-(J : Int)).toNat else m / 2 ^ (-(-(J : Int))).toNat) = m / 2 ^ J := by
    split
    · rename_i h0
      have : J = 0 := by omega
      subst this
      simp
    · have : (-(-(J : Int))).toNat = J := by omega
      rw [this]
  rw [hv, if_neg (by unfold U64MAX at h; omega)]

theorem toU64_carry (J : Nat) : F64.toU64 ⟨P52, 1 - (J : Int)⟩ = P53 / 2 ^ J := by
  have hle : P53 / 2 ^ J ≤ U64MAX := Nat.le_trans (Nat.div_le_self _ _) (by decide)
  unfold F64.toU64
  simp only []
  have hv : (if 1 - (J : Int) ≥ 0 then P52 * 2 ^ (1 - (J : Int)).toNat else P52 / 2 ^ (-(1 - (J : Int))).toNat) = P53 / 2 ^ J := by
    split
    · rename_i h0
      have : J = 0 ∨ J = 1 := by omega
      rcases this with h | h <;> subst h <;> decide
    · rename_i h0
      have e1 : (-(1 - (J : Int))).toNat = J - 1 := by omega
      have e2 : J = (J - 1) + 1 := by omega
      rw [e1]
      conv => rhs; rw [e2, Nat.pow_succ, show P53 = P52 * 2 from by decide]
      rw [Nat.mul_div_mul_right _ _ (by decide)]
  rw [hv, if_neg (by unfold U64MAX at hle; omega)]

theorem rneExp_mant (n d : Nat) (hn : n.log2 = 52) (hd : d.log2 = 52) :
    rneExp n d = -((52 : Nat) : Int) ∨ rneExp n d = -((53 : Nat) : Int) := by
  unfold rneExp
  simp only [hn, hd]
  split <;> omega

theorem rneM_neg (n d j : Nat) (hj : 0 < j) : rneM n d (-(j : Int)) = rneDiv (n * 2 ^ j) d := by
  unfold rneM
  rw [if_neg (by omega)]
  have : (-(-(j : Int))).toNat = j := by omega
  rw [this]

/-- THE float fact: for integers `0 < P, c < 2^53`, the binary64 quotient of (the exact floats)
    `P` and `c`, truncated to an integer, is the integer quotient `P / c`. -/
theorem div_toU64 (P c : Nat) (hP : P ≠ 0) (hP53 : P < P53) (hc : c ≠ 0) (hc53 : c < P53) :
    F64.toU64 (F64.div (F64.ofNat P) (F64.ofNat c)) = P / c := by
  obtain ⟨hkP, hPlo, hPhi⟩ := norm_bounds P hP hP53
  obtain ⟨hkc, hclo, hchi⟩ := norm_bounds c hc hc53
  have hln := log2_norm P hP hP53
  have hld := log2_norm c hc hc53
  rw [ofNat_exact P hP hP53, ofNat_exact c hc hc53]
  unfold F64.div
  simp only []
  have hn0 : P * 2 ^ (52 - P.log2) ≠ 0 := by unfold P52 at hPlo; omega
  rw [rne_eq _ _ hn0]
  have key : ∀ j : Nat, (j = 52 ∨ j = 53) →
      rneM (P * 2 ^ (52 - P.log2)) (c * 2 ^ (52 - c.log2)) (-(j : Int)) = rneDiv (P * 2 ^ (j + c.log2 - P.log2)) c ∧
      rneDiv (P * 2 ^ (j + c.log2 - P.log2)) c / 2 ^ (j + c.log2 - P.log2) = P / c := by
    intro j hj
    constructor
    · rw [rneM_neg _ _ j (by omega)]
      have e : P * 2 ^ (52 - P.log2) * 2 ^ j = P * 2 ^ (j + c.log2 - P.log2) * 2 ^ (52 - c.log2) := by
        rw [Nat.mul_assoc, Nat.mul_assoc, ← Nat.pow_add, ← Nat.pow_add]
        congr 2
        omega
      rw [e, rneDiv_mul_right _ _ _ (Nat.two_pow_pos _)]
    · apply rneDiv_shift_floor P c _ (Nat.pos_of_ne_zero hc)
      exact Nat.lt_of_lt_of_le Nat.lt_log2_self (Nat.pow_le_pow_right (by decide) (by omega))
  have hq : P / c ≤ U64MAX := Nat.le_trans (Nat.div_le_self _ _) (by unfold U64MAX; unfold P53 at hP53; omega)
  rcases rneExp_mant _ _ hln hld with he | he <;> rw [he]
  · obtain ⟨k1, k2⟩ := key 52 (Or.inl rfl)
    rw [k1]
    split
    · rename_i hm
      rw [hm] at k2
      simp only []
      have : -((52 : Nat) : Int) + 1 + ((P.log2 : Int) - 52) - ((c.log2 : Int) - 52) = 1 - ((52 + c.log2 - P.log2 : Nat) : Int) := by omega
      rw [this, toU64_carry, k2]
    · simp only []
      have : -((52 : Nat) : Int) + ((P.log2 : Int) - 52) - ((c.log2 : Int) - 52) = - ((52 + c.log2 - P.log2 : Nat) : Int) := by omega
      rw [this, toU64_shift _ _ (by rw [k2]; exact hq), k2]
  · obtain ⟨k1, k2⟩ := key 53 (Or.inr rfl)
    rw [k1]
    split
    · rename_i hm
      rw [hm] at k2
      simp only []
      have : -((53 : Nat) : Int) + 1 + ((P.log2 : Int) - 52) - ((c.log2 : Int) - 52) = 1 - ((53 + c.log2 - P.log2 : Nat) : Int) := by omega
      rw [this, toU64_carry, k2]
    · simp only []
      have : -((53 : Nat) : Int) + ((P.log2 : Int) - 52) - ((c.log2 : Int) - 52) = - ((53 + c.log2 - P.log2 : Nat) : Int) := by omega
      rw [this, toU64_shift _ _ (by rw [k2]; exact hq), k2]

end TcVerif
