/-
  Helper lemmas for C16: the denied-key tracker (`TopDeniedKeys`) as relations over association
  lists, the run invariant, exactness while few keys, the deterministic instance, the checkers.
-/
import TcVerif.Model.Metrics

namespace TcVerif.Metrics
open TcVerif.Gen

/-! ## the constants, pinned to the property's own numbers -/

theorem maxKeyLength_eq : METRICS_MAX_KEY_LENGTH = 256 := rfl
theorem growthFactor_eq : METRICS_GROWTH_FACTOR = 3 := rfl
theorem deniedLimit_eq : METRICS_MAX_DENIED_KEYS_LIMIT = 10000 := rfl

/-! ## `cnt` and `KeysNodup` -/

theorem cnt_cons (a : Key) (b : Nat) (t : Table) (k : Key) :
    cnt ((a, b) :: t) k = (if a = k then b else 0) + cnt t k := rfl

theorem keysNodup_cons (a : Key) (b : Nat) (t : Table) :
    KeysNodup ((a, b) :: t) ↔ a ∉ t.map (·.1) ∧ KeysNodup t := by
  simp [KeysNodup, List.nodup_cons]

theorem keysNodup_nil : KeysNodup [] := by simp [KeysNodup]

theorem keysNodup_perm {t t' : Table} (h : t.Perm t') : KeysNodup t ↔ KeysNodup t' := by
  unfold KeysNodup
  exact (h.map _).nodup_iff

theorem mem_keys_of_mem {t : Table} {e : Key × Nat} (h : e ∈ t) : e.1 ∈ t.map (·.1) :=
  List.mem_map_of_mem h

theorem cnt_perm {t t' : Table} (h : t.Perm t') (k : Key) : cnt t k = cnt t' k := by
  induction h with
  | nil => rfl
  | cons x _ ih => obtain ⟨a, b⟩ := x; simp only [cnt_cons, ih]
  | swap x y l =>
    obtain ⟨a, b⟩ := x; obtain ⟨c, d⟩ := y
    simp only [cnt_cons]; omega
  | trans _ _ ih1 ih2 => rw [ih1, ih2]

theorem cnt_eq_zero_of_not_mem {t : Table} {k : Key} (h : k ∉ t.map (·.1)) : cnt t k = 0 := by
  induction t with
  | nil => rfl
  | cons x t ih =>
    obtain ⟨a, b⟩ := x
    simp only [List.map_cons, List.mem_cons, not_or] at h
    rw [cnt_cons, if_neg (fun hh => h.1 hh.symm), ih h.2]

theorem cnt_of_mem {t : Table} {k : Key} {n : Nat} (hn : KeysNodup t) (h : (k, n) ∈ t) :
    cnt t k = n := by
  induction t with
  | nil => cases h
  | cons x t ih =>
    obtain ⟨a, b⟩ := x
    rw [keysNodup_cons] at hn
    rw [cnt_cons]
    rcases List.mem_cons.mp h with h | h
    · cases h
      rw [if_pos rfl, cnt_eq_zero_of_not_mem hn.1]; omega
    · have hk : k ∈ t.map (·.1) := mem_keys_of_mem h
      have : a ≠ k := fun hh => hn.1 (hh ▸ hk)
      rw [if_neg this, ih hn.2 h]; omega

theorem mem_of_cnt_pos {t : Table} {k : Key} (hn : KeysNodup t) (h : 0 < cnt t k) :
    (k, cnt t k) ∈ t := by
  induction t with
  | nil => simp [cnt] at h
  | cons x t ih =>
    obtain ⟨a, b⟩ := x
    rw [keysNodup_cons] at hn
    rw [cnt_cons] at h ⊢
    by_cases hak : a = k
    · subst hak
      rw [if_pos rfl, cnt_eq_zero_of_not_mem hn.1]
      simp
    · rw [if_neg hak] at h ⊢
      simp only [Nat.zero_add] at h ⊢
      exact List.mem_cons_of_mem _ (ih hn.2 h)

theorem mem_keys_of_cnt_pos {t : Table} {k : Key} (h : 0 < cnt t k) : k ∈ t.map (·.1) := by
  apply Classical.byContradiction
  intro hn
  rw [cnt_eq_zero_of_not_mem hn] at h
  omega

/-! ## `bumpKey` -/

theorem bumpKey_nil (k : Key) : bumpKey [] k = [(k, 1)] := rfl

theorem bumpKey_cons (a : Key) (b : Nat) (t : Table) (k : Key) :
    bumpKey ((a, b) :: t) k = if a = k then (a, b + 1) :: t else (a, b) :: bumpKey t k := rfl

theorem mem_keys_bumpKey (t : Table) (k x : Key) :
    x ∈ (bumpKey t k).map (·.1) ↔ x = k ∨ x ∈ t.map (·.1) := by
  induction t with
  | nil => simp [bumpKey]
  | cons e t ih =>
    obtain ⟨a, b⟩ := e
    rw [bumpKey_cons]
    split
    · next h => subst h; simp
    · next h =>
      simp only [List.map_cons, List.mem_cons, ih]
      constructor
      · rintro (h | h | h) <;> simp [h]
      · rintro (h | h | h) <;> simp [h]

theorem keysNodup_bumpKey {t : Table} (k : Key) (hn : KeysNodup t) : KeysNodup (bumpKey t k) := by
  induction t with
  | nil => simp [bumpKey, KeysNodup]
  | cons e t ih =>
    obtain ⟨a, b⟩ := e
    rw [keysNodup_cons] at hn
    rw [bumpKey_cons]
    split
    · rw [keysNodup_cons]; exact hn
    · next h =>
      rw [keysNodup_cons, mem_keys_bumpKey]
      exact ⟨fun hh => hh.elim h hn.1, ih hn.2⟩

theorem length_bumpKey_le (t : Table) (k : Key) : (bumpKey t k).length ≤ t.length + 1 := by
  induction t with
  | nil => simp [bumpKey]
  | cons e t ih =>
    obtain ⟨a, b⟩ := e
    rw [bumpKey_cons]
    split <;> simp only [List.length_cons] <;> omega

theorem length_le_bumpKey (t : Table) (k : Key) : t.length ≤ (bumpKey t k).length := by
  induction t with
  | nil => simp
  | cons e t ih =>
    obtain ⟨a, b⟩ := e
    rw [bumpKey_cons]
    split <;> simp only [List.length_cons] <;> omega

theorem cnt_bumpKey (t : Table) (k x : Key) :
    cnt (bumpKey t k) x = cnt t x + if k = x then 1 else 0 := by
  induction t with
  | nil => simp [bumpKey, cnt]
  | cons e t ih =>
    obtain ⟨a, b⟩ := e
    rw [bumpKey_cons]
    split
    · next h =>
      subst h
      simp only [cnt_cons]
      split <;> omega
    · simp only [cnt_cons, ih]; omega

theorem mem_bumpKey {t : Table} {k : Key} {e : Key × Nat} (h : e ∈ bumpKey t k) :
    e ∈ t ∨ (∃ n, (k, n) ∈ t ∧ e = (k, n + 1)) ∨ e = (k, 1) := by
  induction t with
  | nil => simp [bumpKey] at h; simp [h]
  | cons x t ih =>
    obtain ⟨a, b⟩ := x
    rw [bumpKey_cons] at h
    split at h
    · next hak =>
      subst hak
      rcases List.mem_cons.mp h with h | h
      · exact Or.inr (Or.inl ⟨b, by simp, h⟩)
      · exact Or.inl (List.mem_cons_of_mem _ h)
    · rcases List.mem_cons.mp h with h | h
      · exact Or.inl (by simp [h])
      · rcases ih h with h | ⟨n, hm, he⟩ | h
        · exact Or.inl (List.mem_cons_of_mem _ h)
        · exact Or.inr (Or.inl ⟨n, List.mem_cons_of_mem _ hm, he⟩)
        · exact Or.inr (Or.inr h)

/-! ## `ValidStep` by cases, with the property's numbers -/

theorem validStep_iff (max : Nat) (t : Table) (k : Key) (t' : Table) :
    ValidStep max t k t' ↔
      KeysNodup t ∧
      ((256 < k.length ∧ t'.Perm t) ∨
       (k.length ≤ 256 ∧ 3 * max < (bumpKey t k).length ∧ ValidCleanup max (bumpKey t k) t') ∨
       (k.length ≤ 256 ∧ (bumpKey t k).length ≤ 3 * max ∧ t'.Perm (bumpKey t k))) := by
  unfold ValidStep
  rw [maxKeyLength_eq, growthFactor_eq]
  constructor
  · rintro ⟨hn, h⟩
    refine ⟨hn, ?_⟩
    split at h
    · next hl => exact Or.inl ⟨hl, h⟩
    · next hl =>
      split at h
      · next hc => exact Or.inr (Or.inl ⟨by omega, by omega, h⟩)
      · next hc => exact Or.inr (Or.inr ⟨by omega, by omega, h⟩)
  · rintro ⟨hn, h⟩
    refine ⟨hn, ?_⟩
    rcases h with ⟨hl, h⟩ | ⟨hl, hc, h⟩ | ⟨hl, hc, h⟩
    · rw [if_pos hl]; exact h
    · rw [if_neg (by omega), if_pos (by omega)]; exact h
    · rw [if_neg (by omega), if_neg (by omega)]; exact h

/-! ## ghost counts -/

theorem count_snoc (s : List Key) (k x : Key) :
    (s ++ [k]).count x = s.count x + if k = x then 1 else 0 := by
  simp only [List.count_append, List.count_cons, List.count_nil, beq_iff_eq]
  omega

/-- what the run invariant says about one entry -/
def EntryOK (stream : List Key) (e : Key × Nat) : Prop :=
  1 ≤ e.2 ∧ e.2 ≤ trueCount stream e.1 ∧ e.1.length ≤ 256

theorem entryOK_snoc_of_mem {s : List Key} {e : Key × Nat} (k : Key) (h : EntryOK s e) :
    EntryOK (s ++ [k]) e := by
  obtain ⟨h1, h2, h3⟩ := h
  refine ⟨h1, ?_, h3⟩
  unfold trueCount at *
  rw [count_snoc]; omega

theorem entryOK_bumpKey {s : List Key} {t : Table} {k : Key} (hk : k.length ≤ 256)
    (hall : ∀ e ∈ t, EntryOK s e) : ∀ e ∈ bumpKey t k, EntryOK (s ++ [k]) e := by
  intro e he
  rcases mem_bumpKey he with h | ⟨n, hm, rfl⟩ | rfl
  · exact entryOK_snoc_of_mem k (hall e h)
  · obtain ⟨h1, h2, h3⟩ := hall _ hm
    refine ⟨by simp, ?_, hk⟩
    unfold trueCount at *
    rw [count_snoc]; simp only [if_pos]; simp at h2 ⊢; omega
  · refine ⟨Nat.le_refl _, ?_, hk⟩
    unfold trueCount
    rw [count_snoc]; simp

/-- the run invariant: distinct keys, size bound, every entry counted at least once, at most its
    true count, key not too long -/
theorem run_inv {max : Nat} {s : List Key} {t : Table} (h : Run max s t) :
    KeysNodup t ∧ t.length ≤ 3 * max ∧ ∀ e ∈ t, EntryOK s e := by
  induction h with
  | nil => exact ⟨keysNodup_nil, Nat.zero_le _, fun e he => by cases he⟩
  | @snoc s t t' k _ hv ih =>
    obtain ⟨hn, hlen, hall⟩ := ih
    rw [validStep_iff] at hv
    rcases hv.2 with ⟨_, hp⟩ | ⟨hk, _, hc⟩ | ⟨hk, hc, hp⟩
    · refine ⟨(keysNodup_perm hp).mpr hn, by rw [hp.length_eq]; exact hlen, ?_⟩
      intro e he
      exact entryOK_snoc_of_mem k (hall e (hp.mem_iff.mp he))
    · obtain ⟨hn', hsub, hl', _⟩ := hc
      refine ⟨hn', by rw [hl']; omega, ?_⟩
      intro e he
      exact entryOK_bumpKey hk hall e (hsub e he)
    · refine ⟨(keysNodup_perm hp).mpr (keysNodup_bumpKey k hn), by rw [hp.length_eq]; exact hc, ?_⟩
      intro e he
      exact entryOK_bumpKey hk hall e (hp.mem_iff.mp he)

/-- inside one update, before a possible cleanup, the map holds at most `3*max + 1` entries -/
theorem run_inner_bound {max : Nat} {s : List Key} {t : Table} (h : Run max s t) (k : Key) :
    (bumpKey t k).length ≤ 3 * max + 1 := by
  have := (run_inv h).2.1
  have := length_bumpKey_le t k
  omega

/-! ## exactness while the distinct keys fit -/

theorem mem_distinctKeys (s : List Key) : ∀ k : Key, k ∈ distinctKeys s ↔ k ∈ s := by
  induction s with
  | nil => intro k; simp [distinctKeys]
  | cons a s ih =>
    intro k
    simp only [distinctKeys]
    split
    · next h =>
      have ha := (ih a).mp h
      rw [ih k]
      simp only [List.mem_cons]
      constructor
      · exact Or.inr
      · rintro (rfl | h')
        · exact ha
        · exact h'
    · simp only [List.mem_cons, ih k]

theorem nodup_distinctKeys (s : List Key) : (distinctKeys s).Nodup := by
  induction s with
  | nil => simp [distinctKeys]
  | cons a s ih =>
    simp only [distinctKeys]
    split
    · exact ih
    · next h => exact List.nodup_cons.mpr ⟨h, ih⟩

theorem mem_shortKeys (s : List Key) (k : Key) : k ∈ shortKeys s ↔ k ∈ s ∧ k.length ≤ 256 := by
  unfold shortKeys
  rw [maxKeyLength_eq]
  simp only [List.mem_filter, decide_eq_true_eq]

/-- the table is exact w.r.t. the stream -/
def Exact (s : List Key) (t : Table) : Prop :=
  ∀ k, cnt t k = if k.length ≤ 256 then trueCount s k else 0

/-- if all tracked keys of the stream lie in a set of at most `max` keys, the table is exact -/
theorem run_exact {max : Nat} {s : List Key} {t : Table} (h : Run max s t)
    (l : List Key) (hl : l.length ≤ max) (hcover : ∀ k ∈ s, k.length ≤ 256 → k ∈ l) :
    Exact s t := by
  induction h with
  | nil => intro k; simp [cnt, trueCount]
  | @snoc s t t' k hr hv ih =>
    have ih := ih (fun x hx => hcover x (by simp [hx]))
    obtain ⟨hn, _, hall⟩ := run_inv hr
    rw [validStep_iff] at hv
    rcases hv.2 with ⟨hk, hp⟩ | ⟨hk, hc, _⟩ | ⟨hk, _, hp⟩
    · intro x
      rw [cnt_perm hp, ih x]
      unfold trueCount
      rw [count_snoc]
      split
      · next hx => rw [if_neg (by intro hh; subst hh; omega)]; rfl
      · rfl
    · -- a cleanup is impossible: all keys of the bumped table lie in `l`
      exfalso
      have hn' := keysNodup_bumpKey k hn
      have hsub : (bumpKey t k).map (·.1) ⊆ l := by
        intro x hx
        rw [mem_keys_bumpKey] at hx
        rcases hx with rfl | hx
        · exact hcover x (by simp) hk
        · obtain ⟨e, he, rfl⟩ := List.mem_map.mp hx
          obtain ⟨h1, h2, h3⟩ := hall e he
          have : 0 < s.count e.1 := by unfold trueCount at h2; omega
          exact hcover e.1 (by simp [List.count_pos_iff.mp this]) h3
      have := List.Nodup.length_le_of_subset hn' hsub
      rw [List.length_map] at this
      omega
    · intro x
      rw [cnt_perm hp, cnt_bumpKey, ih x]
      unfold trueCount
      rw [count_snoc]
      by_cases hkx : k = x
      · subst hkx; simp [hk]
      · simp [hkx]

/-- a valid report of a table that fits is a permutation of it: nothing is omitted -/
theorem report_complete {max : Nat} {t : Table} {r : List (Key × Nat)} (hr : ValidReport max t r)
    (hfit : t.length ≤ max) : ∀ e ∈ t, e ∈ r := by
  obtain ⟨hn, hsub, hlen, _, _⟩ := hr
  intro e he
  apply Classical.byContradiction
  intro hne
  have hnd : r.Nodup := by
    have h0 : (r.map (·.1)).Pairwise (· ≠ ·) := hn
    rw [List.pairwise_map] at h0
    exact h0.imp (fun h hab => h (by rw [hab]))
  have hsub' : r ⊆ t.erase e := by
    intro x hx
    have hxe : x ≠ e := fun hh => hne (hh ▸ hx)
    exact (List.mem_erase_of_ne hxe).mpr (hsub x hx)
  have h1 := List.Nodup.length_le_of_subset hnd hsub'
  rw [List.length_erase_of_mem he] at h1
  have : 0 < t.length := List.length_pos_of_mem he
  rw [Nat.min_eq_right hfit] at hlen
  omega

/-- two duplicate-free lists with the same members have the same length -/
theorem length_eq_of_nodup_of_mem_iff {α : Type} {a b : List α} (ha : a.Nodup) (hb : b.Nodup)
    (h : ∀ x, x ∈ a ↔ x ∈ b) : a.length = b.length :=
  Nat.le_antisymm (List.Nodup.length_le_of_subset ha fun x hx => (h x).mp hx)
    (List.Nodup.length_le_of_subset hb fun x hx => (h x).mpr hx)

/-! ## deterministic instance -/

theorem insertDesc_perm (e : Key × Nat) (t : Table) : (insertDesc e t).Perm (e :: t) := by
  induction t with
  | nil => exact List.Perm.refl _
  | cons x t ih =>
    simp only [insertDesc]
    split
    · exact ((List.Perm.cons x ih).trans (List.Perm.swap e x t))
    · exact List.Perm.refl _

theorem sortDesc_perm (t : Table) : (sortDesc t).Perm t := by
  induction t with
  | nil => exact List.Perm.refl _
  | cons e t ih =>
    simp only [sortDesc]
    exact (insertDesc_perm e _).trans (List.Perm.cons e ih)

def Desc (l : List (Key × Nat)) : Prop := l.Pairwise (fun a b => a.2 ≥ b.2)

theorem insertDesc_sorted (e : Key × Nat) (t : Table) (h : Desc t) : Desc (insertDesc e t) := by
  induction t with
  | nil => simp [insertDesc, Desc]
  | cons x t ih =>
    unfold Desc at h ih ⊢
    rw [List.pairwise_cons] at h
    simp only [insertDesc]
    split
    · next hgt =>
      rw [List.pairwise_cons]
      refine ⟨?_, ih h.2⟩
      intro y hy
      rcases List.mem_cons.mp ((insertDesc_perm e t).mem_iff.mp hy) with rfl | hy
      · omega
      · exact h.1 y hy
    · next hle =>
      rw [List.pairwise_cons]
      refine ⟨?_, List.pairwise_cons.mpr h⟩
      intro y hy
      rcases List.mem_cons.mp hy with rfl | hy
      · omega
      · have := h.1 y hy; omega

theorem sortDesc_sorted (t : Table) : Desc (sortDesc t) := by
  induction t with
  | nil => simp [sortDesc, Desc]
  | cons e t ih => exact insertDesc_sorted e _ ih

/-- the first `max` entries of any descending permutation of `t` are a valid report / cleanup -/
theorem take_sorted_valid {max : Nat} {t s : Table} (hn : KeysNodup t) (hp : s.Perm t)
    (hs : Desc s) :
    KeysNodup (s.take max) ∧ (∀ e ∈ s.take max, e ∈ t) ∧
    (s.take max).length = min max t.length ∧ Desc (s.take max) ∧
    (∀ d ∈ t, d ∉ s.take max → ∀ r ∈ s.take max, d.2 ≤ r.2) := by
  refine ⟨?_, ?_, ?_, ?_, ?_⟩
  · have h1 : KeysNodup s := (keysNodup_perm hp).mpr hn
    exact List.Nodup.sublist ((List.take_sublist max s).map _) h1
  · intro e he
    exact hp.mem_iff.mp (List.mem_of_mem_take he)
  · rw [List.length_take, hp.length_eq]
  · exact List.Pairwise.sublist (List.take_sublist max s) hs
  · intro d hd hnd r hr
    have hds : d ∈ s.take max ++ s.drop max := by
      rw [List.take_append_drop]; exact hp.mem_iff.mpr hd
    have hdd : d ∈ s.drop max := by
      rcases List.mem_append.mp hds with h | h
      · exact absurd h hnd
      · exact h
    have hs' : Desc (s.take max ++ s.drop max) := by rw [List.take_append_drop]; exact hs
    unfold Desc at hs'
    rw [List.pairwise_append] at hs'
    exact hs'.2.2 r hr d hdd

theorem validReport_det {max : Nat} {t : Table} (hn : KeysNodup t) :
    ValidReport max t (reportDet max t) :=
  take_sorted_valid hn (sortDesc_perm t) (sortDesc_sorted t)

theorem validCleanup_det {max : Nat} {t : Table} (hn : KeysNodup t) :
    ValidCleanup max t (cleanupDet max t) := by
  unfold cleanupDet
  split
  · next h =>
    refine ⟨hn, fun e he => he, by omega, ?_⟩
    intro d hd hnd; exact absurd hd hnd
  · obtain ⟨h1, h2, h3, _, h5⟩ := take_sorted_valid (max := max) hn (sortDesc_perm t) (sortDesc_sorted t)
    exact ⟨h1, h2, h3, h5⟩

theorem validStep_det {max : Nat} {t : Table} (k : Key) (hn : KeysNodup t) :
    ValidStep max t k (stepDet max t k) := by
  unfold ValidStep stepDet
  refine ⟨hn, ?_⟩
  split
  · exact List.Perm.refl _
  · split
    · exact validCleanup_det (keysNodup_bumpKey k hn)
    · exact List.Perm.refl _

/-- the deterministic tracker run over a stream (oldest first) -/
def runDet (max : Nat) (stream : List Key) : Table := stream.foldl (stepDet max) []

theorem run_det_aux (max : Nat) (s s2 : List Key) (t : Table) (h : Run max s t) :
    Run max (s ++ s2) (s2.foldl (stepDet max) t) := by
  induction s2 generalizing s t with
  | nil => simpa using h
  | cons k s2 ih =>
    have := ih (s ++ [k]) (stepDet max t k) (Run.snoc h (validStep_det k (run_inv h).1))
    simpa using this

/-- the relations are inhabited: the deterministic instance is a run for every stream -/
theorem run_det (max : Nat) (stream : List Key) : Run max stream (runDet max stream) := by
  have := run_det_aux max [] stream [] Run.nil
  simpa [runDet] using this

/-! ## checkers -/

theorem checkStep_iff (max : Nat) (t : Table) (k : Key) (t' : Table) :
    checkStep max t k t' = true ↔ ValidStep max t k t' := by
  simp [checkStep]

theorem checkReport_iff (max : Nat) (t : Table) (r : List (Key × Nat)) :
    checkReport max t r = true ↔ ValidReport max t r := by
  simp [checkReport]

theorem checkCleanup_iff (max : Nat) (t t' : Table) :
    checkCleanup max t t' = true ↔ ValidCleanup max t t' := by
  simp [checkCleanup]

/-! ## builder / tracking disabled -/

theorem clampMax_le (n : Nat) : clampMax n ≤ 10000 := by
  unfold clampMax; rw [deniedLimit_eq]; omega

theorem clampMax_of_le {n : Nat} (h : n ≤ 10000) : clampMax n = n := by
  unfold clampMax; rw [deniedLimit_eq]; omega

theorem clampMax_of_ge {n : Nat} (h : 10000 ≤ n) : clampMax n = 10000 := by
  unfold clampMax; rw [deniedLimit_eq]; omega

theorem clampMax_eq_zero_iff (n : Nat) : clampMax n = 0 ↔ n = 0 := by
  unfold clampMax; rw [deniedLimit_eq]; omega

theorem mstep_top_none {m m' : Metrics} (h : MStep m m') (hn : m.top = none) : m'.top = none := by
  cases h with
  | withKey t allowed key top' hs =>
    rw [hn] at hs
    exact hs
  | noKey t allowed => exact hn
  | error t => exact hn

theorem disabled_top_none {n : Nat} {m : Metrics} (h : MReachable n m) (h0 : clampMax n = 0) :
    m.top = none := by
  induction h with
  | init => simp [build, h0]
  | step _ hs ih => exact mstep_top_none hs ih

/-- with tracking enabled the tracker of every reachable `Metrics` is a `Run` of the configured
    (clamped) size over the keys of the denied `record_request_with_key` calls -/
theorem enabled_top_run {n : Nat} {m : Metrics} (h : MReachable n m) (h0 : clampMax n ≠ 0) :
    ∃ td stream, m.top = some td ∧ td.maxSize = clampMax n ∧ Run (clampMax n) stream td.table := by
  induction h with
  | init => exact ⟨⟨[], clampMax n⟩, [], by simp [build, h0], rfl, Run.nil⟩
  | step _ hs ih =>
    obtain ⟨td, stream, htop, hmax, hrun⟩ := ih
    cases hs with
    | withKey t allowed key top' hst =>
      rw [htop] at hst
      simp only [TopStep] at hst
      cases allowed with
      | true =>
        simp only [if_true] at hst
        exact ⟨td, stream, hst, hmax, hrun⟩
      | false =>
        simp only [Bool.false_eq_true, if_false] at hst
        obtain ⟨t', hv, rfl⟩ := hst
        rw [hmax] at hv
        exact ⟨⟨t', td.maxSize⟩, stream ++ [key], rfl, hmax, Run.snoc hrun hv⟩
    | noKey t allowed => exact ⟨td, stream, htop, hmax, hrun⟩
    | error t => exact ⟨td, stream, htop, hmax, hrun⟩

end TcVerif.Metrics
