/-
  Everything one request does to a fixed-limits key's cell, in terms of the ideal bucket level:
  used by C03 (truthful fields), C04 (no-effect requests), C07 (lifetime).
-/
import TcVerif.Lemmas.History
namespace TcVerif

/-- the lifetime a store operation asks for (writes only) -/
def StoreOp.ttl? : StoreOp → Option Int
  | .get _ _ _ => none
  | .cas _ _ _ ttl _ _ => some ttl
  | .setnx _ _ ttl _ _ => some ttl

/-- the store operations issued by one call, given what `get` returned -/
def cellTrace (E : Int) (r : Req) (tv : Option Int) : List StoreOp :=
  [StoreOp.get r.key r.now tv] ++
    (if (decision E r tv).write then
      [match tv with
        | some old => StoreOp.cas r.key old (decision E r tv).newTat (decision E r tv).ttl r.now true
        | none => StoreOp.setnx r.key (decision E r tv).newTat (decision E r tv).ttl r.now true]
     else [])

theorem rlLoop_cell_trace (n : Nat) (c : Cell) (E : Int) (r : Req) (tr : List StoreOp) :
    (rlLoop Cell.ops (n + 1) c E r tr).2.2 = tr ++ cellTrace E r (Cell.ops.get c r.key r.now) := by
  simp only [rlLoop, cellTrace]
  by_cases hw : (decision E r (Cell.ops.get c r.key r.now)).write = true
  · simp only [hw, if_true]
    cases hlive : Cell.live c r.now with
    | none =>
      have hg : Cell.ops.get c r.key r.now = none := by simp [Cell.ops, hlive]
      simp only [hg] at hw ⊢
      simp [Cell.ops, hlive]
    | some p =>
      obtain ⟨v, e⟩ := p
      have hg : Cell.ops.get c r.key r.now = some v := by simp [Cell.ops, hlive]
      simp only [hg] at hw ⊢
      simp [Cell.ops, hlive]
  · simp only [hw]
    simp

theorem rateLimitE_cell_trace (c : Cell) (E : Int) (r : Req) (hv : r.valid) :
    (rateLimitE Cell.ops c E r).2.2 = cellTrace E r (Cell.ops.get c r.key r.now) := by
  obtain ⟨h1, h2, h3, h4⟩ := hv
  have hq : ¬ r.qty < 0 := by omega
  have hl : ¬ (r.burst ≤ 0 ∨ r.count ≤ 0 ∨ r.period ≤ 0) := by omega
  simp only [rateLimitE, hq, hl, if_false, maxRetries_pos]
  rw [rlLoop_cell_trace 9 c E r []]
  simp

/-- level of the ideal bucket right after the request `(now, q)` -/
def lvlAfter (B E : Int) (b : Option Bucket) (now q : Int) : Int :=
  if q * E ≤ Bucket.refill (B * E) b now then Bucket.refill (B * E) b now - q * E
  else Bucket.refill (B * E) b now

theorem bucket_step_state (B E : Int) (b : Option Bucket) (now q : Int) :
    (Bucket.step B E b now q).1 = some ⟨lvlAfter B E b now q, now⟩ := by
  simp only [Bucket.step, lvlAfter, decide_eq_true_eq]

/-- explicit description of one step of a fixed-limits key inside D -/
structure StepFacts (E B : Int) (c : Cell) (b : Option Bucket) (r : Req) : Prop where
  ok : (rateLimitE Cell.ops c E r).2.1.isOk = true
  limit : (rateLimitE Cell.ops c E r).2.1.limit = B
  /-- decision = bucket decision on the refilled level -/
  allowed : (rateLimitE Cell.ops c E r).2.1.allowed = decide (r.qty * E ≤ Bucket.refill (B * E) b r.now)
  /-- remaining = level after the request, in whole tokens -/
  remaining : (rateLimitE Cell.ops c E r).2.1.remaining = lvlAfter B E b r.now r.qty / E
  retry_zero : (rateLimitE Cell.ops c E r).2.1.allowed = true → (rateLimitE Cell.ops c E r).2.1.retryNs = 0
  retry_pos : (rateLimitE Cell.ops c E r).2.1.allowed = false → 0 < (rateLimitE Cell.ops c E r).2.1.retryNs
  /-- exact wait for a deniable request that fits the burst -/
  retry_exact : (rateLimitE Cell.ops c E r).2.1.allowed = false → r.qty ≤ B →
      (rateLimitE Cell.ops c E r).2.1.retryNs = r.qty * E - Bucket.refill (B * E) b r.now
  /-- reset_after = time to regain the full burst + (pad - E) -/
  reset : (rateLimitE Cell.ops c E r).2.1.resetNs =
      B * E - lvlAfter B E b r.now r.qty + (max (B * E - E) E - E)
  /-- state is written exactly for admitted requests of positive quantity; no-effect otherwise -/
  unchanged : ¬ (r.qty * E ≤ Bucket.refill (B * E) b r.now ∧ 0 < r.qty) → (rateLimitE Cell.ops c E r).1 = c
  /-- what is written: the new TAT with expiry `now + reset_after` -/
  written : (r.qty * E ≤ Bucket.refill (B * E) b r.now ∧ 0 < r.qty) →
      ∃ v, (rateLimitE Cell.ops c E r).1 = some (v, r.now + (rateLimitE Cell.ops c E r).2.1.resetNs)
  /-- the store operations: one `get`, plus one write carrying lifetime `reset_after` iff written -/
  trace : (rateLimitE Cell.ops c E r).2.2 =
      [StoreOp.get r.key r.now (Cell.ops.get c r.key r.now)] ++
      (if r.qty * E ≤ Bucket.refill (B * E) b r.now ∧ 0 < r.qty then
        [match Cell.ops.get c r.key r.now with
          | some old => StoreOp.cas r.key old (decision E r (Cell.ops.get c r.key r.now)).newTat
              (rateLimitE Cell.ops c E r).2.1.resetNs r.now true
          | none => StoreOp.setnx r.key (decision E r (Cell.ops.get c r.key r.now)).newTat
              (rateLimitE Cell.ops c E r).2.1.resetNs r.now true]
       else [])

theorem cell_step_facts {E B : Int} (c : Cell) (b : Option Bucket) (t : Int) (r : Req)
    (h : StepD E B t r) (hrel : Rel E B c b t) : StepFacts E B c b r := by
  obtain ⟨hD, hb, hv, hm, hn0, hn1⟩ := h
  have hE := hD.hE; have hB := hD.hB; have hBE := hD.hBE; have hEle := hD.E_le
  obtain ⟨hst, hout⟩ := rateLimitE_cell c E r hv
  have htr := rateLimitE_cell_trace c E r hv
  unfold cellTrace at htr
  have hreq : ReqD E B r (Cell.ops.get c r.key r.now) :=
    ⟨hD, hb, hv.1, hn0, hn1, get_cell_bounds hD c b t r.now r.key hrel hm hn1⟩
  have hlvl := refill_eq hD c b t r.now r.key hrel hm
  obtain ⟨be, hbe⟩ : ∃ be, be = B * E := ⟨_, rfl⟩
  obtain ⟨τ, hτ⟩ : ∃ τ, τ = B * E - E := ⟨_, rfl⟩
  obtain ⟨tat, htat⟩ : ∃ tat, tat = gTat E r.now (Cell.ops.get c r.key r.now) := ⟨_, rfl⟩
  obtain ⟨p, hp⟩ : ∃ p, p = E * r.qty := ⟨_, rfl⟩
  obtain ⟨pad, hpad⟩ : ∃ pad, pad = max τ E := ⟨_, rfl⟩
  have hpad1 : τ ≤ pad := by rw [hpad]; exact Int.le_max_left _ _
  have hpad2 : E ≤ pad := by rw [hpad]; exact Int.le_max_right _ _
  obtain ⟨d1, d2, d3, d4, d5, d6, d7, d8, d9, d10, d11, d12, d13⟩ := decision_D hreq τ tat p hτ htat hp
  rw [← hpad] at d4 d10
  have hp0 : 0 ≤ p := by rw [hp]; exact Int.mul_nonneg (by omega) hv.1
  have hpq : r.qty * E = p := by rw [hp]; exact Int.mul_comm _ _
  obtain ⟨lvl, hll⟩ : ∃ lvl, lvl = Bucket.refill (B * E) b r.now := ⟨_, rfl⟩
  rw [← htat, ← hll] at hlvl
  have hlvl_le : lvl ≤ be := by
    rw [hll, hbe]; unfold Bucket.refill; cases b <;> simp <;> omega
  have hlvl_ge : 0 ≤ lvl := by
    rw [hll]; unfold Bucket.refill
    cases b with
    | none => simp only; omega
    | some bk => have := hrel.2; simp only at this ⊢; omega
  have htat_lo : r.now - E ≤ tat := by
    rw [htat]; unfold gTat effTat; cases Cell.ops.get c r.key r.now <;> simp <;> omega
  have hsmall_of_fit : r.qty ≤ B → p ≤ TWO61 := by
    intro hqb
    have : E * r.qty ≤ E * B := Int.mul_le_mul_of_nonneg_left hqb (by omega)
    have hc : E * B = B * E := Int.mul_comm _ _
    bnd
  obtain ⟨d, hd⟩ : ∃ d, d = decision E r (Cell.ops.get c r.key r.now) := ⟨_, rfl⟩
  rw [← hd] at d1 d2 d3 d4 d5 d6 d7 d8 d9 d10 d11 d12 d13 hst hout htr
  have hallowed : d.allowed = decide (p ≤ lvl) := by
    by_cases hx : p ≤ lvl
    · have : d.allowed = true := d2.mpr (by omega)
      simp [this, hx]
    · have : ¬ d.allowed = true := fun hh => hx (by have := d2.mp hh; omega)
      simp [hx, this]
  have hreset : d.outcome.resetNs = B * E - (if p ≤ lvl then lvl - p else lvl) + (pad - E) := by
    rw [d10, hallowed]
    by_cases hx : p ≤ lvl <;> simp only [hx, decide_true, decide_false, if_true, if_false, Bool.false_eq_true] <;> omega
  have hwrite_iff : d.write = true ↔ (p ≤ lvl ∧ 0 < r.qty) := by
    rw [d5, hallowed]; simp
  constructor
  all_goals (try unfold lvlAfter)
  all_goals (try rw [hout])
  all_goals (try rw [hpq])
  all_goals (try rw [← hll])
  all_goals (try rw [← hτ, ← hpad])
  · exact d6
  · exact d8
  · rw [d7, hallowed]
  · -- remaining
    rw [d9, hallowed]
    by_cases hx : p ≤ lvl
    · simp only [hx, decide_true, if_true]
      have h0 : 0 ≤ lvl - p := by omega
      have : r.now + τ - (tat + p) = lvl - p := by omega
      rw [this, Int.tdiv_eq_ediv_of_nonneg h0]
      have := Int.ediv_nonneg h0 (by omega : (0 : Int) ≤ E)
      omega
    · simp only [hx, decide_false, Bool.false_eq_true, if_false]
      have : r.now + τ - tat = lvl := by omega
      rw [this, Int.tdiv_eq_ediv_of_nonneg hlvl_ge]
      have := Int.ediv_nonneg hlvl_ge (by omega : (0 : Int) ≤ E)
      omega
  · intro ha; rw [d7] at ha; exact d11 ha
  · intro ha; rw [d7] at ha; exact d13 ha
  · intro ha hqb; rw [d7] at ha
    rw [d12 ha (hsmall_of_fit hqb)]; omega
  · exact hreset
  · intro hno
    rw [hst]
    have : ¬ d.write = true := fun hw => hno (hwrite_iff.mp hw)
    simp [this]
  · intro hyes
    rw [hst]
    have hw : d.write = true := hwrite_iff.mpr hyes
    have hsm : p ≤ TWO61 := by bnd
    refine ⟨d.newTat, ?_⟩
    simp only [hw, if_true]
    rw [hreset, d4 hsm]
    simp only [hyes.1, if_true]
    congr 2
    omega
  · rw [htr]
    by_cases hyes : p ≤ lvl ∧ 0 < r.qty
    · have hw : d.write = true := hwrite_iff.mpr hyes
      have hsm : p ≤ TWO61 := by bnd
      have httl : d.ttl = d.outcome.resetNs := by
        rw [hreset, d4 hsm]; simp only [hyes.1, if_true]; omega
      simp only [hw, hyes, and_self, if_true, httl, ← hd]
    · have hw : ¬ d.write = true := fun hw => hyes (hwrite_iff.mp hw)
      simp only [hw, hyes, if_false, Bool.false_eq_true, ← hd]

end TcVerif
