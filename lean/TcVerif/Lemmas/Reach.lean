/-
  Reachable states of a fixed-limits key: the cell and the bucket after any history, and the
  bridge from "append a probe to the multi-key history" to "one more step on the key's cell".
-/
import TcVerif.Lemmas.CellStep
import TcVerif.Props.C05
namespace TcVerif

/-- store state after running a history -/
def stateAfter {σ : Type} (S : StoreOps σ) (ei : Int → Int → Int) : σ → List Req → σ
  | s, [] => s
  | s, r :: rs => stateAfter S ei (rateLimitE S s (ei r.count r.period) r).1 rs

def bucketAfter (B E : Int) : Option Bucket → List (Int × Int) → Option Bucket
  | b, [] => b
  | b, (t, q) :: rest => bucketAfter B E (Bucket.step B E b t q).1 rest

def lastTime : Int → List Req → Int
  | t0, [] => t0
  | _, r :: rs => lastTime r.now rs

theorem runTagged_append {σ : Type} (S : StoreOps σ) (ei : Int → Int → Int) (s : σ) (rs : List Req) (x : Req) :
    runTagged S ei s (rs ++ [x]) =
      runTagged S ei s rs ++ [(x, (rateLimitE S (stateAfter S ei s rs) (ei x.count x.period) x).2.1)] := by
  induction rs generalizing s with
  | nil => rfl
  | cons r rs ih => simp only [List.cons_append, runTagged, stateAfter, ih]

/-- **every reachable state of a fixed-limits key is related to a well-formed bucket** -/
theorem rel_after {ei : Int → Int → Int} {E B : Int} (rs : List Req) (t0 : Int) (c : Cell) (b : Option Bucket)
    (h : FixedD ei E B t0 rs) (hrel : Rel E B c b t0) :
    Rel E B (stateAfter Cell.ops ei c rs) (bucketAfter B E b (rs.map reqTQ)) (lastTime t0 rs) := by
  induction rs generalizing t0 c b with
  | nil => exact hrel
  | cons r rs ih =>
    obtain ⟨h1, h2, h3⟩ := h
    have hs := (cell_bucket_step c b t0 r h1 hrel).2.2.2.2
    simp only [stateAfter, List.map, reqTQ, bucketAfter, lastTime, h2]
    exact ih r.now _ _ h3 hs

theorem fixedD_lastTime {ei : Int → Int → Int} {E B : Int} (rs : List Req) (t0 : Int)
    (h : FixedD ei E B t0 rs) : t0 ≤ lastTime t0 rs := by
  induction rs generalizing t0 with
  | nil => exact Int.le_refl _
  | cons r rs ih =>
    obtain ⟨h1, _, h3⟩ := h
    have := ih r.now h3
    have := h1.mono
    simp only [lastTime]; omega

theorem fixedD_append {ei : Int → Int → Int} {E B : Int} (rs : List Req) (t0 : Int) (x : Req)
    (h : FixedD ei E B t0 (rs ++ [x])) :
    FixedD ei E B t0 rs ∧ StepD E B (lastTime t0 rs) x ∧ ei x.count x.period = E := by
  induction rs generalizing t0 with
  | nil => exact ⟨trivial, h.1, h.2.1⟩
  | cons r rs ih =>
    obtain ⟨h1, h2, h3⟩ := h
    obtain ⟨i1, i2, i3⟩ := ih r.now h3
    exact ⟨⟨h1, h2, i1⟩, i2, i3⟩

/-- **Bridge.** Appending a probe `x` on key `k` to ANY multi-key history on ANY store: the probe's
    response is one more step of `k`'s cell from the state `k`'s own requests left it in. -/
theorem probe_response (ei : Int → Int → Int) (k : Key) (rs : List Req) (x : Req) (t0 : Int)
    (st : AnyStore) (hst : st.data = []) (hm : MonotoneFrom t0 (rs ++ [x])) (hk : x.key = k) :
    (runTagged AnyStore.ops ei st (rs ++ [x])).getLast? =
      some (x, (rateLimitE Cell.ops (stateAfter Cell.ops ei none (rs.filter (fun r => r.key = k)))
                  (ei x.count x.period) x).2.1) := by
  have h1 := C05_projection_to_cell ei k (rs ++ [x]) t0 st hst hm
  have hf : (rs ++ [x]).filter (fun r => r.key = k) = rs.filter (fun r => r.key = k) ++ [x] := by
    simp [List.filter_append, hk]
  rw [hf, runTagged_append] at h1
  rw [runTagged_append] at h1 ⊢
  simp only [List.filter_append, List.filter, hk, decide_true] at h1
  have := congrArg List.getLast? h1
  simp only [List.getLast?_append, List.getLast?_singleton] at this
  simp only [List.getLast?_append, List.getLast?_singleton]
  simpa using this

end TcVerif
