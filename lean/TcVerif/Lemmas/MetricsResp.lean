/-
  Helper lemmas for C15: which metrics event the RESP command layer records
  (`process_command` of redis/mod.rs, repaired classification `Resp.metricOutcome`).
-/
import TcVerif.Model.Metrics
import TcVerif.Model.Resp

namespace TcVerif.Metrics
open TcVerif.Resp

/-- the call `record_request*(Transport::Redis, allowed, ..)` made for one RESP command:
    `v` the decoded command, `upper` the upper-cased command name, `a` the limiter's answer
    (`none` when the limiter was not asked) -/
def respEvent (v : Value) (upper : Option (List UInt8)) (a : Option ActorAnswer) : Event :=
  .request .redis (metricOutcome v upper a).1

/-- the key handed to the denied-key tracker together with that call -/
def respKey (v : Value) (upper : Option (List UInt8)) (a : Option ActorAnswer) :
    Option (List UInt8) :=
  (metricOutcome v upper a).2

theorem metric_allowed_false_iff (v : Value) (upper : Option (List UInt8))
    (a : Option ActorAnswer) :
    (metricOutcome v upper a).1 = false ↔
      ∃ req l r rs rt, plan v upper = .send req ∧ a = some (.ok false l r rs rt) := by
  unfold metricOutcome
  simp only
  split
  · next req l r rs rt hp =>
    simp only [true_iff]
    exact ⟨req, l, r, rs, rt, hp, rfl⟩
  · next hne =>
    simp only [Bool.true_eq_false, false_iff]
    rintro ⟨req, l, r, rs, rt, hp, rfl⟩
    exact hne req l r rs rt hp rfl

/-- only a THROTTLE with a bulk-string key and parsable numbers is sent to the limiter -/
theorem plan_send_is_throttle {v : Value} {upper : Option (List UInt8)} {req : ThrottleReq}
    (h : plan v upper = .send req) :
    ∃ c rest, v = .array (.bulk (some c) :: rest) ∧ upper = some b!"THROTTLE" ∧
      handleThrottle (.bulk (some c) :: rest) = .send req := by
  unfold plan at h
  split at h
  · cases h
  · next first rest =>
    split at h
    · next c up =>
      split at h
      · cases h
      · split at h
        · next hup => exact ⟨c, rest, rfl, by rw [hup], h⟩
        · split at h <;> cases h
    · cases h
  · cases h

theorem handleThrottle_send_key {args : List Value} {req : ThrottleReq}
    (h : handleThrottle args = .send req) :
    ∃ x rest, args = x :: .bulk (some req.key) :: rest := by
  unfold handleThrottle at h
  split at h
  · cases h
  · split at h
    · next x k a2 a3 a4 rest =>
      split at h
      · next key =>
        split at h
        · cases h
        · split at h
          · cases h
          · split at h
            · cases h
            · split at h
              · cases h; exact ⟨_, _, rfl⟩
              · split at h
                · cases h
                · cases h; exact ⟨_, _, rfl⟩
      · cases h
    · cases h

theorem metric_key_of_send {v : Value} {upper : Option (List UInt8)} {req : ThrottleReq}
    (a : Option ActorAnswer) (h : plan v upper = .send req) :
    (metricOutcome v upper a).2 = some req.key := by
  obtain ⟨c, rest, rfl, rfl, ht⟩ := plan_send_is_throttle h
  obtain ⟨x, rest', hx⟩ := handleThrottle_send_key ht
  simp only [List.cons.injEq] at hx
  obtain ⟨_, rfl⟩ := hx
  simp [metricOutcome]
end TcVerif.Metrics
