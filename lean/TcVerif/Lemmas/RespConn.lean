/-
  Connection loop: incremental draining of the buffer equals draining the whole stream
  (as long as the 64 KiB cap is not hit), buffer cap facts.  Everything is proved for a
  stateful limiter `actor : σ → ThrottleReq → ActorAnswer × σ`.
-/
import TcVerif.Lemmas.RespWF

namespace TcVerif.Resp

open TcVerif.Gen

/-! ## parser facts at top level -/

theorem parse_bound {d v n} (h : parse d = .ok v n) : 1 ≤ n ∧ n ≤ d.length :=
  (decode_ok RESP_MAX_DEPTH).bound d v n h

theorem parse_append_ok {d v n} (x : List UInt8) (h : parse d = .ok v n) :
    parse (d ++ x) = .ok v n := by
  unfold parse at h ⊢
  rw [(decode_ok RESP_MAX_DEPTH).append d x (by rw [h]; simp), h]

theorem parse_append_err {d} (x : List UInt8) (h : parse d = .error) :
    parse (d ++ x) = .error := by
  unfold parse at h ⊢
  rw [(decode_ok RESP_MAX_DEPTH).append d x (by rw [h]; simp), h]

theorem parse_take {d v n} (k : Nat) (h : parse d = .ok v n) (hk : n ≤ k) :
    parse (d.take k) = .ok v n :=
  (decode_ok RESP_MAX_DEPTH).take d v n k h hk

theorem parse_nil : parse [] = .incomplete := decode_nil _

theorem parse_wf {d v n} (h : parse d = .ok v n) : WF v := by
  have := decode_wf RESP_MAX_DEPTH d v n h
  simp only [WF, wf, this.1, Bool.true_and, decide_eq_true_eq]; exact this.2

/-- the commands of a stream: successive frames up to (and including) the first QUIT, stopping at
    the first malformed or unfinished frame.  Independent of the limiter. -/
def frames (upperOf : List UInt8 → List UInt8) : Nat → List UInt8 → List Value
  | fuel, s =>
    match parse s with
    | .ok v n =>
      if isQuit v (upperFor upperOf v) then [v]
      else
        match fuel with
        | 0 => [v]
        | f + 1 => v :: frames upperOf f (s.drop n)
    | _ => []

/-- replies to a command sequence, threading the limiter state -/
def replies {σ : Type} (actor : σ → ThrottleReq → ActorAnswer × σ)
    (upperOf : List UInt8 → List UInt8) : σ → List Value → List Value × σ
  | st, [] => ([], st)
  | st, v :: vs =>
    ((respondS actor upperOf st v).1 :: (replies actor upperOf (respondS actor upperOf st v).2 vs).1,
     (replies actor upperOf (respondS actor upperOf st v).2 vs).2)

def endOfDrain : DrainEnd → ConnEnd
  | .more r => .open r
  | .quit => .quit
  | .error => .protocolError

/-- chunkings of a stream: non-empty reads of at most 1024 bytes -/
def IsChunking (cs : List (List UInt8)) (s : List UInt8) : Prop :=
  cs.flatten = s ∧ ∀ c ∈ cs, c ≠ [] ∧ c.length ≤ RESP_READ_CHUNK

section
variable {σ : Type} (actor : σ → ThrottleReq → ActorAnswer × σ)
  (upperOf : List UInt8 → List UInt8)

/-! ## the drain loop -/

theorem drain_unfold (fuel : Nat) (st : σ) (buf : List UInt8) :
    drain actor upperOf fuel st buf =
      match parse buf with
      | .incomplete => ⟨[], .more buf, [buf.length], [], st⟩
      | .error => ⟨[], .error, [buf.length], [], st⟩
      | .ok v n =>
        if isQuit v (upperFor upperOf v) then
          ⟨encode (respondS actor upperOf st v).1, .quit, [buf.length], [v],
           (respondS actor upperOf st v).2⟩
        else
          match fuel with
          | 0 => ⟨encode (respondS actor upperOf st v).1, .more (buf.drop n), [buf.length], [v],
                  (respondS actor upperOf st v).2⟩
          | f + 1 =>
            ⟨encode (respondS actor upperOf st v).1
               ++ (drain actor upperOf f (respondS actor upperOf st v).2 (buf.drop n)).out,
             (drain actor upperOf f (respondS actor upperOf st v).2 (buf.drop n)).end,
             buf.length :: (drain actor upperOf f (respondS actor upperOf st v).2 (buf.drop n)).parsed,
             v :: (drain actor upperOf f (respondS actor upperOf st v).2 (buf.drop n)).cmds,
             (drain actor upperOf f (respondS actor upperOf st v).2 (buf.drop n)).st⟩ := by
  rw [drain]; rfl

theorem drain_incomplete {fuel : Nat} {st : σ} {buf : List UInt8} (h : parse buf = .incomplete) :
    drain actor upperOf fuel st buf = ⟨[], .more buf, [buf.length], [], st⟩ := by
  rw [drain_unfold, h]

/-- enough fuel is enough -/
theorem drain_fuel : ∀ (f g : Nat) (st : σ) (buf : List UInt8), buf.length ≤ f → buf.length ≤ g →
    drain actor upperOf f st buf = drain actor upperOf g st buf := by
  intro f
  induction f with
  | zero =>
    intro g st buf hf hg
    have : buf = [] := List.eq_nil_of_length_eq_zero (by omega)
    subst this
    rw [drain_incomplete actor upperOf parse_nil, drain_incomplete actor upperOf parse_nil]
  | succ f ih =>
    intro g st buf hf hg
    rw [drain_unfold actor upperOf (f + 1), drain_unfold actor upperOf g]
    cases hp : parse buf with
    | incomplete => rfl
    | error => rfl
    | ok v n =>
      have hb := parse_bound hp
      simp only
      split
      · rfl
      · cases g with
        | zero => omega
        | succ g =>
          simp only
          rw [ih g _ (buf.drop n) (by simp only [List.length_drop]; omega)
            (by simp only [List.length_drop]; omega)]

/-- the leftover of a drain is an incomplete frame prefix, no longer than the input -/
theorem drain_more : ∀ (f : Nat) (st : σ) (a r : List UInt8), a.length ≤ f →
    (drain actor upperOf f st a).end = .more r → parse r = .incomplete ∧ r.length ≤ a.length := by
  intro f
  induction f with
  | zero =>
    intro st a r hf h
    have : a = [] := List.eq_nil_of_length_eq_zero (by omega)
    subst this
    rw [drain_incomplete actor upperOf parse_nil] at h
    cases h; exact ⟨parse_nil, Nat.le_refl _⟩
  | succ f ih =>
    intro st a r hf h
    rw [drain_unfold] at h
    cases hp : parse a with
    | incomplete => rw [hp] at h; cases h; exact ⟨hp, Nat.le_refl _⟩
    | error => rw [hp] at h; cases h
    | ok v n =>
      have hb := parse_bound hp
      rw [hp] at h
      simp only at h
      split at h
      · cases h
      · have := ih _ (a.drop n) r (by simp only [List.length_drop]; omega) h
        simp only [List.length_drop] at this
        exact ⟨this.1, by omega⟩

theorem drain_parsed_le : ∀ (f : Nat) (st : σ) (a : List UInt8),
    ∀ n ∈ (drain actor upperOf f st a).parsed, n ≤ a.length := by
  intro f
  induction f with
  | zero =>
    intro st a n hn
    rw [drain_unfold] at hn
    cases hp : parse a with
    | incomplete => rw [hp] at hn; simp at hn; omega
    | error => rw [hp] at hn; simp at hn; omega
    | ok v k =>
      rw [hp] at hn; simp only at hn
      split at hn <;> (simp at hn; omega)
  | succ f ih =>
    intro st a n hn
    rw [drain_unfold] at hn
    cases hp : parse a with
    | incomplete => rw [hp] at hn; simp at hn; omega
    | error => rw [hp] at hn; simp at hn; omega
    | ok v k =>
      rw [hp] at hn; simp only at hn
      split at hn
      · simp at hn; omega
      · simp only [List.mem_cons] at hn
        rcases hn with hn | hn
        · omega
        · have := ih _ (a.drop k) n hn
          simp only [List.length_drop] at this; omega

/-- observable part of a drain result under extension of the input:
    what was written / decoded stays, and the loop continues on leftover ++ extension -/
theorem drain_append : ∀ (f g : Nat) (st : σ) (a b : List UInt8), a.length ≤ f →
    (a ++ b).length ≤ g →
    let R := drain actor upperOf f st a
    let S := drain actor upperOf g st (a ++ b)
    match R.end with
    | .more r =>
      let T := drain actor upperOf (r ++ b).length R.st (r ++ b)
      S.out = R.out ++ T.out ∧ S.end = T.end ∧ S.cmds = R.cmds ++ T.cmds ∧ S.st = T.st
    | .quit => S.out = R.out ∧ S.end = .quit ∧ S.cmds = R.cmds ∧ S.st = R.st
    | .error => S.out = R.out ∧ S.end = .error ∧ S.cmds = R.cmds ∧ S.st = R.st := by
  intro f
  induction f with
  | zero =>
    intro g st a b hf hg
    have : a = [] := List.eq_nil_of_length_eq_zero (by omega)
    subst this
    simp only [drain_incomplete actor upperOf parse_nil, List.nil_append]
    rw [drain_fuel actor upperOf g b.length st b (by simpa using hg) (Nat.le_refl _)]
    simp
  | succ f ih =>
    intro g st a b hf hg
    simp only
    cases hp : parse a with
    | incomplete =>
      simp only [drain_incomplete actor upperOf hp, List.nil_append]
      rw [drain_fuel actor upperOf g (a ++ b).length st (a ++ b) hg (Nat.le_refl _)]
      simp
    | error =>
      rw [drain_unfold actor upperOf (f + 1) st a, drain_unfold actor upperOf g st (a ++ b),
        parse_append_err b hp, hp]
      simp
    | ok v n =>
      have hb := parse_bound hp
      rw [drain_unfold actor upperOf (f + 1) st a, drain_unfold actor upperOf g st (a ++ b),
        parse_append_ok b hp, hp]
      simp only
      by_cases hq : isQuit v (upperFor upperOf v) = true
      · simp [hq]
      · simp only [hq]
        cases g with
        | zero => simp only [List.length_append] at hg; omega
        | succ g =>
          simp only [Bool.false_eq_true, if_false]
          have e : List.drop n (a ++ b) = List.drop n a ++ b :=
            List.drop_append_of_le_length hb.2
          rw [e]
          have := ih g (respondS actor upperOf st v).2 (a.drop n) b
            (by simp only [List.length_drop]; omega)
            (by simp only [List.length_append, List.length_drop] at hg ⊢; omega)
          simp only at this
          cases he : (drain actor upperOf f (respondS actor upperOf st v).2 (List.drop n a)).end with
          | more r =>
            rw [he] at this
            simp only at this ⊢
            simp only [this.1, this.2.1, this.2.2.1, this.2.2.2, List.append_assoc,
              List.cons_append, and_self]
          | quit =>
            rw [he] at this
            simp only at this ⊢
            simp only [this.1, this.2.1, this.2.2.1, this.2.2.2, and_self]
          | error =>
            rw [he] at this
            simp only at this ⊢
            simp only [this.1, this.2.1, this.2.2.1, this.2.2.2, and_self]

/-- the written bytes are the replies to the decoded commands, in order, and the limiter has
    seen exactly those commands -/
theorem drain_out : ∀ (f : Nat) (st : σ) (a : List UInt8),
    (drain actor upperOf f st a).out
      = ((replies actor upperOf st (drain actor upperOf f st a).cmds).1.map encode).flatten ∧
    (drain actor upperOf f st a).st
      = (replies actor upperOf st (drain actor upperOf f st a).cmds).2 := by
  intro f
  induction f with
  | zero =>
    intro st a
    rw [drain_unfold]
    cases parse a with
    | incomplete => simp [replies]
    | error => simp [replies]
    | ok v n => simp only; split <;> simp [replies]
  | succ f ih =>
    intro st a
    rw [drain_unfold]
    cases parse a with
    | incomplete => simp [replies]
    | error => simp [replies]
    | ok v n =>
      simp only
      split
      · simp [replies]
      · have := ih (respondS actor upperOf st v).2 (a.drop n)
        simp only [replies, List.map_cons, List.flatten_cons, ← this.1, ← this.2, and_self]

theorem drain_cmds : ∀ (f : Nat) (st : σ) (a : List UInt8),
    (drain actor upperOf f st a).cmds = frames upperOf f a := by
  intro f
  induction f with
  | zero =>
    intro st a
    rw [drain_unfold, frames]
    cases parse a with
    | incomplete => rfl
    | error => rfl
    | ok v n => simp only; split <;> rfl
  | succ f ih =>
    intro st a
    rw [drain_unfold, frames]
    cases parse a with
    | incomplete => rfl
    | error => rfl
    | ok v n =>
      simp only
      split
      · rfl
      · simp only [ih]

/-- every decoded command is within the limits -/
theorem drain_cmds_wf (f : Nat) (st : σ) (a : List UInt8) :
    ∀ v ∈ (drain actor upperOf f st a).cmds, WF v := by
  rw [drain_cmds]
  induction f generalizing a with
  | zero =>
    intro v hv
    rw [frames] at hv
    cases hp : parse a with
    | incomplete => rw [hp] at hv; cases hv
    | error => rw [hp] at hv; cases hv
    | ok w k =>
      rw [hp] at hv; simp only at hv
      split at hv <;> (simp only [List.mem_singleton] at hv; subst hv; exact parse_wf hp)
  | succ f ih =>
    intro v hv
    rw [frames] at hv
    cases hp : parse a with
    | incomplete => rw [hp] at hv; cases hv
    | error => rw [hp] at hv; cases hv
    | ok w k =>
      rw [hp] at hv; simp only at hv
      split at hv
      · simp only [List.mem_singleton] at hv; subst hv; exact parse_wf hp
      · simp only [List.mem_cons] at hv
        rcases hv with rfl | hv
        · exact parse_wf hp
        · exact ih _ v hv

/-! ## stream semantics -/

/-- the whole stream handed to the loop at once (no cap) -/
def streamRun (st : σ) (s : List UInt8) : DrainRes σ := drain actor upperOf s.length st s

/-! ## connection loop vs. stream semantics -/

theorem connLoop_nil (st : σ) (buf : List UInt8) :
    connLoop actor upperOf [] st buf = ⟨[], .open buf, [], [], st⟩ := rfl

theorem connLoop_cons (c : List UInt8) (cs : List (List UInt8)) (st : σ) (buf : List UInt8) :
    connLoop actor upperOf (c :: cs) st buf =
      if c.isEmpty then ⟨[], .eof, [], [], st⟩
      else if (buf ++ c).length > RESP_MAX_BUFFER then ⟨[], .overflow, [], [], st⟩
      else
        match (drain actor upperOf (buf ++ c).length st (buf ++ c)).end with
        | .more b =>
          ⟨(drain actor upperOf (buf ++ c).length st (buf ++ c)).out
             ++ (connLoop actor upperOf cs (drain actor upperOf (buf ++ c).length st (buf ++ c)).st b).out,
           (connLoop actor upperOf cs (drain actor upperOf (buf ++ c).length st (buf ++ c)).st b).end,
           (drain actor upperOf (buf ++ c).length st (buf ++ c)).parsed
             ++ (connLoop actor upperOf cs (drain actor upperOf (buf ++ c).length st (buf ++ c)).st b).parsed,
           (drain actor upperOf (buf ++ c).length st (buf ++ c)).cmds
             ++ (connLoop actor upperOf cs (drain actor upperOf (buf ++ c).length st (buf ++ c)).st b).cmds,
           (connLoop actor upperOf cs (drain actor upperOf (buf ++ c).length st (buf ++ c)).st b).st⟩
        | .quit =>
          ⟨(drain actor upperOf (buf ++ c).length st (buf ++ c)).out, .quit,
           (drain actor upperOf (buf ++ c).length st (buf ++ c)).parsed,
           (drain actor upperOf (buf ++ c).length st (buf ++ c)).cmds,
           (drain actor upperOf (buf ++ c).length st (buf ++ c)).st⟩
        | .error =>
          ⟨(drain actor upperOf (buf ++ c).length st (buf ++ c)).out, .protocolError,
           (drain actor upperOf (buf ++ c).length st (buf ++ c)).parsed,
           (drain actor upperOf (buf ++ c).length st (buf ++ c)).cmds,
           (drain actor upperOf (buf ++ c).length st (buf ++ c)).st⟩ := by
  rw [connLoop]
  rfl

theorem isEmpty_false_of_ne {c : List UInt8} (h : c ≠ []) : ¬ (c.isEmpty = true) := by
  cases c with
  | nil => exact absurd rfl h
  | cons _ _ => simp

/-- without overflow, reading in chunks is the same as having the whole stream at once -/
theorem connLoop_eq_stream : ∀ (cs : List (List UInt8)) (st : σ) (buf : List UInt8),
    (∀ c ∈ cs, c ≠ []) → parse buf = .incomplete →
    (connLoop actor upperOf cs st buf).end ≠ .overflow →
    (connLoop actor upperOf cs st buf).out = (streamRun actor upperOf st (buf ++ cs.flatten)).out ∧
    (connLoop actor upperOf cs st buf).end
      = endOfDrain (streamRun actor upperOf st (buf ++ cs.flatten)).end ∧
    (connLoop actor upperOf cs st buf).cmds
      = (streamRun actor upperOf st (buf ++ cs.flatten)).cmds ∧
    (connLoop actor upperOf cs st buf).st = (streamRun actor upperOf st (buf ++ cs.flatten)).st
  | [], st, buf, _, hinc, _ => by
    simp only [connLoop_nil, List.flatten_nil, List.append_nil, streamRun,
      drain_incomplete actor upperOf hinc, endOfDrain, and_self]
  | c :: cs, st, buf, hne, hinc, hno => by
    rw [connLoop_cons] at hno ⊢
    rw [if_neg (isEmpty_false_of_ne (hne c (by simp)))] at hno ⊢
    by_cases hov : (buf ++ c).length > RESP_MAX_BUFFER
    · rw [if_pos hov] at hno; exact absurd rfl hno
    · rw [if_neg hov] at hno ⊢
      have happ := drain_append actor upperOf (buf ++ c).length
        (buf ++ c ++ cs.flatten).length st (buf ++ c) cs.flatten (Nat.le_refl _) (Nat.le_refl _)
      simp only at happ
      have eS : buf ++ (c :: cs).flatten = buf ++ c ++ cs.flatten := by simp
      rw [eS]
      unfold streamRun
      cases he : (drain actor upperOf (buf ++ c).length st (buf ++ c)).end with
      | more b =>
        rw [he] at happ hno
        simp only at happ hno ⊢
        have hb := drain_more actor upperOf _ st (buf ++ c) b (Nat.le_refl _) he
        have ih := connLoop_eq_stream cs _ b (fun c' hc' => hne c' (by simp [hc'])) hb.1 hno
        unfold streamRun at ih
        simp only [ih.1, ih.2.1, ih.2.2.1, ih.2.2.2, happ.1, happ.2.1, happ.2.2.1, happ.2.2.2,
          and_self]
      | quit =>
        rw [he] at happ
        simp only at happ ⊢
        simp only [happ.1, happ.2.1, happ.2.2.1, happ.2.2.2, endOfDrain, and_self]
      | error =>
        rw [he] at happ
        simp only at happ ⊢
        simp only [happ.1, happ.2.1, happ.2.2.1, happ.2.2.2, endOfDrain, and_self]

/-- in general (overflow or not) a chunked run writes / decodes a prefix of the stream run -/
theorem connLoop_prefix_stream : ∀ (cs : List (List UInt8)) (st : σ) (buf : List UInt8),
    (∀ c ∈ cs, c ≠ []) → parse buf = .incomplete →
    (connLoop actor upperOf cs st buf).out
      <+: (streamRun actor upperOf st (buf ++ cs.flatten)).out ∧
    (connLoop actor upperOf cs st buf).cmds
      <+: (streamRun actor upperOf st (buf ++ cs.flatten)).cmds
  | [], st, buf, _, hinc => by
    simp only [connLoop_nil, List.nil_prefix, and_self]
  | c :: cs, st, buf, hne, hinc => by
    rw [connLoop_cons]
    rw [if_neg (isEmpty_false_of_ne (hne c (by simp)))]
    by_cases hov : (buf ++ c).length > RESP_MAX_BUFFER
    · rw [if_pos hov]; simp only [List.nil_prefix, and_self]
    · rw [if_neg hov]
      have happ := drain_append actor upperOf (buf ++ c).length
        (buf ++ c ++ cs.flatten).length st (buf ++ c) cs.flatten (Nat.le_refl _) (Nat.le_refl _)
      simp only at happ
      have eS : buf ++ (c :: cs).flatten = buf ++ c ++ cs.flatten := by simp
      rw [eS]
      unfold streamRun
      cases he : (drain actor upperOf (buf ++ c).length st (buf ++ c)).end with
      | more b =>
        rw [he] at happ
        simp only at happ ⊢
        have hb := drain_more actor upperOf _ st (buf ++ c) b (Nat.le_refl _) he
        have ih := connLoop_prefix_stream cs (drain actor upperOf (buf ++ c).length st (buf ++ c)).st
          b (fun c' hc' => hne c' (by simp [hc'])) hb.1
        unfold streamRun at ih
        rw [happ.1, happ.2.2.1]
        exact ⟨(List.prefix_append_right_inj _).mpr ih.1, (List.prefix_append_right_inj _).mpr ih.2⟩
      | quit =>
        rw [he] at happ
        simp only at happ ⊢
        rw [happ.1, happ.2.2.1]; exact ⟨List.prefix_refl _, List.prefix_refl _⟩
      | error =>
        rw [he] at happ
        simp only at happ ⊢
        rw [happ.1, happ.2.2.1]; exact ⟨List.prefix_refl _, List.prefix_refl _⟩

/-- `replies` over a concatenation -/
theorem replies_append : ∀ (st : σ) (xs ys : List Value),
    (replies actor upperOf st (xs ++ ys)).1
      = (replies actor upperOf st xs).1
        ++ (replies actor upperOf (replies actor upperOf st xs).2 ys).1 ∧
    (replies actor upperOf st (xs ++ ys)).2
      = (replies actor upperOf (replies actor upperOf st xs).2 ys).2
  | st, [], ys => by simp [replies]
  | st, x :: xs, ys => by
    have := replies_append (respondS actor upperOf st x).2 xs ys
    simp only [List.cons_append, replies, this.1, this.2, and_self]

/-- the written bytes are the replies to the decoded commands, in order -/
theorem connLoop_out : ∀ (cs : List (List UInt8)) (st : σ) (buf : List UInt8),
    (connLoop actor upperOf cs st buf).out
      = ((replies actor upperOf st (connLoop actor upperOf cs st buf).cmds).1.map encode).flatten ∧
    (connLoop actor upperOf cs st buf).st
      = (replies actor upperOf st (connLoop actor upperOf cs st buf).cmds).2
  | [], st, buf => by simp [connLoop_nil, replies]
  | c :: cs, st, buf => by
    rw [connLoop_cons]
    split
    · simp [replies]
    · split
      · simp [replies]
      · have hd := drain_out actor upperOf (buf ++ c).length st (buf ++ c)
        split
        · rename_i b hb
          have ih := connLoop_out cs (drain actor upperOf (buf ++ c).length st (buf ++ c)).st b
          have ra := replies_append actor upperOf st
            (drain actor upperOf (buf ++ c).length st (buf ++ c)).cmds
            (connLoop actor upperOf cs (drain actor upperOf (buf ++ c).length st (buf ++ c)).st b).cmds
          simp only
          rw [ra.1, ra.2, ← hd.2, List.map_append, List.flatten_append, ← hd.1, ← ih.1, ← ih.2]
          exact ⟨rfl, rfl⟩
        · exact hd
        · exact hd

theorem connLoop_cmds_wf : ∀ (cs : List (List UInt8)) (st : σ) (buf : List UInt8),
    ∀ v ∈ (connLoop actor upperOf cs st buf).cmds, WF v
  | [], st, buf, v, hv => by simp [connLoop_nil] at hv
  | c :: cs, st, buf, v, hv => by
    rw [connLoop_cons] at hv
    split at hv
    · cases hv
    · split at hv
      · cases hv
      · have hd := drain_cmds_wf actor upperOf (buf ++ c).length st (buf ++ c)
        split at hv
        · simp only [List.mem_append] at hv
          rcases hv with hv | hv
          · exact hd v hv
          · exact connLoop_cmds_wf cs _ _ v hv
        · exact hd v hv
        · exact hd v hv

/-! ## buffer cap -/

theorem connLoop_parsed_cap : ∀ (cs : List (List UInt8)) (st : σ) (buf : List UInt8),
    ∀ n ∈ (connLoop actor upperOf cs st buf).parsed, n ≤ RESP_MAX_BUFFER
  | [], st, buf, n, hn => by simp [connLoop_nil] at hn
  | c :: cs, st, buf, n, hn => by
    rw [connLoop_cons] at hn
    split at hn
    · simp at hn
    · split at hn
      · simp at hn
      · rename_i hov
        have hd := drain_parsed_le actor upperOf (buf ++ c).length st (buf ++ c)
        split at hn
        · simp only [List.mem_append] at hn
          rcases hn with hn | hn
          · have := hd n hn; omega
          · exact connLoop_parsed_cap cs _ _ n hn
        · have := hd n hn; omega
        · have := hd n hn; omega

theorem connLoop_open_cap : ∀ (cs : List (List UInt8)) (st : σ) (buf b : List UInt8),
    buf.length ≤ RESP_MAX_BUFFER → (connLoop actor upperOf cs st buf).end = .open b →
    b.length ≤ RESP_MAX_BUFFER
  | [], st, buf, b, hbuf, h => by
    simp only [connLoop_nil, ConnEnd.open.injEq] at h; subst h; exact hbuf
  | c :: cs, st, buf, b, hbuf, h => by
    rw [connLoop_cons] at h
    split at h
    · cases h
    · split at h
      · cases h
      · rename_i hov
        split at h
        · rename_i r hr
          have := drain_more actor upperOf _ st (buf ++ c) r (Nat.le_refl _) hr
          exact connLoop_open_cap cs _ r b (by omega) h
        · cases h
        · cases h

end

/-! ## no overflow when frames are small -/

def FRAME_LIMIT : Nat := RESP_MAX_BUFFER - RESP_READ_CHUNK

/-- every frame of the stream is decided (value or error) within its first
    `65536 - 1024` bytes, and an unfinished tail is at most that long -/
inductive FramesSmall : List UInt8 → Prop
  | tail (s : List UInt8) : parse (s.take FRAME_LIMIT) = .incomplete → s.length ≤ FRAME_LIMIT →
      FramesSmall s
  | bad (s : List UInt8) : parse (s.take FRAME_LIMIT) = .error → FramesSmall s
  | frame (s : List UInt8) (v : Value) (n : Nat) : parse (s.take FRAME_LIMIT) = .ok v n →
      FramesSmall (s.drop n) → FramesSmall s

/-- an undecided prefix of a stream with small frames is short -/
theorem incomplete_prefix_small {s : List UInt8} (hs : FramesSmall s) (buf rest : List UInt8)
    (e : s = buf ++ rest) (hinc : parse buf = .incomplete) : buf.length ≤ FRAME_LIMIT := by
  apply Classical.byContradiction
  intro hlt
  have hlt : FRAME_LIMIT < buf.length := by omega
  have htake : s.take FRAME_LIMIT = buf.take FRAME_LIMIT := by
    rw [e, List.take_append_of_le_length (by omega)]
  have hbuf : buf = buf.take FRAME_LIMIT ++ buf.drop FRAME_LIMIT := (List.take_append_drop _ _).symm
  cases hs with
  | tail _ _ hl => rw [e] at hl; simp only [List.length_append] at hl; omega
  | bad _ hp =>
    rw [htake] at hp
    have := parse_append_err (buf.drop FRAME_LIMIT) hp
    rw [← hbuf, hinc] at this; cases this
  | frame _ v n hp _ =>
    rw [htake] at hp
    have := parse_append_ok (buf.drop FRAME_LIMIT) hp
    rw [← hbuf, hinc] at this; cases this

theorem FramesSmall_step {s : List UInt8} {v : Value} {n : Nat} (hs : FramesSmall s)
    (hp : parse s = .ok v n) : FramesSmall (s.drop n) := by
  have hs' : s = s.take FRAME_LIMIT ++ s.drop FRAME_LIMIT := (List.take_append_drop _ _).symm
  cases hs with
  | tail _ hq hl =>
    rw [List.take_of_length_le hl, hp] at hq; cases hq
  | bad _ hq =>
    have := parse_append_err (s.drop FRAME_LIMIT) hq
    rw [← hs', hp] at this; cases this
  | frame _ v' n' hq hrest =>
    have := parse_append_ok (s.drop FRAME_LIMIT) hq
    rw [← hs', hp] at this; cases this; exact hrest

section
variable {σ : Type} (actor : σ → ThrottleReq → ActorAnswer × σ)
  (upperOf : List UInt8 → List UInt8)

theorem FramesSmall_drain : ∀ (f : Nat) (st : σ) (a rest r : List UInt8), a.length ≤ f →
    FramesSmall (a ++ rest) → (drain actor upperOf f st a).end = .more r →
    FramesSmall (r ++ rest) := by
  intro f
  induction f with
  | zero =>
    intro st a rest r hf hs h
    have : a = [] := List.eq_nil_of_length_eq_zero (by omega)
    subst this
    rw [drain_incomplete actor upperOf parse_nil] at h
    cases h; exact hs
  | succ f ih =>
    intro st a rest r hf hs h
    rw [drain_unfold] at h
    cases hp : parse a with
    | incomplete => rw [hp] at h; cases h; exact hs
    | error => rw [hp] at h; cases h
    | ok v n =>
      have hb := parse_bound hp
      rw [hp] at h
      simp only at h
      split at h
      · cases h
      · have h2 := FramesSmall_step hs (parse_append_ok rest hp)
        rw [List.drop_append_of_le_length hb.2] at h2
        exact ih _ (a.drop n) rest r (by simp only [List.length_drop]; omega) h2 h

theorem connLoop_no_overflow : ∀ (cs : List (List UInt8)) (st : σ) (buf : List UInt8),
    (∀ c ∈ cs, c ≠ [] ∧ c.length ≤ RESP_READ_CHUNK) → FramesSmall (buf ++ cs.flatten) →
    parse buf = .incomplete → (connLoop actor upperOf cs st buf).end ≠ .overflow
  | [], st, buf, _, _, _ => by simp [connLoop_nil]
  | c :: cs, st, buf, hcs, hs, hinc => by
    have hc := hcs c (by simp)
    have hsmall := incomplete_prefix_small hs buf (c :: cs).flatten rfl hinc
    have hov : ¬ (buf ++ c).length > RESP_MAX_BUFFER := by
      have := hc.2
      simp only [List.length_append, FRAME_LIMIT, RESP_MAX_BUFFER, RESP_READ_CHUNK] at *
      omega
    rw [connLoop_cons, if_neg (isEmpty_false_of_ne hc.1), if_neg hov]
    cases he : (drain actor upperOf (buf ++ c).length st (buf ++ c)).end with
    | more b =>
      simp only
      have hb := drain_more actor upperOf _ st (buf ++ c) b (Nat.le_refl _) he
      have eS : buf ++ (c :: cs).flatten = buf ++ c ++ cs.flatten := by simp
      rw [eS] at hs
      have hs2 := FramesSmall_drain actor upperOf _ st (buf ++ c) cs.flatten b (Nat.le_refl _) hs he
      exact connLoop_no_overflow cs _ b (fun c' hc' => hcs c' (by simp [hc'])) hs2 hb.1
    | quit => simp
    | error => simp

end

/-! ## stateless limiter = `Unit` state -/

theorem respondS_lift (actor : ThrottleReq → ActorAnswer) (upperOf : List UInt8 → List UInt8)
    (v : Value) : (respondS (liftActor actor) upperOf () v).1 = respond actor upperOf v := by
  unfold respondS respond liftActor
  split <;> rfl

theorem replies_lift (actor : ThrottleReq → ActorAnswer) (upperOf : List UInt8 → List UInt8) :
    ∀ (vs : List Value),
      (replies (liftActor actor) upperOf () vs).1 = vs.map (respond actor upperOf)
  | [] => rfl
  | v :: vs => by
    simp only [replies, List.map_cons, respondS_lift, replies_lift actor upperOf vs]

/-! ## a frame that needs more than 64 KiB always ends the connection -/

theorem parse_prefix_incomplete {p q : List UInt8} (hq : parse (p ++ q) = .incomplete) :
    parse p = .incomplete := by
  cases hp : parse p with
  | incomplete => rfl
  | error => rw [parse_append_err q hp] at hq; cases hq
  | ok v n => rw [parse_append_ok q hp] at hq; cases hq

section
variable {σ : Type} (actor : σ → ThrottleReq → ActorAnswer × σ)
  (upperOf : List UInt8 → List UInt8)

theorem connLoop_long_frame : ∀ (cs : List (List UInt8)) (st : σ) (buf : List UInt8),
    (∀ c ∈ cs, c ≠ []) → buf.length ≤ RESP_MAX_BUFFER →
    parse ((buf ++ cs.flatten).take RESP_MAX_BUFFER) = .incomplete →
    RESP_MAX_BUFFER < (buf ++ cs.flatten).length →
    (connLoop actor upperOf cs st buf).end = .overflow ∧ (connLoop actor upperOf cs st buf).out = []
      ∧ (connLoop actor upperOf cs st buf).cmds = []
  | [], st, buf, _, hb, _, hl => by simp at hl; omega
  | c :: cs, st, buf, hne, hb, hinc, hl => by
    rw [connLoop_cons, if_neg (isEmpty_false_of_ne (hne c (by simp)))]
    by_cases hov : (buf ++ c).length > RESP_MAX_BUFFER
    · rw [if_pos hov]; exact ⟨rfl, rfl, rfl⟩
    · rw [if_neg hov]
      have eS : buf ++ (c :: cs).flatten = (buf ++ c) ++ cs.flatten := by simp
      rw [eS] at hinc hl
      have h1 : parse (buf ++ c) = .incomplete := by
        have e : ((buf ++ c) ++ cs.flatten).take RESP_MAX_BUFFER
            = (buf ++ c) ++ (cs.flatten.take (RESP_MAX_BUFFER - (buf ++ c).length)) := by
          rw [List.take_append]
          rw [List.take_of_length_le (by omega)]
        rw [e] at hinc
        exact parse_prefix_incomplete hinc
      rw [drain_incomplete actor upperOf h1]
      simp only [List.nil_append]
      exact connLoop_long_frame cs st (buf ++ c) (fun c' hc' => hne c' (by simp [hc'])) (by omega)
        hinc hl

end

end TcVerif.Resp
