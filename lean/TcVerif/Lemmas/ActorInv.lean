/-
  Invariants of the actor LTS (Model/Actor.lean), each proved by induction over `Reach`
  (arbitrary-length runs, any number of clients, any programs, any capacity).
  Part 1: what the log says about the clients; the FIFO equation; where replies come from.
-/
import TcVerif.Model.Actor
namespace TcVerif.Actor
variable {L Rq Rs : Type}

/-! ### lists -/

theorem getElem?_snoc {α : Type} (l : List α) (e x : α) (k : Nat) :
    (l ++ [e])[k]? = some x ↔ l[k]? = some x ∨ (k = l.length ∧ x = e) := by
  grind

theorem lt_of_getElem? {α : Type} {l : List α} {x : α} {k : Nat} (h : l[k]? = some x) : k < l.length := by
  rcases Nat.lt_or_ge k l.length with h1 | h1
  · exact h1
  · rw [List.getElem?_eq_none h1] at h; cases h

theorem mem_of_getElem? {α : Type} {l : List α} {x : α} {k : Nat} (h : l[k]? = some x) : x ∈ l :=
  List.mem_of_getElem? h

theorem getElem?_of_mem {α : Type} {l : List α} {x : α} (h : x ∈ l) : ∃ k : Nat, l[k]? = some x :=
  List.getElem?_of_mem h

@[simp] theorem procLog_snoc (l : List (Event Rq Rs)) (e : Event Rq Rs) :
    procLog (l ++ [e]) = procLog l ++ (match e with | .proc id r rs => [(id, r, rs)] | _ => []) := by
  induction l with
  | nil => cases e <;> rfl
  | cons x xs ih => cases x <;> simp [procLog, ih]

@[simp] theorem enqLog_snoc (l : List (Event Rq Rs)) (e : Event Rq Rs) :
    enqLog (l ++ [e]) = enqLog l ++ (match e with | .enq id r => [(id, r)] | _ => []) := by
  induction l with
  | nil => cases e <;> rfl
  | cons x xs ih => cases x <;> simp [enqLog, ih]

theorem mem_procLog {l : List (Event Rq Rs)} {id : Id} {r : Rq} {rs : Rs} :
    (id, r, rs) ∈ procLog l ↔ Event.proc id r rs ∈ l := by
  induction l with
  | nil => simp [procLog]
  | cons x xs ih => cases x <;> simp [procLog, ih]

theorem mem_enqLog {l : List (Event Rq Rs)} {id : Id} {r : Rq} :
    (id, r) ∈ enqLog l ↔ Event.enq id r ∈ l := by
  induction l with
  | nil => simp [enqLog]
  | cons x xs ih => cases x <;> simp [enqLog, ih]

theorem mem_of_findReply {id : Id} {rs : Rs} {l : List (Id × Rs)} (h : findReply id l = some rs) :
    (id, rs) ∈ l := by
  induction l with
  | nil => simp [findReply] at h
  | cons p ps ih =>
    simp only [findReply] at h
    split at h
    · rename_i hp
      cases h
      obtain ⟨a, b⟩ := p
      simp at hp
      simp [hp]
      done
    · exact List.mem_cons_of_mem _ (ih h)

theorem mem_dropReply {id : Id} {p : Id × Rs} {l : List (Id × Rs)} :
    p ∈ dropReply id l ↔ p ∈ l ∧ p.1 ≠ id := by
  induction l with
  | nil => simp [dropReply]
  | cons q qs ih =>
    simp only [dropReply]
    split
    · rename_i hq
      rw [ih]
      constructor
      · rintro ⟨h1, h2⟩; exact ⟨List.mem_cons_of_mem _ h1, h2⟩
      · rintro ⟨h1, h2⟩
        rcases List.mem_cons.mp h1 with rfl | h1
        · exact absurd hq h2
        · exact ⟨h1, h2⟩
    · rename_i hq
      simp only [List.mem_cons, ih]
      constructor
      · rintro (rfl | ⟨h1, h2⟩)
        · exact ⟨Or.inl rfl, hq⟩
        · exact ⟨Or.inr h1, h2⟩
      · rintro ⟨rfl | h1, h2⟩
        · exact Or.inl rfl
        · exact Or.inr ⟨h1, h2⟩

theorem findReply_isSome_of_mem {id : Id} {rs : Rs} {l : List (Id × Rs)} (h : (id, rs) ∈ l) :
    ∃ rs', findReply id l = some rs' := by
  induction l with
  | nil => simp at h
  | cons p ps ih =>
    simp only [findReply]
    split
    · exact ⟨_, rfl⟩
    · rename_i hp
      rcases List.mem_cons.mp h with rfl | h
      · exact absurd rfl hp
      · exact ih h

/-! ### the clients and the log -/

section
variable {M : Sys L Rq Rs} {n : Nat} {l0 : L} {s : State L Rq Rs}

theorem inv_clients_length (h : Reach M n l0 s) : s.clients.length = n := by
  induction h with
  | init => simp [init]
  | step _ hst ih => cases hst <;> simp [ih]

/-- what an event in the log implies about its client's current state -/
def Event.okFor (cls : List Cl) : Event Rq Rs → Prop
  | .call (c, i) _ => c < cls.length ∧ ∀ cl, cls[c]? = some cl → (i < cl.pc ∨ (i = cl.pc ∧ cl.st ≠ .idle))
  | .enq (c, i) _ => c < cls.length ∧ ∀ cl, cls[c]? = some cl → (i < cl.pc ∨ (i = cl.pc ∧ cl.st = .waiting))
  | .proc .. => True
  | .panic .. => True
  | .ret (c, i) _ => c < cls.length ∧ ∀ cl, cls[c]? = some cl → i < cl.pc
  | .cancelSend (c, i) => c < cls.length ∧ ∀ cl, cls[c]? = some cl → i < cl.pc
  | .cancelWait (c, i) => c < cls.length ∧ ∀ cl, cls[c]? = some cl → i < cl.pc
  | .fail (c, i) => c < cls.length ∧ ∀ cl, cls[c]? = some cl → i < cl.pc

theorem inv_okFor (h : Reach M n l0 s) : ∀ e ∈ s.log, e.okFor s.clients := by
  induction h with
  | init => intro e he; simp [init] at he
  | step hs hst ih =>
    cases hst <;> simp only [List.mem_append, List.mem_singleton] <;> intro e he
    all_goals
      rcases he with he | rfl
      · have := ih e he
        cases e <;> simp only [Event.okFor] at this ⊢ <;> grind
      · simp only [Event.okFor] <;> grind

theorem inv_call (h : Reach M n l0 s) {c i : Nat} {r : Rq} {cl : Cl}
    (he : Event.call (c, i) r ∈ s.log) (hc : s.clients[c]? = some cl) :
    i < cl.pc ∨ (i = cl.pc ∧ cl.st ≠ .idle) := (inv_okFor h _ he).2 cl hc

theorem inv_enq (h : Reach M n l0 s) {c i : Nat} {r : Rq} {cl : Cl}
    (he : Event.enq (c, i) r ∈ s.log) (hc : s.clients[c]? = some cl) :
    i < cl.pc ∨ (i = cl.pc ∧ cl.st = .waiting) := (inv_okFor h _ he).2 cl hc

/-- the request recorded in a `call`/`enq`/`proc` event is the one in the program -/
def Event.reqOK (M : Sys L Rq Rs) : Event Rq Rs → Prop
  | .call (c, i) r => (M.prog c)[i]? = some r
  | .enq (c, i) r => (M.prog c)[i]? = some r
  | .proc (c, i) r _ => (M.prog c)[i]? = some r
  | .panic (c, i) r => (M.prog c)[i]? = some r
  | _ => True

theorem inv_reqOK (h : Reach M n l0 s) :
    (∀ e ∈ s.log, e.reqOK M) ∧ (∀ c i r, ((c, i), r) ∈ s.queue → (M.prog c)[i]? = some r) := by
  induction h with
  | init => simp [init]
  | step hs hst ih =>
    obtain ⟨ih1, ih2⟩ := ih
    cases hst
    all_goals
      refine ⟨fun e he => ?_, fun c' i' r' hq => ?_⟩
      · simp only [List.mem_append, List.mem_singleton] at he
        rcases he with he | rfl
        · exact ih1 e he
        · simp only [Event.reqOK] <;> grind
      · grind


/-- a client that is `sending` has a `call` in the log, one that is `waiting` an `enq` -/
theorem inv_status (h : Reach M n l0 s) : ∀ c cl, s.clients[c]? = some cl →
    (cl.st ≠ .idle → cl.pc < (M.prog c).length) ∧
    ∀ r, (M.prog c)[cl.pc]? = some r →
      (cl.st ≠ .idle → Event.call (c, cl.pc) r ∈ s.log) ∧
      (cl.st = .waiting → Event.enq (c, cl.pc) r ∈ s.log) := by
  induction h with
  | init => intro c cl hc; simp [init] at hc; grind
  | step hs hst ih =>
    cases hst <;> intro c' cl' hc' <;> simp only [List.mem_append, List.mem_singleton] <;> grind


def procReqs (l : List (Event Rq Rs)) : List (Id × Rq) := (procLog l).map (fun p => (p.1, p.2.1))

/-- FIFO: the enqueued requests are, in order, the processed ones followed by the queue -/
theorem inv_fifo (h : Reach M n l0 s) : enqLog s.log = procReqs s.log ++ s.queue := by
  induction h with
  | init => simp [init, enqLog, procReqs, procLog]
  | step hs hst ih =>
    cases hst <;> simp_all [procReqs]

theorem inv_enq_nodup (h : Reach M n l0 s) : ((enqLog s.log).map (·.1)).Nodup := by
  induction h with
  | init => simp [init, enqLog]
  | step hs hst ih =>
    have hI := inv_okFor hs
    cases hst <;> simp_all
    rename_i c pc r hc hr hcap ha
    rw [List.nodup_append]
    refine ⟨ih, by simp, ?_⟩
    intro a ha' b hb
    simp at hb
    subst hb
    intro hab
    subst hab
    simp at ha'
    obtain ⟨r', hr'⟩ := ha'
    have := inv_enq hs (mem_enqLog.mp hr') hc
    simp at this

/-- a reply in a slot was computed by a `proc` that is in the log -/
theorem inv_replies (h : Reach M n l0 s) : ∀ id rs, (id, rs) ∈ s.replies → ∃ r, Event.proc id r rs ∈ s.log := by
  induction h with
  | init => simp [init]
  | step hs hst ih =>
    cases hst
    case proc id r q l' rs ha hq hs' =>
      intro id' rs' hm
      simp only [List.mem_append, List.mem_singleton] at *
      split at hm
      · obtain ⟨r', hr'⟩ := ih id' rs' hm; exact ⟨r', Or.inl hr'⟩
      · simp only [List.mem_append, List.mem_singleton] at hm
        rcases hm with hm | hm
        · obtain ⟨r', hr'⟩ := ih id' rs' hm; exact ⟨r', Or.inl hr'⟩
        · cases hm; exact ⟨r, Or.inr rfl⟩
    all_goals
      intro id' rs' hm
      simp only [List.mem_append, List.mem_singleton, mem_dropReply] at *
      obtain ⟨r', hr'⟩ := ih id' rs' (by grind)
      exact ⟨r', Or.inl hr'⟩

end
end TcVerif.Actor
