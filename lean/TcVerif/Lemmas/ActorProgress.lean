/-
  Invariants of the actor LTS, part 3: back-pressure bound, progress (no deadlock),
  the termination measure.
-/
import TcVerif.Lemmas.ActorOrder
namespace TcVerif.Actor
variable {L Rq Rs : Type}
variable {M : Sys L Rq Rs} {n : Nat} {l0 : L} {s : State L Rq Rs}

theorem inv_queue_le_cap (h : Reach M n l0 s) : s.queue.length ≤ M.cap := by
  induction h with
  | init => simp [init]
  | step hs hst ih =>
    cases hst <;> simp_all <;> omega

/-- an abandoned slot belongs to a request its client has left behind -/
theorem inv_abandoned (h : Reach M n l0 s) : ∀ c i, (c, i) ∈ s.abandoned →
    ∀ cl, s.clients[c]? = some cl → i < cl.pc := by
  induction h with
  | init => simp [init]
  | step hs hst ih =>
    cases hst <;> intro c' i' hm cl' hcl' <;> simp only [List.mem_cons] at hm <;> grind

/-- a waiting client's request is in the queue or its reply is in the slot -/
theorem inv_waiting (h : Reach M n l0 s) : ∀ c cl, s.clients[c]? = some cl → cl.st = .waiting →
    (∃ r, ((c, cl.pc), r) ∈ s.queue) ∨ (∃ rs, ((c, cl.pc), rs) ∈ s.replies) := by
  induction h with
  | init => intro c cl hc; simp [init] at hc; grind
  | @step s1 s2 lb hs hst ih =>
    have hAb := inv_abandoned hs
    cases hst
    case call c pc r hc hr =>
      intro c' cl' hc' hw
      simp only [List.getElem?_set] at hc'
      split at hc'
      · split at hc'
        · cases hc'; cases hw
        · cases hc'
      · exact ih c' cl' hc' hw
    case enq c pc r hc hr hcap ha =>
      intro c' cl' hc' hw
      simp only [List.getElem?_set] at hc'
      split at hc'
      · rename_i heq
        subst heq
        split at hc'
        · cases hc'
          exact Or.inl ⟨r, by simp⟩
        · cases hc'
      · rcases ih c' cl' hc' hw with ⟨r', hr'⟩ | hrep
        · exact Or.inl ⟨r', List.mem_append_left _ hr'⟩
        · exact Or.inr hrep
    case proc id r q l' rs ha hq hs' =>
      intro c' cl' hc' hw
      rcases ih c' cl' hc' hw with ⟨r', hr'⟩ | ⟨rs', hrs'⟩
      · rw [hq] at hr'
        rcases List.mem_cons.mp hr' with heq | hin
        · cases heq
          have hna : (c', cl'.pc) ∉ s1.abandoned := by
            intro hin
            have := hAb _ _ hin cl' hc'
            omega
          refine Or.inr ⟨rs, ?_⟩
          simp only [hna, if_false]
          exact List.mem_append_right _ (List.mem_singleton.mpr rfl)
        · exact Or.inl ⟨r', hin⟩
      · refine Or.inr ⟨rs', ?_⟩
        simp only
        split
        · exact hrs'
        · exact List.mem_append_left _ hrs'
    case actorPanic => exact ih
    case ret c pc rs hc hf =>
      intro c' cl' hc' hw
      simp only [List.getElem?_set] at hc'
      split at hc'
      · split at hc'
        · cases hc'; cases hw
        · cases hc'
      · rename_i hne
        rcases ih c' cl' hc' hw with hq | ⟨rs', hrs'⟩
        · exact Or.inl hq
        · exact Or.inr ⟨rs', mem_dropReply.mpr ⟨hrs', by simp; intro h1; exact absurd h1.symm hne⟩⟩
    case cancelSend c pc hc =>
      intro c' cl' hc' hw
      simp only [List.getElem?_set] at hc'
      split at hc'
      · split at hc'
        · cases hc'; cases hw
        · cases hc'
      · exact ih c' cl' hc' hw
    case cancelWait c pc hc =>
      intro c' cl' hc' hw
      simp only [List.getElem?_set] at hc'
      split at hc'
      · split at hc'
        · cases hc'; cases hw
        · cases hc'
      · rename_i hne
        rcases ih c' cl' hc' hw with hq | ⟨rs', hrs'⟩
        · exact Or.inl hq
        · exact Or.inr ⟨rs', mem_dropReply.mpr ⟨hrs', by simp; intro h1; exact absurd h1.symm hne⟩⟩
    case failSend c pc hc ha =>
      intro c' cl' hc' hw
      simp only [List.getElem?_set] at hc'
      split at hc'
      · split at hc'
        · cases hc'; cases hw
        · cases hc'
      · exact ih c' cl' hc' hw
    case failWait c pc hc ha hf =>
      intro c' cl' hc' hw
      simp only [List.getElem?_set] at hc'
      split at hc'
      · split at hc'
        · cases hc'; cases hw
        · cases hc'
      · exact ih c' cl' hc' hw

/-- a label that makes progress (anything but `cancel` / `fail`) -/
def Label.progress : Label → Prop
  | .call _ | .enq _ | .proc | .actorPanic | .ret _ => True
  | _ => False

/-- **progress**: while the actor is alive and some client is not finished, a transition other
    than `cancel`/`fail` is enabled -/
theorem progress (h : Reach M n l0 s) (hcap : 1 ≤ M.cap) (ha : s.alive = true)
    {c : Nat} {cl : Cl} (hc : s.clients[c]? = some cl)
    (hbusy : cl.st ≠ .idle ∨ cl.pc < (M.prog c).length) :
    ∃ lb s', Step M s lb s' ∧ lb.progress := by
  cases hq : s.queue with
  | cons x q =>
    obtain ⟨id, r⟩ := x
    cases hst : M.lim.step s.lim r with
    | none => exact ⟨.actorPanic, _, .actorPanic ha hq hst, trivial⟩
    | some p =>
      obtain ⟨l', rs⟩ := p
      exact ⟨.proc, _, .proc ha hq hst, trivial⟩
  | nil =>
    obtain ⟨pc, st⟩ := cl
    cases st with
    | idle =>
      have hlt : pc < (M.prog c).length := by
        rcases hbusy with h1 | h1
        · exact absurd rfl h1
        · exact h1
      exact ⟨.call c, _, .call hc (List.getElem?_eq_getElem hlt), trivial⟩
    | sending =>
      have hlt := (inv_status h c _ hc).1 (by simp)
      exact ⟨.enq c, _, .enq hc (List.getElem?_eq_getElem hlt) (by rw [hq]; exact hcap) ha, trivial⟩
    | waiting =>
      rcases inv_waiting h c _ hc rfl with ⟨r, hr⟩ | ⟨rs, hrs⟩
      · rw [hq] at hr; cases hr
      · obtain ⟨rs', hrs'⟩ := findReply_isSome_of_mem hrs
        exact ⟨.ret c, _, .ret hc hrs', trivial⟩

/-! ### termination measure -/

def clWeight (M : Sys L Rq Rs) (c : Nat) (cl : Cl) : Nat :=
  match cl.st with
  | .idle => 5 * ((M.prog c).length - cl.pc)
  | .sending => 5 * ((M.prog c).length - cl.pc - 1) + 4
  | .waiting => 5 * ((M.prog c).length - cl.pc - 1) + 2

def clientsWeight (M : Sys L Rq Rs) : Nat → List Cl → Nat
  | _, [] => 0
  | k, cl :: rest => clWeight M k cl + clientsWeight M (k + 1) rest

/-- strictly decreases on every transition: so every run is finite -/
def measure (M : Sys L Rq Rs) (s : State L Rq Rs) : Nat :=
  clientsWeight M 0 s.clients + s.queue.length + (if s.alive then 1 else 0)

theorem clientsWeight_set (M : Sys L Rq Rs) (k c : Nat) (cls : List Cl) (cl cl' : Cl)
    (hc : cls[c]? = some cl) :
    clientsWeight M k (cls.set c cl') + clWeight M (k + c) cl
      = clientsWeight M k cls + clWeight M (k + c) cl' := by
  induction cls generalizing k c with
  | nil => simp at hc
  | cons x xs ih =>
    cases c with
    | zero =>
      simp only [List.getElem?_cons_zero, Option.some.injEq] at hc
      subst hc
      simp only [List.set_cons_zero, clientsWeight, Nat.add_zero]
      omega
    | succ c0 =>
      simp only [List.getElem?_cons_succ] at hc
      simp only [List.set_cons_succ, clientsWeight]
      have := ih (k + 1) c0 hc
      have e : k + 1 + c0 = k + (c0 + 1) := by omega
      rw [e] at this
      omega

theorem measure_decreases {s s' : State L Rq Rs} {lb : Label} (hst : Step M s lb s') :
    measure M s' < measure M s := by
  cases hst
  case call c pc r hc hr =>
    have := clientsWeight_set M 0 c s.clients _ ⟨pc, .sending⟩ hc
    have hlt := lt_of_getElem? hr
    simp only [measure, clWeight, Nat.zero_add] at this ⊢
    omega
  case enq c pc r hc hr hcap ha =>
    have := clientsWeight_set M 0 c s.clients _ ⟨pc, .waiting⟩ hc
    simp only [measure, clWeight, Nat.zero_add, List.length_append, List.length_singleton] at this ⊢
    omega
  case proc id r q l' rs ha hq hs' =>
    simp only [measure, hq, List.length_cons]
    omega
  case actorPanic id r q ha hq hs' =>
    simp only [measure, ha]
    simp
  case ret c pc rs hc hf =>
    have := clientsWeight_set M 0 c s.clients _ ⟨pc + 1, .idle⟩ hc
    simp only [measure, clWeight, Nat.zero_add] at this ⊢
    omega
  case cancelSend c pc hc =>
    have := clientsWeight_set M 0 c s.clients _ ⟨pc + 1, .idle⟩ hc
    simp only [measure, clWeight, Nat.zero_add] at this ⊢
    omega
  case cancelWait c pc hc =>
    have := clientsWeight_set M 0 c s.clients _ ⟨pc + 1, .idle⟩ hc
    simp only [measure, clWeight, Nat.zero_add] at this ⊢
    omega
  case failSend c pc hc ha =>
    have := clientsWeight_set M 0 c s.clients _ ⟨pc + 1, .idle⟩ hc
    simp only [measure, clWeight, Nat.zero_add] at this ⊢
    omega
  case failWait c pc hc ha hf =>
    have := clientsWeight_set M 0 c s.clients _ ⟨pc + 1, .idle⟩ hc
    simp only [measure, clWeight, Nat.zero_add] at this ⊢
    omega

theorem run_length_le_measure {s s' : State L Rq Rs} {lbs : List Label} (hr : Run M s lbs s') :
    lbs.length + measure M s' ≤ measure M s := by
  induction hr with
  | nil => simp
  | cons h1 _ ih =>
    have := measure_decreases h1
    simp only [List.length_cons]
    omega

end TcVerif.Actor
